// Native stand-in for the `kani` crate, used only when a solver counterexample is replayed against the
// real build (repo toolchain, cfg(test)).  kani::any() pops the concrete bytes Kani's concrete-playback printed.
#![allow(dead_code, unused_macros)]
use std::cell::RefCell;

thread_local! {
    static VALUES: RefCell<(Vec<Vec<u8>>, usize)> = RefCell::new((Vec::new(), 0));
}

pub fn set_values(v: Vec<Vec<u8>>) {
    VALUES.with(|c| *c.borrow_mut() = (v, 0));
}

fn next_bytes(n: usize) -> Vec<u8> {
    VALUES.with(|c| {
        let mut c = c.borrow_mut();
        let mut out = Vec::new();
        while out.len() < n {
            let i = c.1;
            if i >= c.0.len() {
                println!("VERIF-REPLAY: ran out of concrete values (harness asked for more kani::any() than the model has)");
                std::process::exit(3);
            }
            out.extend_from_slice(&c.0[i]);
            c.1 += 1;
        }
        if out.len() != n {
            println!("VERIF-REPLAY: size mismatch ({} bytes wanted, {} supplied)", n, out.len());
            std::process::exit(3);
        }
        out
    })
}

pub fn any<T: Copy>() -> T {
    let n = std::mem::size_of::<T>();
    if n == 0 { return unsafe { std::mem::zeroed() }; }
    let b = next_bytes(n);
    unsafe { std::ptr::read_unaligned(b.as_ptr() as *const T) }
}

pub fn assume(cond: bool) {
    if !cond {
        println!("VERIF-REPLAY: assumption not satisfied by the concrete values (model does not reproduce)");
        std::process::exit(3);
    }
}

macro_rules! __verif_cover { ($($t:tt)*) => {{}}; }
pub(crate) use __verif_cover as cover;
