// Root of the native drivers: reads the case file and dispatches to the per-module drivers.
use std::panic::{catch_unwind, AssertUnwindSafe};

#[test]
fn verif_native_driver() {
    let path = match std::env::var("VERIF_NATIVE_CASES") { Ok(p) => p, Err(_) => return };
    let text = std::fs::read_to_string(path).unwrap();
    std::panic::set_hook(Box::new(|info| {
        let msg = if let Some(s) = info.payload().downcast_ref::<&str>() { s.to_string() }
                  else if let Some(s) = info.payload().downcast_ref::<String>() { s.clone() } else { "?".to_string() };
        let loc = info.location().map(|l| format!("{}:{}", l.file(), l.line())).unwrap_or_default();
        println!("VERIF-NAT-PANICINFO {} @ {}", msg.replace('\n', " "), loc);
    }));
    for line in text.lines() {
        let toks: Vec<&str> = line.split_whitespace().collect();
        if toks.len() < 2 { continue; }
        let (id, kernel, rest) = (toks[0], toks[1], &toks[2..]);
        let r = catch_unwind(AssertUnwindSafe(|| crate::verif_native_dispatch(kernel, rest)));
        match r {
            Ok(Some(out)) => println!("VERIF-NAT {} OUT {}", id, out),
            Ok(None) => println!("VERIF-NAT {} UNKNOWN", id),
            Err(_) => println!("VERIF-NAT {} PANIC", id),
        }
    }
}
