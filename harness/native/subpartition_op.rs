use super::*;
use crate::verif_nat_util::*;

fn pms(tok: &str) -> Vec<Premerge> { tok.split(';').filter(|x| !x.is_empty()).map(|e| { let mut it = e.split(':'); Premerge { left: it.next().unwrap().parse().unwrap(), right: it.next().unwrap().parse().unwrap() } }).collect() }
fn fmt_pm(v: &[Premerge]) -> String { if v.is_empty() { "-".to_string() } else { v.iter().map(|p| format!("{}:{}", p.left, p.right)).collect::<Vec<_>>().join(";") } }

pub fn dispatch(k: &str, t: &[&str]) -> Option<String> {
    match k {
        "subpartition_i64_lt" => Some(fmt_pm(&subpartition::<i64, CmpLessThan>(&pms(t[0]), &vec_of::<i64>(t[1]), &vec_of::<i64>(t[2])))),
        "subpartition_u8_gt" => Some(fmt_pm(&subpartition::<u8, CmpGreaterThan>(&pms(t[0]), &vec_of::<u8>(t[1]), &vec_of::<u8>(t[2])))),
        _ => None,
    }
}
