use super::*;
use crate::verif_nat_util::*;

fn ops_of(tok: &str) -> Vec<MergeOp> {
    vec_of::<u8>(tok).into_iter().map(|o| match o { 0 => MergeOp::TakeLeft, 1 => MergeOp::TakeRight, _ => MergeOp::MergeRight }).collect()
}

pub fn dispatch(k: &str, t: &[&str]) -> Option<String> {
    match k {
        "merge_drop_i64" => Some(fmt_vec(&merge_drop::<i64>(&ops_of(t[0]), &vec_of::<i64>(t[1]), &vec_of::<i64>(t[2])))),
        _ => None,
    }
}
