// native driver for src/engine/operators/merge_keep.rs
use super::*;
use crate::verif_nat_util::*;

pub fn dispatch(k: &str, t: &[&str]) -> Option<String> {
    match k {
        "merge_keep_i64" => { let r = merge_keep::<i64>(&vec_of::<u8>(t[0]), &vec_of::<i64>(t[1]), &vec_of::<i64>(t[2])); Some(fmt_vec(&r)) }
        "merge_keep_u8" => { let r = merge_keep::<u8>(&vec_of::<u8>(t[0]), &vec_of::<u8>(t[1]), &vec_of::<u8>(t[2])); Some(fmt_vec(&r)) }
        "merge_keep_nullable_i64" => {
            let (r, p) = merge_keep_nullable::<i64>(&vec_of::<u8>(t[0]), &vec_of::<i64>(t[1]), &vec_of::<i64>(t[2]), &vec_of::<u8>(t[3]), &vec_of::<u8>(t[4]));
            Some(format!("{} {}", fmt_vec(&r), fmt_vec(&p)))
        }
        _ => None,
    }
}
