use super::*;
use crate::verif_nat_util::*;

fn pms(tok: &str) -> Vec<Premerge> { tok.split(';').filter(|x| !x.is_empty()).map(|e| { let mut it = e.split(':'); Premerge { left: it.next().unwrap().parse().unwrap(), right: it.next().unwrap().parse().unwrap() } }).collect() }

macro_rules! case {
    ($t:ty, $c:ty, $toks:expr) => {{
        let (out, ops) = merge_deduplicate_partitioned::<$t, $c>(&pms($toks[0]), &vec_of::<$t>($toks[1]), &vec_of::<$t>($toks[2]));
        let ops: Vec<u8> = ops.iter().map(|o| match o { MergeOp::TakeLeft => 0, MergeOp::TakeRight => 1, MergeOp::MergeRight => 2 }).collect();
        Some(format!("{} {}", fmt_vec(&out), fmt_vec(&ops)))
    }};
}

pub fn dispatch(k: &str, t: &[&str]) -> Option<String> {
    match k {
        "merge_dedup_part_i64_lt" => case!(i64, CmpLessThan, t),
        "merge_dedup_part_u8_lt" => case!(u8, CmpLessThan, t),
        "merge_dedup_part_u32_lt" => case!(u32, CmpLessThan, t),
        _ => None,
    }
}
