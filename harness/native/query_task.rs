// native driver for src/engine/execution/query_task.rs (child module: private BasicTypeColumn::from_boxed_data)
use super::*;
use crate::verif_nat_util::*;
use crate::engine::data_types::{BoxedData, Data, NullableVec};

pub fn dispatch(k: &str, t: &[&str]) -> Option<String> {
    match k {
        "row_column_view" => {
            use crate::ingest::raw_val::RawVal;
            use ordered_float::OrderedFloat;
            let data: BoxedData = match t[0] {
                "null" => Box::new(num::<usize>(t[1])),
                "i64" => Box::new(vec_of::<i64>(t[1])),
                "u8" => Box::new(vec_of::<u8>(t[1])),
                "u16" => Box::new(vec_of::<u16>(t[1])),
                "u32" => Box::new(vec_of::<u32>(t[1])),
                "f64" => Box::new(vec_f64_bits(t[1]).into_iter().map(OrderedFloat).collect::<Vec<_>>()),
                "nullable_i64" => Box::new(NullableVec::<i64> { data: vec_of(t[1]), present: vec_of(t[2]) }),
                "nullable_u8" => Box::new(NullableVec::<u8> { data: vec_of(t[1]), present: vec_of(t[2]) }),
                "nullable_f64" => Box::new(NullableVec::<OrderedFloat<f64>> { data: vec_f64_bits(t[1]).into_iter().map(OrderedFloat).collect(), present: vec_of(t[2]) }),
                _ => return None,
            };
            let n = data.len();
            let cell = |v: &RawVal| match v { RawVal::Null => "n".to_string(), RawVal::Int(i) => format!("i{}", i), RawVal::Float(f) => format!("f{}", f.0.to_bits()), RawVal::Str(_) => "s".to_string() };
            let rows: Vec<String> = (0..n).map(|i| cell(&data.get_raw(i))).collect();
            let rows = if rows.is_empty() { "-".to_string() } else { rows.join(",") };
            let j = |v: Vec<String>| if v.is_empty() { "-".to_string() } else { v.join(",") };
            let col = match BasicTypeColumn::from_boxed_data(data) {
                BasicTypeColumn::Null(k) => format!("Null {}", k),
                BasicTypeColumn::Int(v) => format!("Int {}", j(v.iter().map(|x| x.to_string()).collect())),
                BasicTypeColumn::Float(v) => format!("Float {}", j(v.iter().map(|x| x.to_bits().to_string()).collect())),
                BasicTypeColumn::Mixed(v) => format!("Mixed {}", j(v.iter().map(|x| cell(x)).collect())),
                BasicTypeColumn::String(_) => "String -".to_string(),
            };
            Some(format!("{} {}", col, rows))
        }
        _ => None,
    }
}
