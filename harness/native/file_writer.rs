// native driver for src/disk_store/file_writer.rs: the envelope around an in-memory inner writer
use super::*;
use crate::verif_nat_util::*;
use std::sync::Mutex;

struct MemWriter(Mutex<Vec<u8>>);
impl BlobWriter for MemWriter {
    fn store(&self, _: &Path, data: &[u8]) -> Result<(), Box<dyn Error + Send + Sync + 'static>> { *self.0.lock().unwrap() = data.to_vec(); Ok(()) }
    fn load(&self, _: &Path) -> Result<Vec<u8>, Box<dyn Error + Send + Sync + 'static>> { Ok(self.0.lock().unwrap().clone()) }
    fn delete(&self, _: &Path) -> Result<(), Box<dyn Error + Send + Sync + 'static>> { Ok(()) }
    fn list(&self, _: &Path) -> Result<Vec<PathBuf>, Box<dyn Error + Send + Sync + 'static>> { Ok(vec![]) }
    fn exists(&self, _: &Path) -> Result<bool, Box<dyn Error + Send + Sync + 'static>> { Ok(true) }
}

pub fn dispatch(k: &str, t: &[&str]) -> Option<String> {
    match k {
        "vcbw_load" => {
            let w = VersionedChecksummedBlobWriter::new(Box::new(MemWriter(Mutex::new(unhex(t[0])))));
            match w.load(Path::new("x")) { Ok(p) => Some(format!("ok {}", hex(&p))), Err(_) => Some("err".to_string()) }
        }
        "vcbw_store" => {
            // store into a shared buffer, then read the raw bytes back through a second handle
            let inner = std::sync::Arc::new(MemWriter(Mutex::new(vec![])));
            struct Fwd(std::sync::Arc<MemWriter>);
            impl BlobWriter for Fwd {
                fn store(&self, p: &Path, d: &[u8]) -> Result<(), Box<dyn Error + Send + Sync + 'static>> { self.0.store(p, d) }
                fn load(&self, p: &Path) -> Result<Vec<u8>, Box<dyn Error + Send + Sync + 'static>> { self.0.load(p) }
                fn delete(&self, p: &Path) -> Result<(), Box<dyn Error + Send + Sync + 'static>> { self.0.delete(p) }
                fn list(&self, p: &Path) -> Result<Vec<PathBuf>, Box<dyn Error + Send + Sync + 'static>> { self.0.list(p) }
                fn exists(&self, p: &Path) -> Result<bool, Box<dyn Error + Send + Sync + 'static>> { self.0.exists(p) }
            }
            let w = VersionedChecksummedBlobWriter::new(Box::new(Fwd(inner.clone())));
            w.store(Path::new("x"), &unhex(t[0])).unwrap();
            let raw = inner.load(Path::new("x")).unwrap();
            Some(hex(&raw))
        }
        _ => None,
    }
}
