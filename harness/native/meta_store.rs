// native driver for src/disk_store/meta_store.rs (child module: private fields of MetaStore)
use super::*;
use crate::verif_nat_util::*;

pub fn dispatch(k: &str, t: &[&str]) -> Option<String> {
    match k {
        "walcursor" => {
            let (next, earliest): (u64, u64) = (num(t[0]), num(t[1]));
            let (k1, k2, k3): (usize, usize, usize) = (num(t[2]), num(t[3]), num(t[4]));
            let mut ms = MetaStore { next_wal_id: next, earliest_unflushed_wal_id: earliest, partitions: Default::default() };
            let a: Vec<u64> = (0..k1).map(|_| ms.add_wal_segment()).collect();
            let range = ms.unflushed_wal_ids();
            let b: Vec<u64> = (0..k2).map(|_| ms.add_wal_segment()).collect();
            ms.advance_earliest_unflushed_wal_id(range.end);
            let persisted = ms.earliest_uncommited_wal_id();
            // clean restart as MetaStore::deserialize + Storage::recover do it
            let mut ms = MetaStore { next_wal_id: persisted, earliest_unflushed_wal_id: persisted, partitions: Default::default() };
            let mut deleted = vec![];
            let mut replayed = vec![];
            for id in &b {
                if *id < ms.earliest_uncommited_wal_id() { deleted.push(*id); } else { ms.register_wal_segment(*id); replayed.push(*id); }
            }
            let c: Vec<u64> = (0..k3).map(|_| ms.add_wal_segment()).collect();
            Some(format!("{} {} {} {} {} {} {}", fmt_vec(&a), fmt_vec(&b), fmt_vec(&c), fmt_vec(&[range.start, range.end]), fmt_vec(&[persisted]), fmt_vec(&deleted), fmt_vec(&replayed)))
        }
        "metastore_roundtrip" => {
            let ms = MetaStore { next_wal_id: num(t[0]), earliest_unflushed_wal_id: num(t[1]), partitions: Default::default() };
            let mut tracer = crate::observability::SimpleTracer::default();
            let bytes = ms.serialize(&mut tracer);
            let ms2 = MetaStore::deserialize(&bytes).unwrap();
            Some(format!("{} {}", ms2.next_wal_id, ms2.earliest_unflushed_wal_id))
        }
        "metastore_roundtrip_full" => {
            // next earliest then per partition: table/id/offset/len/key:last:size,...
            let mut ms = MetaStore { next_wal_id: num(t[0]), earliest_unflushed_wal_id: num(t[1]), partitions: Default::default() };
            for tok in &t[2..] {
                let p: Vec<&str> = tok.split('/').collect();
                let mut subpartitions = vec![];
                let mut by_last = BTreeMap::new();
                if p[4] != "-" {
                    for (k, s) in p[4].split(',').enumerate() {
                        let q: Vec<&str> = s.split(':').collect();
                        by_last.insert(q[1].to_string(), k);
                        subpartitions.push(SubpartitionMetadata { size_bytes: num(q[2]), subpartition_key: q[0].to_string(), last_column: q[1].to_string(), loaded: Arc::new(AtomicBool::new(false)) });
                    }
                }
                let pm = PartitionMetadata { id: num(p[1]), tablename: p[0].to_string(), offset: num(p[2]), len: num(p[3]), subpartitions, subpartitions_by_last_column: by_last };
                ms.partitions.entry(p[0].to_string()).or_default().insert(pm.id, pm);
            }
            let mut tracer = crate::observability::SimpleTracer::default();
            let bytes = ms.serialize(&mut tracer);
            let ms2 = MetaStore::deserialize(&bytes).unwrap();
            let mut parts = vec![];
            for (tname, ps) in ms2.partitions.iter() {
                for (key, p) in ps.iter() {
                    let st = if p.subpartitions.is_empty() { "-".to_string() } else { p.subpartitions.iter().map(|s| format!("{}:{}:{}:{}", s.subpartition_key, s.last_column, s.size_bytes, s.loaded.load(std::sync::atomic::Ordering::SeqCst))).collect::<Vec<_>>().join(",") };
                    let rt = if p.subpartitions_by_last_column.is_empty() { "-".to_string() } else { p.subpartitions_by_last_column.iter().map(|(a, b)| format!("{}:{}", a, b)).collect::<Vec<_>>().join(",") };
                    parts.push((tname.clone(), p.id, format!("{}/{}/{}/{}/{}/{}/{}/{}", tname, key, p.tablename, p.id, p.offset, p.len, st, rt)));
                }
            }
            parts.sort();
            Some(format!("{} {} {}", ms2.next_wal_id, ms2.earliest_unflushed_wal_id, parts.iter().map(|x| x.2.clone()).collect::<Vec<_>>().join(" ")))
        }
        "subpartition_key" => {
            // PartitionMetadata with sub-partitions whose last columns are the given (hex) names, keys key0, key1, ...
            let lasts: Vec<String> = t[0].split(',').map(|h| unsafe { String::from_utf8_unchecked(unhex(h)) }).collect();
            let name = unsafe { String::from_utf8_unchecked(unhex(t[1])) };
            let mut subpartitions = vec![];
            let mut by_last = BTreeMap::new();
            for (k, last) in lasts.iter().enumerate() {
                by_last.insert(last.clone(), k);
                subpartitions.push(SubpartitionMetadata { size_bytes: 1, subpartition_key: format!("key{}", k), last_column: last.clone(), loaded: Arc::new(AtomicBool::new(k % 2 == 1)) });
            }
            let pm = PartitionMetadata { id: 0, tablename: "t".to_string(), offset: 0, len: 1, subpartitions, subpartitions_by_last_column: by_last };
            match pm.subpartition_key(&name) { Some(k) => Some(format!("some {}", hex(k.as_bytes()))), None => Some("none".to_string()) }
        }
        "subpartition_loaded" => {
            let lasts: Vec<String> = t[0].split(',').map(|h| unsafe { String::from_utf8_unchecked(unhex(h)) }).collect();
            let name = unsafe { String::from_utf8_unchecked(unhex(t[1])) };
            let mut subpartitions = vec![];
            let mut by_last = BTreeMap::new();
            for (k, last) in lasts.iter().enumerate() {
                by_last.insert(last.clone(), k);
                subpartitions.push(SubpartitionMetadata { size_bytes: 1, subpartition_key: format!("key{}", k), last_column: last.clone(), loaded: Arc::new(AtomicBool::new(k % 2 == 1)) });
            }
            let pm = PartitionMetadata { id: 0, tablename: "t".to_string(), offset: 0, len: 1, subpartitions, subpartitions_by_last_column: by_last };
            if t[2] == "1" { pm.mark_subpartition_as_loaded(&name); }
            let r = pm.subpartition_has_been_loaded(&name);
            let flags: String = pm.subpartitions.iter().map(|s| if s.loaded.load(std::sync::atomic::Ordering::SeqCst) { '1' } else { '0' }).collect();
            Some(format!("{} {}", r, flags))
        }
        _ => None,
    }
}
