use super::*;
use crate::verif_nat_util::*;

fn pms(tok: &str) -> Vec<Premerge> { tok.split(';').filter(|x| !x.is_empty()).map(|e| { let mut it = e.split(':'); Premerge { left: it.next().unwrap().parse().unwrap(), right: it.next().unwrap().parse().unwrap() } }).collect() }

macro_rules! case { ($t:ty, $c:ty, $toks:expr) => {{
    let (out, ops) = merge_partitioned::<$t, $c>(&pms($toks[0]), &vec_of::<$t>($toks[1]), &vec_of::<$t>($toks[2]), num($toks[3]));
    Some(format!("{} {}", fmt_vec(&out), fmt_vec(&ops))) }}; }

pub fn dispatch(k: &str, t: &[&str]) -> Option<String> {
    match k {
        "merge_partitioned_i64_lt" => case!(i64, CmpLessThan, t),
        "merge_partitioned_i64_gt" => case!(i64, CmpGreaterThan, t),
        "merge_partitioned_u8_gt" => case!(u8, CmpGreaterThan, t),
        "merge_partitioned_u32_lt" => case!(u32, CmpLessThan, t),
        _ => None,
    }
}
