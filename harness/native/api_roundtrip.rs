// native driver (child of src/lib.rs): public wire round trips of locustdb_serialization
use crate::verif_nat_util::*;
use locustdb_serialization::api::{Column, QueryResponse};
use std::collections::HashMap;

pub fn dispatch(k: &str, t: &[&str]) -> Option<String> {
    match k {
        "api_roundtrip_ints" => {
            let ints = vec_of::<i64>(t[0]);
            let mut columns = HashMap::new();
            columns.insert("x".to_string(), Column::Int(ints));
            let bytes = QueryResponse { columns }.serialize();
            match QueryResponse::deserialize(&bytes) {
                Ok(r) => match r.columns.get("x") { Some(Column::Int(v)) => Some(format!("ok {}", fmt_vec(v))), _ => Some("err other".to_string()) },
                Err(_) => Some("err decode".to_string()),
            }
        }
        _ => None,
    }
}
