// native driver (child of src/lib.rs): public wire round trips of locustdb_serialization
use crate::verif_nat_util::*;
use locustdb_serialization::api::{Column, QueryResponse};
use std::collections::HashMap;

pub fn dispatch(k: &str, t: &[&str]) -> Option<String> {
    match k {
        "api_roundtrip_ints" => {
            let ints = vec_of::<i64>(t[0]);
            let mut columns = HashMap::new();
            columns.insert("x".to_string(), Column::Int(ints));
            let bytes = QueryResponse { columns }.serialize();
            match QueryResponse::deserialize(&bytes) {
                Ok(r) => match r.columns.get("x") { Some(Column::Int(v)) => Some(format!("ok {}", fmt_vec(v))), _ => Some("err other".to_string()) },
                Err(_) => Some("err decode".to_string()),
            }
        }
        "query_response_roundtrip" => {
            use locustdb_serialization::api::AnyVal;
            let mut columns = HashMap::new();
            for tok in t {
                let p: Vec<&str> = tok.split(':').collect();
                let col = match p[1] {
                    "Int" => Column::Int(vec_of(p[2])),
                    "Float" => Column::Float(vec_f64_bits(p[2])),
                    "Xor" => Column::Xor(vec_of(p[2])),
                    "Null" => Column::Null(num(p[2])),
                    "String" => Column::String(if p[2].is_empty() { vec![] } else { p[2].split(',').map(|h| unsafe { String::from_utf8_unchecked(unhex(h)) }).collect() }),
                    _ => Column::Mixed(if p[2].is_empty() { vec![] } else { p[2].split(',').map(|x| {
                        if x == "n" { AnyVal::Null } else if let Some(r) = x.strip_prefix('i') { AnyVal::Int(num(r)) }
                        else if let Some(r) = x.strip_prefix('f') { AnyVal::Float(f64::from_bits(num::<u64>(r))) }
                        else { AnyVal::Str(unsafe { String::from_utf8_unchecked(unhex(&x[1..])) }) } }).collect() }),
                };
                columns.insert(p[0].to_string(), col);
            }
            let bytes = QueryResponse { columns }.serialize();
            let r = QueryResponse::deserialize(&bytes).unwrap();
            let mut names: Vec<&String> = r.columns.keys().collect();
            names.sort();
            Some(names.iter().map(|n| match &r.columns[*n] {
                Column::Int(v) => format!("{}:Int:{}", n, fmt_vec(v)),
                Column::Float(v) => format!("{}:Float:{}", n, fmt_f64_bits(v)),
                Column::Xor(v) => format!("{}:Xor:{}", n, fmt_vec(v)),
                Column::Null(k) => format!("{}:Null:{}", n, k),
                Column::String(v) => format!("{}:String:{}", n, v.iter().map(|s| hex(s.as_bytes())).collect::<Vec<_>>().join(",")),
                Column::Mixed(v) => format!("{}:Mixed:{}", n, v.iter().map(|a| match a {
                    AnyVal::Null => "n".to_string(), AnyVal::Int(i) => format!("i{}", i), AnyVal::Float(f) => format!("f{}", f.to_bits()), AnyVal::Str(s) => format!("s{}", hex(s.as_bytes())) }).collect::<Vec<_>>().join(",")),
            }).collect::<Vec<_>>().join(" "))
        }
        "xor_roundtrip" => {
            let floats: Vec<f64> = vec_of::<u64>(t[0]).into_iter().map(f64::from_bits).collect();
            let regret: u32 = num(t[1]);
            let mantissa: Option<u32> = if t[2] == "none" { None } else { Some(num(t[2])) };
            let bytes = locustdb_compression_utils::xor_float::double::encode(&floats, regret, mantissa);
            match locustdb_compression_utils::xor_float::double::decode(&bytes) {
                Ok(v) => Some(format!("ok {}", fmt_vec(&v.iter().map(|x| x.to_bits()).collect::<Vec<u64>>()))),
                Err(_) => Some("err".to_string()),
            }
        }
        _ => None,
    }
}
