// native driver (child of src/lib.rs): public wire round trips of locustdb_serialization
use crate::verif_nat_util::*;
use locustdb_serialization::api::{Column, QueryResponse};
use std::collections::HashMap;

pub fn dispatch(k: &str, t: &[&str]) -> Option<String> {
    match k {
        "api_roundtrip_ints" => {
            let ints = vec_of::<i64>(t[0]);
            let mut columns = HashMap::new();
            columns.insert("x".to_string(), Column::Int(ints));
            let bytes = QueryResponse { columns }.serialize();
            match QueryResponse::deserialize(&bytes) {
                Ok(r) => match r.columns.get("x") { Some(Column::Int(v)) => Some(format!("ok {}", fmt_vec(v))), _ => Some("err other".to_string()) },
                Err(_) => Some("err decode".to_string()),
            }
        }
        "xor_roundtrip" => {
            let floats: Vec<f64> = vec_of::<u64>(t[0]).into_iter().map(f64::from_bits).collect();
            let regret: u32 = num(t[1]);
            let mantissa: Option<u32> = if t[2] == "none" { None } else { Some(num(t[2])) };
            let bytes = locustdb_compression_utils::xor_float::double::encode(&floats, regret, mantissa);
            match locustdb_compression_utils::xor_float::double::decode(&bytes) {
                Ok(v) => Some(format!("ok {}", fmt_vec(&v.iter().map(|x| x.to_bits()).collect::<Vec<u64>>()))),
                Err(_) => Some("err".to_string()),
            }
        }
        _ => None,
    }
}
