use super::*;
use crate::verif_nat_util::*;

fn fmt_pm(v: &[Premerge]) -> String { if v.is_empty() { "-".to_string() } else { v.iter().map(|p| format!("{}:{}", p.left, p.right)).collect::<Vec<_>>().join(";") } }

macro_rules! case { ($t:ty, $c:ty, $toks:expr) => {{ Some(fmt_pm(&partition::<$t, $c>(&vec_of::<$t>($toks[0]), &vec_of::<$t>($toks[1]), num($toks[2])))) }}; }

pub fn dispatch(k: &str, t: &[&str]) -> Option<String> {
    match k {
        "partition_i64_lt" => case!(i64, CmpLessThan, t),
        "partition_i64_gt" => case!(i64, CmpGreaterThan, t),
        "partition_u8_lt" => case!(u8, CmpLessThan, t),
        "partition_u8_gt" => case!(u8, CmpGreaterThan, t),
        "partition_u16_lt" => case!(u16, CmpLessThan, t),
        "partition_u32_gt" => case!(u32, CmpGreaterThan, t),
        "partition_u64_lt" => case!(u64, CmpLessThan, t),
        _ => None,
    }
}
