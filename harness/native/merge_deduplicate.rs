use super::*;
use crate::verif_nat_util::*;

macro_rules! case {
    ($t:ty, $c:ty, $toks:expr) => {{
        let (out, ops) = merge_deduplicate::<$t, $c>(&vec_of::<$t>($toks[0]), &vec_of::<$t>($toks[1]));
        let ops: Vec<u8> = ops.iter().map(|o| match o { MergeOp::TakeLeft => 0, MergeOp::TakeRight => 1, MergeOp::MergeRight => 2 }).collect();
        Some(format!("{} {}", fmt_vec(&out), fmt_vec(&ops)))
    }};
}

pub fn dispatch(k: &str, t: &[&str]) -> Option<String> {
    match k {
        "merge_dedup_i64_lt" => case!(i64, CmpLessThan, t),
        "merge_dedup_i64_gt" => case!(i64, CmpGreaterThan, t),
        "merge_dedup_u8_lt" => case!(u8, CmpLessThan, t),
        "merge_dedup_u8_gt" => case!(u8, CmpGreaterThan, t),
        "merge_dedup_u16_lt" => case!(u16, CmpLessThan, t),
        "merge_dedup_u32_gt" => case!(u32, CmpGreaterThan, t),
        "merge_dedup_u64_lt" => case!(u64, CmpLessThan, t),
        _ => None,
    }
}
