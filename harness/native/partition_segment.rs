// native driver for src/disk_store/partition_segment.rs: real Column -> PartitionSegment::serialize -> deserialize
use super::*;
use crate::verif_nat_util::*;
use crate::mem_store::column::DataSource;

fn et(s: &str) -> EncodingType {
    match s { "U8" => EncodingType::U8, "U16" => EncodingType::U16, "U32" => EncodingType::U32, "U64" => EncodingType::U64,
              "I64" => EncodingType::I64, "Null" => EncodingType::Null, "F64" => EncodingType::F64, "Bitvec" => EncodingType::Bitvec, _ => panic!("driver: type {}", s) }
}

fn parse_col(tok: &str) -> Column {
    let p: Vec<&str> = tok.split('/').collect();
    let len: usize = num(p[1]);
    let range = if p[2] == "none" { None } else { let r: Vec<&str> = p[2].split(':').collect(); Some((num::<i64>(r[0]), num::<i64>(r[1]))) };
    let mut ops = vec![];
    if p[3] != "-" {
        for o in p[3].split(';') {
            let q: Vec<&str> = o.split(':').collect();
            ops.push(match q[0] {
                "Nullable" => CodecOp::Nullable,
                "UnpackStrings" => CodecOp::UnpackStrings,
                "Add" => CodecOp::Add(et(q[1]), num(q[2])),
                "Delta" => CodecOp::Delta(et(q[1])),
                "ToI64" => CodecOp::ToI64(et(q[1])),
                "DictLookup" => CodecOp::DictLookup(et(q[1])),
                "PushDataSection" => CodecOp::PushDataSection(num(q[1])),
                "LZ4" => CodecOp::LZ4(et(q[1]), num(q[2])),
                "Pco" => CodecOp::Pco(et(q[1]), num(q[2]), q[3] == "1"),
                "UnhexpackStrings" => CodecOp::UnhexpackStrings(q[1] == "1", num(q[2])),
                x => panic!("driver: op {}", x),
            });
        }
    }
    let mut data = vec![];
    if p[4] != "-" {
        for d in p[4].split('|') {
            let q: Vec<&str> = d.split(':').collect();
            data.push(match q[0] {
                "U8" => DataSection::U8(vec_of(q[1])), "U16" => DataSection::U16(vec_of(q[1])), "U32" => DataSection::U32(vec_of(q[1])),
                "U64" => DataSection::U64(vec_of(q[1])), "I64" => DataSection::I64(vec_of(q[1])), "Bitvec" => DataSection::Bitvec(vec_of(q[1])),
                "F64" => DataSection::F64(vec_f64_bits(q[1]).into_iter().map(OrderedFloat).collect()),
                "Null" => DataSection::Null(num(q[1])),
                "LZ4" => DataSection::LZ4 { decoded_bytes: num(q[1]), bytes_per_element: num(q[2]), data: vec_of(q[3]) },
                "Pco" => DataSection::Pco { decoded_bytes: num(q[1]), bytes_per_element: num(q[2]), is_fp32: q[3] == "1", data: vec_of(q[4]) },
                x => panic!("driver: section {}", x),
            });
        }
    }
    Column::new(p[0], len, range, ops, data)
}

fn fmt_col(c: &Column) -> String {
    let r = match c.range() { None => "none".to_string(), Some((a, b)) => format!("{}:{}", a, b) };
    let ops: Vec<String> = c.codec().ops().iter().map(|o| match o {
        CodecOp::Nullable => "Nullable".to_string(), CodecOp::UnpackStrings => "UnpackStrings".to_string(),
        CodecOp::Add(t, a) => format!("Add:{:?}:{}", t, a), CodecOp::Delta(t) => format!("Delta:{:?}", t), CodecOp::ToI64(t) => format!("ToI64:{:?}", t),
        CodecOp::DictLookup(t) => format!("DictLookup:{:?}", t), CodecOp::PushDataSection(k) => format!("PushDataSection:{}", k),
        CodecOp::LZ4(t, n) => format!("LZ4:{:?}:{}", t, n), CodecOp::Pco(t, n, f) => format!("Pco:{:?}:{}:{}", t, n, f),
        CodecOp::UnhexpackStrings(u, n) => format!("UnhexpackStrings:{}:{}", u, n), CodecOp::Unknown => "Unknown".to_string(),
    }).collect();
    let secs: Vec<String> = c.data().iter().map(|d| match d {
        DataSection::U8(v) => format!("U8:{}", fmt_vec(v)), DataSection::U16(v) => format!("U16:{}", fmt_vec(v)), DataSection::U32(v) => format!("U32:{}", fmt_vec(v)),
        DataSection::U64(v) => format!("U64:{}", fmt_vec(v)), DataSection::I64(v) => format!("I64:{}", fmt_vec(v)), DataSection::Bitvec(v) => format!("Bitvec:{}", fmt_vec(v)),
        DataSection::F64(v) => format!("F64:{}", fmt_f64_bits(&v.iter().map(|x| x.0).collect::<Vec<_>>())),
        DataSection::Null(n) => format!("Null:{}", n),
        DataSection::LZ4 { decoded_bytes, bytes_per_element, data } => format!("LZ4:{}:{}:{}", decoded_bytes, bytes_per_element, fmt_vec(data)),
        DataSection::Pco { decoded_bytes, bytes_per_element, data, is_fp32 } => format!("Pco:{}:{}:{}:{}", decoded_bytes, bytes_per_element, is_fp32, fmt_vec(data)),
    }).collect();
    format!("{}/{}/{}/{}/{}", c.name(), c.len(), r, if ops.is_empty() { "-".to_string() } else { ops.join(";") }, if secs.is_empty() { "-".to_string() } else { secs.join("|") })
}

pub fn dispatch(k: &str, t: &[&str]) -> Option<String> {
    match k {
        "partseg_roundtrip" => {
            let cols: Vec<Column> = t.iter().map(|x| parse_col(x)).collect();
            let refs: Vec<&Column> = cols.iter().collect();
            let bytes = PartitionSegment::serialize(&refs);
            let seg = PartitionSegment::deserialize(&bytes).unwrap();
            Some(seg.columns.iter().map(fmt_col).collect::<Vec<_>>().join(" "))
        }
        _ => None,
    }
}
