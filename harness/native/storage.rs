// native driver for src/disk_store/storage.rs (child module: private fn sanitize_table_name)
use super::*;
use crate::verif_nat_util::*;

pub fn dispatch(k: &str, t: &[&str]) -> Option<String> {
    match k {
        "sanitize_table_name" => {
            use sha2::{Digest, Sha256};
            let name = unsafe { String::from_utf8_unchecked(unhex(t[0])) };
            let out = sanitize_table_name(&name);
            if out == name {
                Some(format!("verbatim true {}", hex(out.as_bytes())))
            } else {
                let mut h = Sha256::new();
                h.update(name.as_bytes());
                let want = format!("{:x}", h.finalize());
                Some(format!("modified {} {}", out.ends_with(&want), hex(out.as_bytes())))
            }
        }
        _ => None,
    }
}
