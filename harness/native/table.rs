// native driver for src/mem_store/table.rs (Table::plan_compaction on partitions with chosen id / rows / size)
use super::*;
use crate::verif_nat_util::*;

pub fn dispatch(k: &str, t: &[&str]) -> Option<String> {
    match k {
        "plan_compaction" => {
            let factor: u64 = num(t[0]);
            let lru = Lru::default();
            let table = Table::new("t", lru.clone(), None);
            if t[1] != "-" {
                let mut parts = table.partitions.write().unwrap();
                for p in t[1].split(',') {
                    let q: Vec<&str> = p.split(':').collect();
                    let part = crate::verif_nat_mem_partition::mk(num(q[0]), num(q[1]), num(q[2]), num(q[3]), lru.clone());
                    parts.insert(part.id, Arc::new(part));
                }
            }
            Some(match table.plan_compaction(factor) {
                None => "none".to_string(),
                Some((r, ids)) => format!("some {} {} {}", r.start, r.end, fmt_vec(&ids)),
            })
        }
        "table_batch" => {
            // id0 off0 [n...]: successive frozen buffers of n rows (one i64 column), each turned into a partition by Table::batch
            use crate::ingest::input_column::InputColumn;
            let lru = Lru::default();
            let table = Table::new("t", lru, Some(HashSet::new()));
            table.next_partition_id.store(num(t[0]), std::sync::atomic::Ordering::SeqCst);
            table.next_partition_offset.store(num(t[1]), std::sync::atomic::Ordering::SeqCst);
            let mut res = vec![];
            for n in vec_of::<usize>(t[2]) {
                if n > 0 {
                    let mut cols = HashMap::new();
                    cols.insert("a".to_string(), InputColumn::Int((0..n as i64).collect()));
                    table.ingest_homogeneous(cols);
                }
                table.freeze_buffer();
                res.push(match table.batch() { None => "none".to_string(), Some(p) => format!("{}:{}:{}", p.id, p.range().start, p.range().end) });
            }
            let mut keys: Vec<u64> = table.partitions.read().unwrap().keys().cloned().collect();
            keys.sort();
            Some(format!("{} {} {} {}", res.join(";"), table.next_partition_offset.load(std::sync::atomic::Ordering::SeqCst),
                         table.next_partition_id.load(std::sync::atomic::Ordering::SeqCst), fmt_vec(&keys)))
        }
        _ => None,
    }
}
