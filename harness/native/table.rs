// native driver for src/mem_store/table.rs (Table::plan_compaction on partitions with chosen id / rows / size)
use super::*;
use crate::verif_nat_util::*;

pub fn dispatch(k: &str, t: &[&str]) -> Option<String> {
    match k {
        "plan_compaction" => {
            let factor: u64 = num(t[0]);
            let lru = Lru::default();
            let table = Table::new("t", lru.clone(), None);
            if t[1] != "-" {
                let mut parts = table.partitions.write().unwrap();
                for p in t[1].split(',') {
                    let q: Vec<&str> = p.split(':').collect();
                    let part = crate::verif_nat_mem_partition::mk(num(q[0]), num(q[1]), num(q[2]), num(q[3]), lru.clone());
                    parts.insert(part.id, Arc::new(part));
                }
            }
            Some(match table.plan_compaction(factor) {
                None => "none".to_string(),
                Some((r, ids)) => format!("some {} {} {}", r.start, r.end, fmt_vec(&ids)),
            })
        }
        _ => None,
    }
}
