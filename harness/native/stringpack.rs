// native driver for src/stringpack.rs
use super::*;
use crate::verif_nat_util::*;

pub fn dispatch(k: &str, t: &[&str]) -> Option<String> {
    if k != "packed_strings" && k != "packed_bytes" { return None; }
    let items: Vec<Vec<u8>> = if t.len() == 1 && t[0] == "none" { vec![] } else { t.iter().map(|h| unhex(h)).collect() };
    match k {
        "packed_strings" => {
            let mut ps = PackedStrings { data: Vec::new() };
            for s in &items { ps.push(unsafe { str::from_utf8_unchecked(s) }); }
            let data = ps.into_vec();
            let mut it = unsafe { StringPackerIterator::from_slice(&data) };
            let mut out = vec![];
            for _ in 0..items.len() + 1 {
                match it.next() { Some(s) => out.push(hex(s.as_bytes())), None => out.push("END".to_string()) }
            }
            Some(out.join(" "))
        }
        "packed_bytes" => {
            let data = PackedBytes::from_iterator(items.clone().into_iter()).into_vec();
            let mut it = PackedBytesIterator::from_slice(&data);
            let mut out = vec![];
            for _ in 0..items.len() + 1 {
                match it.next() { Some(s) => out.push(hex(s)), None => out.push("END".to_string()) }
            }
            Some(out.join(" "))
        }
        _ => None,
    }
}
