// native driver for src/engine/operators/merge.rs (child module; sees the private fn merge)
use super::*;
use crate::verif_nat_util::*;

macro_rules! merge_case {
    ($t:ty, $c:ty, $toks:expr) => {{
        let l = vec_of::<$t>($toks[0]);
        let r = vec_of::<$t>($toks[1]);
        let limit: usize = num($toks[2]);
        let (out, ops) = merge::<$t, $c>(&l, &r, limit);
        Some(format!("{} {}", fmt_vec(&out), fmt_vec(&ops)))
    }};
}

pub fn dispatch(k: &str, t: &[&str]) -> Option<String> {
    match k {
        "merge_i64_lt" => merge_case!(i64, CmpLessThan, t),
        "merge_i64_gt" => merge_case!(i64, CmpGreaterThan, t),
        "merge_u8_lt" => merge_case!(u8, CmpLessThan, t),
        "merge_u8_gt" => merge_case!(u8, CmpGreaterThan, t),
        "merge_u16_lt" => merge_case!(u16, CmpLessThan, t),
        "merge_u32_gt" => merge_case!(u32, CmpGreaterThan, t),
        "merge_u64_lt" => merge_case!(u64, CmpLessThan, t),
        _ => None,
    }
}
