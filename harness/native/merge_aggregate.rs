use super::*;
use crate::verif_nat_util::*;

fn ops_of(tok: &str) -> Vec<MergeOp> {
    vec_of::<u8>(tok).into_iter().map(|o| match o { 0 => MergeOp::TakeLeft, 1 => MergeOp::TakeRight, _ => MergeOp::MergeRight }).collect()
}

pub fn dispatch(k: &str, t: &[&str]) -> Option<String> {
    match k {
        "merge_aggregate_i64" => {
            let agg = match t[3] { "0" => Aggregator::SumI64, "2" => Aggregator::Count, "3" => Aggregator::MaxI64, "5" => Aggregator::MinI64, _ => return None };
            match merge_aggregate::<i64>(&ops_of(t[0]), &vec_of::<i64>(t[1]), &vec_of::<i64>(t[2]), agg) {
                Ok(v) => Some(format!("ok {}", fmt_vec(&v))),
                Err(QueryError::Overflow) => Some("err Overflow".to_string()),
                Err(_) => Some("err Other".to_string()),
            }
        }
        _ => None,
    }
}
