// Helpers for the native drivers (cfg(test) child modules injected into a scratch copy of /repo).
// Protocol: one case per line in $VERIF_NATIVE_CASES:  <id> <kernel> <tok> <tok> ...
// Output lines:  VERIF-NAT <id> OUT <tok> ...   |   VERIF-NAT <id> PANIC <message>   |   VERIF-NAT <id> UNKNOWN
#![allow(dead_code)]
use std::fmt::Debug;
use std::str::FromStr;

pub fn vec_of<T: FromStr>(tok: &str) -> Vec<T> where <T as FromStr>::Err: Debug {
    let inner = tok.trim_start_matches('[').trim_end_matches(']');
    if inner.is_empty() { return Vec::new(); }
    inner.split(',').map(|x| x.parse::<T>().unwrap()).collect()
}

pub fn vec_f64_bits(tok: &str) -> Vec<f64> {
    vec_of::<u64>(tok).into_iter().map(f64::from_bits).collect()
}

pub fn fmt_vec<T: ToString>(v: &[T]) -> String {
    format!("[{}]", v.iter().map(|x| x.to_string()).collect::<Vec<_>>().join(","))
}

pub fn fmt_f64_bits(v: &[f64]) -> String {
    format!("[{}]", v.iter().map(|x| x.to_bits().to_string()).collect::<Vec<_>>().join(","))
}

pub fn num<T: FromStr>(tok: &str) -> T where <T as FromStr>::Err: Debug { tok.parse::<T>().unwrap() }

/// strings are hex-encoded byte strings ("-" = empty)
pub fn unhex(tok: &str) -> Vec<u8> {
    if tok == "-" { return vec![]; }
    (0..tok.len() / 2).map(|i| u8::from_str_radix(&tok[2 * i..2 * i + 2], 16).unwrap()).collect()
}
pub fn hex(b: &[u8]) -> String {
    if b.is_empty() { return "-".to_string(); }
    b.iter().map(|x| format!("{:02x}", x)).collect()
}
