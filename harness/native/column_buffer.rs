// native driver for src/mem_store/column_buffer.rs (child module; sees the private fields of ColumnBuffer)
use super::*;
use crate::verif_nat_util::*;

pub fn dispatch(k: &str, t: &[&str]) -> Option<String> {
    match k {
        "colbuf" => {
            let mut cb = if t[0] == "default" { ColumnBuffer::default() } else { ColumnBuffer::null(num(&t[0][5..])) };
            for op in &t[1..] {
                let parts: Vec<&str> = op.split(':').collect();
                match parts[0] {
                    "N" => cb.push_nulls(num(parts[1])),
                    "I" => {
                        let v = vec_of::<i64>(parts[1]);
                        if parts[2] == "none" { cb.push_ints(v, None) } else { let m = vec_of::<u8>(parts[2]); cb.push_ints(v, Some(&m[..])) }
                    }
                    "F" => {
                        let v: Vec<OrderedFloat<f64>> = vec_of::<u64>(parts[1]).into_iter().map(|b| OrderedFloat(f64::from_bits(b))).collect();
                        if parts[2] == "none" { cb.push_floats(v, None) } else { let m = vec_of::<u8>(parts[2]); cb.push_floats(v, Some(&m[..])) }
                    }
                    _ => return None,
                }
            }
            let (kind, data) = match &cb.buffer {
                TypedBuffer::Empty => ("Empty", "[]".to_string()),
                TypedBuffer::Int(b) => ("Int", fmt_vec(&b.data)),
                TypedBuffer::Float(b) => ("Float", fmt_f64_bits(&b.data)),
                TypedBuffer::String(_) => ("String", "[]".to_string()),
                TypedBuffer::Mixed(_) => ("Mixed", "[]".to_string()),
            };
            let pres = match &cb.present { None => "none".to_string(), Some(p) => fmt_vec(p) };
            Some(format!("{} {} {} {}", cb.length, kind, data, pres))
        }
        "buffer_batches" => {
            // each token is one batch: name:I:[..] ; name:F:[bits..] ; name:N:k ; name:SI:rows:[idx]:[vals] ; name:SF:rows:[idx]:[bits] ; name:M:i5/n/f123
            use crate::ingest::buffer::Buffer;
            use crate::ingest::input_column::InputColumn;
            use std::collections::HashMap;
            let mut buf = Buffer::default();
            for batch in t {
                let mut cols: HashMap<String, InputColumn> = HashMap::new();
                for c in batch.split(';') {
                    let p: Vec<&str> = c.split(':').collect();
                    let col = match p[1] {
                        "I" => InputColumn::Int(vec_of::<i64>(p[2])),
                        "F" => InputColumn::Float(vec_f64_bits(p[2])),
                        "N" => InputColumn::Null(num(p[2])),
                        "SI" => InputColumn::NullableInt(num(p[2]), vec_of::<u64>(p[3]).into_iter().zip(vec_of::<i64>(p[4])).collect()),
                        "SF" => InputColumn::NullableFloat(num(p[2]), vec_of::<u64>(p[3]).into_iter().zip(vec_f64_bits(p[4])).collect()),
                        _ => InputColumn::Mixed(if p[2] == "-" { vec![] } else { p[2].split('/').map(|x| {
                            if x == "n" { RawVal::Null } else if let Some(r) = x.strip_prefix('i') { RawVal::Int(num(r)) }
                            else { RawVal::Float(OrderedFloat(f64::from_bits(num::<u64>(&x[1..])))) } }).collect() }),
                    };
                    cols.insert(p[0].to_string(), col);
                }
                buf.push_typed_cols(cols);
            }
            let mut names: Vec<&String> = buf.buffer.keys().collect();
            names.sort();
            let mut out = format!("{}", buf.length);
            for n in names {
                let cb = &buf.buffer[n];
                let (kind, data) = match &cb.buffer {
                    TypedBuffer::Empty => ("Empty", "[]".to_string()),
                    TypedBuffer::Int(b) => ("Int", fmt_vec(&b.data)),
                    TypedBuffer::Float(b) => ("Float", fmt_f64_bits(&b.data)),
                    TypedBuffer::String(_) => ("String", "[]".to_string()),
                    TypedBuffer::Mixed(_) => ("Mixed", "[]".to_string()),
                };
                let pres = match &cb.present { None => "none".to_string(), Some(p) => fmt_vec(p) };
                out += &format!(" {} {} {} {} {}", n, cb.length, kind, data, pres);
            }
            Some(out)
        }
        "hex_flag" => {
            let s = unsafe { String::from_utf8_unchecked(unhex(t[1])) };
            Some(format!("{}", if t[0] == "lower" { is_lowercase_hex(&s) } else { is_uppercase_hex(&s) }))
        }
        "colbuf_pushval" => {
            use crate::engine::data_types::EncodingType;
            use crate::mem_store::column::DataSource;
            let mut cb = ColumnBuffer::default();
            for tok in t {
                if *tok == "n" { cb.push_val(RawVal::Null); continue; }
                let (k, v) = tok.split_at(2);
                match k {
                    "i:" => cb.push_val(RawVal::Int(num(v))),
                    "f:" => cb.push_val(RawVal::Float(OrderedFloat(f64::from_bits(num::<u64>(v))))),
                    _ => cb.push_val(RawVal::Str(unsafe { String::from_utf8_unchecked(unhex(v)) })),
                }
            }
            let col = cb.finalize("x");
            let dec = col.decode();
            let ty = dec.get_type();
            let (kind, nvals, strs) = match ty {
                EncodingType::Str | EncodingType::NullableStr => { let v = dec.cast_ref_str(); ("str", v.len().to_string(), if v.is_empty() { "-".to_string() } else { v.iter().map(|s| if s.is_empty() { "_".to_string() } else { hex(s.as_bytes()) }).collect::<Vec<_>>().join(",") }) }
                EncodingType::I64 | EncodingType::NullableI64 => ("int", dec.len().to_string(), "-".to_string()),
                EncodingType::F64 | EncodingType::NullableF64 => ("float", dec.len().to_string(), "-".to_string()),
                EncodingType::Null => ("null", "-".to_string(), "-".to_string()),
                _ => ("other", "-".to_string(), "-".to_string()),
            };
            let pres = if ty.is_nullable() { let p = dec.cast_ref_null_map(); fmt_vec(&p[..std::cmp::min(p.len(), (t.len() + 7) / 8)]) } else { "none".to_string() };
            Some(format!("{} {} {} {} {}", col.len(), kind, nvals, strs, pres))
        }
        "intcol_encode" => {
            use crate::mem_store::codec::CodecOp;
            let mut b = IntColBuffer::default();
            for v in vec_of::<i64>(t[0]) { b.push(v); }
            let present = if t[1] == "none" { None } else { Some(vec_of::<u8>(t[1])) };
            let col = b.finalize("x", present);
            let ops: Vec<String> = col.codec().ops().iter().map(|o| match o {
                CodecOp::Add(t, v) => format!("Add:{:?}:{}", t, v),
                CodecOp::Delta(t) => format!("Delta:{:?}", t),
                CodecOp::ToI64(t) => format!("ToI64:{:?}", t),
                CodecOp::PushDataSection(k) => format!("PushDataSection:{}", k),
                CodecOp::Nullable => "Nullable".to_string(),
                other => format!("{:?}", other).split('(').next().unwrap().to_string(),
            }).collect();
            let (kind, data) = match &col.data()[0] {
                DataSection::U8(v) => ("U8", fmt_vec(v)), DataSection::U16(v) => ("U16", fmt_vec(v)), DataSection::U32(v) => ("U32", fmt_vec(v)),
                DataSection::U64(v) => ("U64", fmt_vec(v)), DataSection::I64(v) => ("I64", fmt_vec(v)), _ => ("other", "[]".to_string()),
            };
            let pres = if col.data().len() > 1 { match &col.data()[1] { DataSection::Bitvec(p) => fmt_vec(p), _ => "other".to_string() } } else { "none".to_string() };
            Some(format!("{} {}; {} {} {}", col.len(), ops.join(";"), kind, data, pres))
        }
        _ => None,
    }
}
