// native driver for src/mem_store/column.rs (child module: the private free fn `decode`)
use super::*;
use crate::verif_nat_util::*;
use crate::engine::data_types::{Data, EncodingType};
use crate::mem_store::codec::{Codec, CodecOp};

fn et(t: &str) -> EncodingType { match t { "u8" => EncodingType::U8, "u16" => EncodingType::U16, "u32" => EncodingType::U32, _ => EncodingType::I64 } }

pub fn dispatch(k: &str, t: &[&str]) -> Option<String> {
    match k {
        "column_decode_int" => {
            let ty = t[0];
            let (oz, delta, nullable) = (t[1] == "1", t[2] == "1", t[3] == "1");
            let offset: i64 = num(t[4]);
            let e = et(ty);
            // the codec table of IntegerColumn::create_col / new_boxed
            let ops: Vec<CodecOp> = if ty == "i64" {
                let mut o = if delta { vec![CodecOp::Delta(EncodingType::I64)] } else { vec![] };
                if nullable { o.push(CodecOp::PushDataSection(1)); o.push(CodecOp::Nullable); }
                o
            } else if nullable {
                match (oz, delta) {
                    (true, true) => vec![CodecOp::Delta(e), CodecOp::PushDataSection(1), CodecOp::Nullable],
                    (true, false) => vec![CodecOp::PushDataSection(1), CodecOp::Nullable, CodecOp::ToI64(e)],
                    (false, true) => vec![CodecOp::Add(e, offset), CodecOp::Delta(EncodingType::I64), CodecOp::PushDataSection(1), CodecOp::Nullable],
                    (false, false) => vec![CodecOp::PushDataSection(1), CodecOp::Nullable, CodecOp::Add(e, offset)],
                }
            } else {
                match (oz, delta) {
                    (true, true) => vec![CodecOp::Delta(e)],
                    (true, false) => vec![CodecOp::ToI64(e)],
                    (false, true) => vec![CodecOp::Add(e, offset), CodecOp::Delta(EncodingType::I64)],
                    (false, false) => vec![CodecOp::Add(e, offset)],
                }
            };
            let mut section_types = vec![e];
            if nullable { section_types.push(EncodingType::Bitvec); }
            let codec = if ops.is_empty() { Codec::identity(crate::engine::data_types::BasicType::Integer) } else { Codec::new(ops, section_types) };
            let d8; let d16; let d32; let d64;
            let present: Vec<u8> = if nullable { vec_of::<u8>(t[6]) } else { vec![] };
            let data: &dyn Data = match ty {
                "u8" => { d8 = vec_of::<u8>(t[5]); &d8 }
                "u16" => { d16 = vec_of::<u16>(t[5]); &d16 }
                "u32" => { d32 = vec_of::<u32>(t[5]); &d32 }
                _ => { d64 = vec_of::<i64>(t[5]); &d64 }
            };
            let mut sections: Vec<&dyn Data> = vec![data];
            if nullable { sections.push(&present); }
            let out = decode(&codec, &sections);
            let ty = out.get_type();
            match ty {
                EncodingType::I64 => Some(format!("I64 {} none", fmt_vec(out.cast_ref_i64()))),
                EncodingType::NullableI64 => Some(format!("NullableI64 {} {}", fmt_vec(out.cast_ref_i64()), fmt_vec(out.cast_ref_null_map()))),
                other => Some(format!("{:?} [] none", other)),
            }
        }
        "codec_encode_int" => {
            let e = et(t[1]);
            let y: i64 = num(t[2]);
            let c: i64 = num(t[3]);
            let codec = if t[0] == "Add" { Codec::new(vec![CodecOp::Add(e, y)], vec![e]) } else { Codec::new(vec![CodecOp::ToI64(e)], vec![e]) };
            Some(format!("{}", codec.encode_int(c)))
        }
        "codec_encode_float" => {
            let e = et(t[1]);
            let y: i64 = num(t[2]);
            let c = f64::from_bits(num::<u64>(t[3]));
            let codec = if t[0] == "Add" { Codec::new(vec![CodecOp::Add(e, y)], vec![e]) } else { Codec::new(vec![CodecOp::ToI64(e)], vec![e]) };
            Some(format!("{}", codec.encode_float(c).to_bits()))
        }
        "column_decode_str" => {
            use crate::stringpack::{IndexedPackedStrings, PackedStrings};
            let kind = t[0];
            let fmt_out = |out: &dyn Data| -> String {
                let ty = out.get_type();
                let strs = match ty { EncodingType::Str | EncodingType::NullableStr => {
                    let v = out.cast_ref_str(); if v.is_empty() { "none".to_string() } else { v.iter().map(|s| hex(s.as_bytes())).collect::<Vec<_>>().join(",") } }
                    _ => "none".to_string() };
                let pres = if ty == EncodingType::NullableStr { fmt_vec(out.cast_ref_null_map()) } else { "none".to_string() };
                format!("{:?} {} {}", ty, strs, pres)
            };
            match kind {
                "dict" => {
                    let e = et(t[1]);
                    let mut ips = IndexedPackedStrings::default();
                    for h in t[3].split(',') { ips.push(unsafe { std::str::from_utf8_unchecked(&unhex(h)) }); }
                    let (ranges, backing) = ips.into_parts();
                    let nullable = t[4] != "none";
                    let present: Vec<u8> = if nullable { vec_of::<u8>(t[4]) } else { vec![] };
                    let mut ops = crate::mem_store::strings::dict_codec(e);
                    let mut section_types = vec![e, EncodingType::U64, EncodingType::U8];
                    if nullable { ops.insert(0, CodecOp::PushDataSection(3)); ops.insert(1, CodecOp::Nullable); section_types.push(EncodingType::Bitvec); }
                    let codec = Codec::new(ops, section_types);
                    let d8; let d16; let d32;
                    let idx: &dyn Data = match t[1] { "u8" => { d8 = vec_of::<u8>(t[2]); &d8 } "u16" => { d16 = vec_of::<u16>(t[2]); &d16 } _ => { d32 = vec_of::<u32>(t[2]); &d32 } };
                    let mut sections: Vec<&dyn Data> = vec![idx, &ranges, &backing];
                    if nullable { sections.push(&present); }
                    let out = decode(&codec, &sections);
                    Some(fmt_out(&*out))
                }
                "packed" | "lz4_packed" => {
                    let strs: Vec<Vec<u8>> = if t[1] == "none" { vec![] } else { t[1].split(',').map(|h| unhex(h)).collect() };
                    let packed = PackedStrings::from_iterator(strs.iter().map(|s| unsafe { std::str::from_utf8_unchecked(s) })).into_vec();
                    let nullable = t[2] != "none";
                    let present: Vec<u8> = if nullable { vec_of::<u8>(t[2]) } else { vec![] };
                    let mut ops = vec![CodecOp::UnpackStrings];
                    let data: Vec<u8> = if kind == "lz4_packed" { ops.insert(0, CodecOp::LZ4(EncodingType::U8, packed.len())); crate::mem_store::lz4::encode(&packed) } else { packed };
                    let mut section_types = vec![EncodingType::U8];
                    if nullable { ops.push(CodecOp::PushDataSection(1)); ops.push(CodecOp::Nullable); section_types.push(EncodingType::Bitvec); }
                    let codec = Codec::new(ops, section_types);
                    let mut sections: Vec<&dyn Data> = vec![&data];
                    if nullable { sections.push(&present); }
                    let out = decode(&codec, &sections);
                    Some(fmt_out(&*out))
                }
                _ => {
                    let data: Vec<u8> = vec![2, 0xab, 0xcd];
                    let codec = Codec::new(vec![CodecOp::UnhexpackStrings(false, 12)], vec![EncodingType::U8]);
                    let sections: Vec<&dyn Data> = vec![&data];
                    let out = decode(&codec, &sections);
                    Some(fmt_out(&*out))
                }
            }
        }
        _ => None,
    }
}
