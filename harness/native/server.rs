// native driver for src/server/mod.rs (child module: private fn encode_column)
use super::*;
use crate::verif_nat_util::*;
use ordered_float::OrderedFloat;

fn parse_vals(tok: &str) -> Vec<Value> {
    if tok == "-" { return vec![]; }
    tok.split(',').map(|x| {
        if let Some(r) = x.strip_prefix("i:") { Value::Int(r.parse::<i64>().unwrap()) }
        else if let Some(r) = x.strip_prefix("f:") { Value::Float(OrderedFloat(f64::from_bits(r.parse::<u64>().unwrap()))) }
        else if let Some(r) = x.strip_prefix("s:") { Value::Str(unsafe { String::from_utf8_unchecked(unhex(if r.is_empty() { "-" } else { r })) }) }
        else { Value::Null }
    }).collect()
}

fn join(v: Vec<String>) -> String { if v.is_empty() { "-".to_string() } else { v.join(",") } }

pub fn dispatch(k: &str, t: &[&str]) -> Option<String> {
    match k {
        "encode_column" => {
            let kind = t[0];
            let xor = t[2] == "1";
            let opts = EncodingOpts { xor_float_compression: xor, mantissa: None, full_precision_cols: Default::default() };
            let col = match kind {
                "Null" => BasicTypeColumn::Null(num(t[1])),
                "Int" => BasicTypeColumn::Int(parse_vals(t[1]).into_iter().map(|v| match v { Value::Int(i) => i, _ => panic!("driver") }).collect()),
                "Float" => BasicTypeColumn::Float(parse_vals(t[1]).into_iter().map(|v| match v { Value::Float(f) => f.0, _ => panic!("driver") }).collect()),
                "String" => BasicTypeColumn::String(parse_vals(t[1]).into_iter().map(|v| match v { Value::Str(s) => s, _ => panic!("driver") }).collect()),
                _ => BasicTypeColumn::Mixed(parse_vals(t[1])),
            };
            Some(match encode_column(col, &opts) {
                api::Column::Null(n) => format!("Null {}", n),
                api::Column::Int(xs) => format!("Int {}", join(xs.iter().map(|x| x.to_string()).collect())),
                api::Column::Float(xs) => format!("Float {}", join(xs.iter().map(|x| x.to_bits().to_string()).collect())),
                api::Column::Xor(bytes) => {
                    let xs = xor_float::double::decode(&bytes).unwrap();
                    format!("Xor {}", join(xs.iter().map(|x| x.to_bits().to_string()).collect()))
                }
                api::Column::String(xs) => format!("String {}", join(xs.iter().map(|s| format!("s:{}", if s.is_empty() { String::new() } else { hex(s.as_bytes()) })).collect())),
                api::Column::Mixed(xs) => format!("Mixed {}", join(xs.iter().map(|v| match v {
                    api::AnyVal::Int(i) => format!("i:{}", i),
                    api::AnyVal::Float(f) => format!("f:{}", f.to_bits()),
                    api::AnyVal::Str(s) => format!("s:{}", if s.is_empty() { String::new() } else { hex(s.as_bytes()) }),
                    api::AnyVal::Null => "n".to_string(),
                }).collect())),
            })
        }
        _ => None,
    }
}
