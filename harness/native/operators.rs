// native driver for vectorised operators (child of src/engine/operators/mod.rs): builds a real Scratchpad, runs the
// real VecOperator::execute and prints the output buffers
use super::*;
use super::binary_operator::*;
use super::numeric_operators::*;
use crate::verif_nat_util::*;
use crate::engine::*;
use std::collections::HashMap;
use std::marker::PhantomData;

fn br<T>(i: usize) -> BufferRef<T> { BufferRef { i, name: "b", t: PhantomData } }

macro_rules! nullable_checked {
    ($opstruct:ident, $kern:ty, $t:expr, $lhs_scalar:expr, $rhs_scalar:expr) => {{
        let l = vec_of::<i64>($t[0]);
        let r = vec_of::<i64>($t[1]);
        let present = vec_of::<u8>($t[2]);
        let mut sp = Scratchpad::new(5, HashMap::new());
        if $lhs_scalar { sp.set_const(br::<Scalar<i64>>(0), l[0]); } else { sp.set(br::<i64>(0), l.clone()); }
        if $rhs_scalar { sp.set_const(br::<Scalar<i64>>(1), r[0]); } else { sp.set(br::<i64>(1), r.clone()); }
        sp.set(br::<u8>(2), present);
        let mut op = $opstruct { lhs: br(0), rhs: br(1), present: br::<u8>(2), output: br::<Nullable<i64>>(3), op: PhantomData::<$kern> };
        op.init(0, 16, &mut sp);
        let res = op.execute(false, &mut sp);
        let out = sp.get(br::<i64>(3)).to_vec();
        Some(format!("{} {}", if res.is_err() { "err" } else { "ok" }, fmt_vec(&out)))
    }};
}

macro_rules! aggregate_case {
    ($opstruct:ident, $a:ty, $v:ty, $t:expr, $nullable:expr, $inty:ty, $outty:ty) => {{
        let vals = vec_of::<i64>($t[0]);
        let keys = vec_of::<u8>($t[1]);
        let maxg: i64 = num($t[2]);
        let mut sp = Scratchpad::new(8, HashMap::new());
        if $nullable { sp.set_nullable(br::<Nullable<i64>>(0), vals, vec_of::<u8>($t[3])); } else { sp.set(br::<i64>(0), vals); }
        sp.set(br::<u8>(1), keys);
        sp.set_const(br::<Scalar<i64>>(3), maxg);
        let mut op = aggregate::$opstruct { input: br::<$inty>(0), grouping: br::<u8>(1), output: br::<$outty>(2), max_index: br(3), a: PhantomData::<$a> };
        op.init(0, 16, &mut sp);
        let res = op.execute(false, &mut sp);
        let acc = sp.get(br::<$v>(2)).to_vec();
        if $nullable {
            let pres = sp.get_null_map(br::<Nullable<Any>>(2)).to_vec();
            let nb = (maxg as usize + 1 + 7) / 8;
            Some(format!("{} {} {}", if res.is_err() { "err" } else { "ok" }, fmt_vec(&acc), fmt_vec(&pres[..std::cmp::min(pres.len(), nb)])))
        } else {
            Some(format!("{} {}", if res.is_err() { "err" } else { "ok" }, fmt_vec(&acc)))
        }
    }};
}

macro_rules! binary_case {
    ($opstruct:ident, $kern:ty, $lt:ty, $rt:ty, $ot:ty, $t:expr, VV) => {{
        let mut sp = Scratchpad::new(4, HashMap::new());
        sp.set(br::<$lt>(0), vec_of::<$lt>($t[0]));
        sp.set(br::<$rt>(1), vec_of::<$rt>($t[1]));
        let mut op = $opstruct { lhs: br::<$lt>(0), rhs: br::<$rt>(1), output: br::<$ot>(2), op: PhantomData::<$kern> };
        binary_case!(@run sp, op, $ot)
    }};
    ($opstruct:ident, $kern:ty, $lt:ty, $rt:ty, $ot:ty, $t:expr, VS) => {{
        let mut sp = Scratchpad::new(4, HashMap::new());
        sp.set(br::<$lt>(0), vec_of::<$lt>($t[0]));
        sp.set_const(br::<Scalar<$rt>>(1), vec_of::<$rt>($t[1])[0]);
        let mut op = $opstruct { lhs: br::<$lt>(0), rhs: br::<Scalar<$rt>>(1), output: br::<$ot>(2), op: PhantomData::<$kern> };
        binary_case!(@run sp, op, $ot)
    }};
    ($opstruct:ident, $kern:ty, $lt:ty, $rt:ty, $ot:ty, $t:expr, SV) => {{
        let mut sp = Scratchpad::new(4, HashMap::new());
        sp.set_const(br::<Scalar<$lt>>(0), vec_of::<$lt>($t[0])[0]);
        sp.set(br::<$rt>(1), vec_of::<$rt>($t[1]));
        let mut op = $opstruct { lhs: br::<Scalar<$lt>>(0), rhs: br::<$rt>(1), output: br::<$ot>(2), op: PhantomData::<$kern> };
        binary_case!(@run sp, op, $ot)
    }};
    (@run $sp:ident, $op:ident, $ot:ty) => {{
        $op.init(0, 16, &mut $sp);
        let res = $op.execute(false, &mut $sp);
        let out = $sp.get(br::<$ot>(2)).to_vec();
        Some(format!("{} {}", if res.is_err() { "err" } else { "ok" }, fmt_vec(&out)))
    }};
}

macro_rules! cast_case {
    ($t:ty, $u:ty, $toks:expr) => {{
        let mut sp = Scratchpad::new(3, HashMap::new());
        sp.set(br::<$t>(0), vec_of::<$t>($toks[0]));
        let mut op = type_conversion::TypeConversionOperator::<$t, $u> { input: br(0), output: br(1) };
        op.init(0, 16, &mut sp);
        let res = op.execute(false, &mut sp);
        let out = sp.get(br::<$u>(1)).to_vec();
        Some(format!("{} {}", if res.is_err() { "err" } else { "ok" }, fmt_vec(&out)))
    }};
}

macro_rules! topn_case {
    ($ty:ty, $c:ty, $t:expr) => {{
        let n: usize = num($t[0]);
        let mut sp = Scratchpad::new(4, HashMap::new());
        let mut op = top_n::TopN::<$ty, $c> { input: br(0), indices: br(1), keys: br(2), n, last_index: 0, c: PhantomData };
        op.init(0, 16, &mut sp);
        let mut err = false;
        for b in &$t[1..] {
            sp.set(br::<$ty>(0), vec_of::<$ty>(b));
            if op.execute(true, &mut sp).is_err() { err = true; }
        }
        op.finalize(&mut sp);
        let out = sp.get(br::<usize>(1)).to_vec();
        Some(format!("{} {}", if err { "err" } else { "ok" }, fmt_vec(&out)))
    }};
}

macro_rules! sort_by_case {
    ($ty:ty, $c:ty, $stable:expr, $t:expr, $nullable:expr) => {{
        let rank = vec_of::<$ty>($t[0]);
        let n = rank.len();
        let mut sp = Scratchpad::new(4, HashMap::new());
        sp.set(br::<usize>(1), (0..n).collect());
        let res = if $nullable {
            sp.set_nullable(br::<Nullable<$ty>>(0), rank, vec_of::<u8>($t[1]));
            let mut op = sort_by::SortByNullable::<$ty, $c> { ranking: br(0), indices: br(1), output: br(2), stable: $stable, c: PhantomData };
            op.init(0, 16, &mut sp);
            op.execute(false, &mut sp)
        } else {
            sp.set(br::<$ty>(0), rank);
            let mut op = sort_by::SortBy::<$ty, $c> { ranking: br(0), indices: br(1), output: br(2), stable: $stable, c: PhantomData };
            op.init(0, 16, &mut sp);
            op.execute(false, &mut sp)
        };
        let out = sp.get(br::<usize>(2)).to_vec();
        Some(format!("{} {}", if res.is_err() { "err" } else { "ok" }, fmt_vec(&out)))
    }};
}

macro_rules! delta_decode_case {
    ($ty:ty, $t:expr) => {{
        let mut sp = Scratchpad::new(3, HashMap::new());
        let mut op = delta_decode::DeltaDecode::<$ty> { encoded: br(0), decoded: br(1), previous: num($t[0]) };
        op.init(0, 16, &mut sp);
        let mut err = false;
        let mut outs = Vec::new();
        for b in &$t[1..] {
            sp.set(br::<$ty>(0), vec_of::<$ty>(b));
            if op.execute(true, &mut sp).is_err() { err = true; }
            outs.push(fmt_vec(&sp.get(br::<i64>(1)).to_vec()));
        }
        Some(format!("{} {}", if err { "err" } else { "ok" }, outs.join(" ")))
    }};
}

macro_rules! fuse_int_nulls_case {
    ($ty:ty, $t:expr) => {{
        let off: i64 = num($t[2]);
        let mut sp = Scratchpad::new(6, HashMap::new());
        sp.set_nullable(br::<Nullable<$ty>>(0), vec_of::<$ty>($t[0]), vec_of::<u8>($t[1]));
        let mut op = fuse_nulls::FuseIntNulls::<$ty> { offset: off as $ty, input: br(0), fused: br(1) };
        op.init(0, 32, &mut sp);
        let mut err = op.execute(false, &mut sp).is_err();
        let mut uop = fuse_nulls::UnfuseIntNulls::<$ty> { offset: off as $ty, fused: br(1), data: br(2), present: br(3), unfused: br(4) };
        uop.init(0, 32, &mut sp);
        // rows decoded by earlier batches of the same (non-streaming) run are already in the output buffers
        sp.set(br::<$ty>(2), vec_of::<$ty>($t[3]));
        sp.set(br::<u8>(3), vec_of::<u8>($t[4]));
        err |= uop.execute(false, &mut sp).is_err();
        let fused = sp.get(br::<$ty>(1)).to_vec();
        let data = sp.get(br::<$ty>(2)).to_vec();
        let present = sp.get(br::<u8>(3)).to_vec();
        Some(format!("{} {} {} {}", if err { "err" } else { "ok" }, fmt_vec(&fused), fmt_vec(&data), fmt_vec(&present)))
    }};
}

pub fn dispatch(k: &str, t: &[&str]) -> Option<String> {
    match k {
        "op_aggregate_max" => aggregate_case!(Aggregate, aggregate::MaxI64, i64, t, false, i64, i64),
        "op_aggregate_min" => aggregate_case!(Aggregate, aggregate::MinI64, i64, t, false, i64, i64),
        "op_aggregate_count" => aggregate_case!(Aggregate, aggregate::Count, u32, t, false, i64, u32),
        "op_aggregate_sum" => aggregate_case!(CheckedAggregate, aggregate::SumI64, i64, t, false, i64, i64),
        "op_aggregate_max_nullable" => aggregate_case!(AggregateNullable, aggregate::MaxI64, i64, t, true, Nullable<i64>, Nullable<i64>),
        "op_aggregate_min_nullable" => aggregate_case!(AggregateNullable, aggregate::MinI64, i64, t, true, Nullable<i64>, Nullable<i64>),
        "op_aggregate_sum_nullable" => aggregate_case!(CheckedAggregateNullable, aggregate::SumI64, i64, t, true, Nullable<i64>, Nullable<i64>),
        "op_filter" => {
            let mut sp = Scratchpad::new(4, HashMap::new());
            sp.set(br::<i64>(0), vec_of::<i64>(t[0]));
            sp.set(br::<u8>(1), vec_of::<u8>(t[1]));
            let mut op = filter::Filter::<i64> { input: br(0), filter: br(1), output: br(2) };
            op.init(0, 16, &mut sp);
            let res = op.execute(false, &mut sp);
            let out = sp.get(br::<i64>(2)).to_vec();
            Some(format!("{} {}", if res.is_err() { "err" } else { "ok" }, fmt_vec(&out)))
        }
        "op_filter_nullable" => {
            let mut sp = Scratchpad::new(6, HashMap::new());
            sp.set_nullable(br::<Nullable<i64>>(0), vec_of::<i64>(t[0]), vec_of::<u8>(t[2]));
            sp.set(br::<u8>(1), vec_of::<u8>(t[1]));
            let mut op = filter_nullable::FilterNullable::<i64> { input: br(0), filter: br(1), output: br(2) };
            op.init(0, 16, &mut sp);
            let res = op.execute(false, &mut sp);
            let (out, pres) = sp.get_nullable(br::<Nullable<i64>>(2));
            let n = out.len();
            Some(format!("{} {} {}", if res.is_err() { "err" } else { "ok" }, fmt_vec(&out), fmt_vec(&pres[..std::cmp::min(pres.len(), (n + 7) / 8)])))
        }
        "op_nullable_checked_VV_add" => nullable_checked!(NullableCheckedBinaryOperator, Addition<i64, i64>, t, false, false),
        "op_nullable_checked_VV_sub" => nullable_checked!(NullableCheckedBinaryOperator, Subtraction<i64, i64>, t, false, false),
        "op_nullable_checked_VV_mul" => nullable_checked!(NullableCheckedBinaryOperator, Multiplication<i64, i64, i64>, t, false, false),
        "op_nullable_checked_VS_add" => nullable_checked!(NullableCheckedBinaryVSOperator, Addition<i64, i64>, t, false, true),
        "op_nullable_checked_VS_sub" => nullable_checked!(NullableCheckedBinaryVSOperator, Subtraction<i64, i64>, t, false, true),
        "op_nullable_checked_VS_mul" => nullable_checked!(NullableCheckedBinaryVSOperator, Multiplication<i64, i64, i64>, t, false, true),
        "op_nullable_checked_SV_sub" => nullable_checked!(NullableCheckedBinarySVOperator, Subtraction<i64, i64>, t, true, false),
        "op_nullable_checked_SV_mul" => nullable_checked!(NullableCheckedBinarySVOperator, Multiplication<i64, i64, i64>, t, true, false),
        "op_dict_lookup_u8" | "op_dict_lookup_u16" => {
            let mut ips = crate::stringpack::IndexedPackedStrings::default();
            for h in t[0].split(',') { ips.push(unsafe { std::str::from_utf8_unchecked(&unhex(h)) }); }
            let (ranges, backing) = ips.into_parts();
            let mut sp = Scratchpad::new(5, HashMap::new());
            sp.set(br::<u64>(1), ranges);
            sp.set(br::<u8>(2), backing);
            let res = if k == "op_dict_lookup_u8" {
                sp.set(br::<u8>(0), vec_of::<u8>(t[1]));
                let mut op = dict_lookup::DictLookup::<u8> { indices: br(0), dict_indices: br(1), dict_data: br(2), output: br(3) };
                op.init(0, 16, &mut sp);
                op.execute(false, &mut sp)
            } else {
                sp.set(br::<u16>(0), vec_of::<u16>(t[1]));
                let mut op = dict_lookup::DictLookup::<u16> { indices: br(0), dict_indices: br(1), dict_data: br(2), output: br(3) };
                op.init(0, 16, &mut sp);
                op.execute(false, &mut sp)
            };
            let out = sp.get(br::<&str>(3));
            let strs = if out.is_empty() { "-".to_string() } else { out.iter().map(|s| if s.is_empty() { "_".to_string() } else { hex(s.as_bytes()) }).collect::<Vec<_>>().join(",") };
            Some(format!("{} {}", if res.is_err() { "err" } else { "ok" }, strs))
        }
        "op_unpack_strings" => {
            // strings (hex, "_" = empty, "-" = none), batch_size, rounds: init + execute(streaming) x rounds, output batch after each
            let strs: Vec<String> = if t[0] == "-" { vec![] } else { t[0].split(',').map(|h| unsafe { String::from_utf8_unchecked(if h == "_" { vec![] } else { unhex(h) }) }).collect() };
            let packed = crate::stringpack::PackedStrings::from_iterator(strs.iter().map(|s| s.as_str())).into_vec();
            let bs: usize = num(t[1]);
            let rounds: usize = num(t[2]);
            let mut sp = Scratchpad::new(3, HashMap::new());
            sp.set(br::<u8>(0), packed);
            let mut op = unpack_strings::UnpackStrings { packed: br(0), unpacked: br(1), iterator: None, has_more: true };
            op.init(0, bs, &mut sp);
            let mut batches = vec![];
            for _ in 0..rounds {
                op.execute(true, &mut sp).unwrap();
                let out = sp.get(br::<&str>(1));
                batches.push(if out.is_empty() { "-".to_string() } else { out.iter().map(|s| if s.is_empty() { "_".to_string() } else { hex(s.as_bytes()) }).collect::<Vec<_>>().join(",") });
            }
            Some(format!("{} {}", op.has_more(), batches.join("|")))
        }
        "op_inverse_dict_lookup" => {
            let mut ips = crate::stringpack::IndexedPackedStrings::default();
            for h in t[0].split(',') { ips.push(unsafe { std::str::from_utf8_unchecked(&unhex(h)) }); }
            let (ranges, backing) = ips.into_parts();
            let c = unhex(t[1]);
            let cs: &str = unsafe { std::str::from_utf8_unchecked(&c) };
            let cs: &'static str = unsafe { std::mem::transmute::<&str, &'static str>(cs) };
            let mut sp = Scratchpad::new(5, HashMap::new());
            sp.set(br::<u64>(0), ranges);
            sp.set(br::<u8>(1), backing);
            sp.set_const(br::<Scalar<&str>>(2), cs);
            let mut op = dict_lookup::InverseDictLookup { dict_indices: br(0), dict_data: br(1), constant: br(2), output: br(3) };
            let res = op.execute(false, &mut sp);
            let r = sp.get_scalar(&br::<Scalar<i64>>(3));
            Some(format!("{} {}", if res.is_err() { "err" } else { "ok" }, r))
        }
        "op_binary_VV_lt_i64_i64" => binary_case!(BinaryOperator, comparison_operators::LessThan, i64, i64, u8, t, VV),
        "op_binary_VS_lt_u8_i64" => binary_case!(BinaryVSOperator, comparison_operators::LessThan, u8, i64, u8, t, VS),
        "op_binary_SV_le_i64_u16" => binary_case!(BinarySVOperator, comparison_operators::LessThanEquals, i64, u16, u8, t, SV),
        "op_binary_VS_eq_u32_i64" => binary_case!(BinaryVSOperator, comparison_operators::Equals, u32, i64, u8, t, VS),
        "op_binary_VV_ne_u8_u8" => binary_case!(BinaryOperator, comparison_operators::NotEquals, u8, u8, u8, t, VV),
        "op_binary_VV_le_u16_u32" => binary_case!(BinaryOperator, comparison_operators::LessThanEquals, u16, u32, u8, t, VV),
        "op_binary_VS_ne_i64_i64" => binary_case!(BinaryVSOperator, comparison_operators::NotEquals, i64, i64, u8, t, VS),
        "op_binary_SV_lt_i64_u32" => binary_case!(BinarySVOperator, comparison_operators::LessThan, i64, u32, u8, t, SV),
        "op_binary_VS_le_u16_i64" => binary_case!(BinaryVSOperator, comparison_operators::LessThanEquals, u16, i64, u8, t, VS),
        "op_binary_VV_eq_i64_i64" => binary_case!(BinaryOperator, comparison_operators::Equals, i64, i64, u8, t, VV),
        "op_binary_VV_or_u8_u8" => binary_case!(BinaryOperator, comparison_operators::BoolOr, u8, u8, u8, t, VV),
        "op_binary_VV_and_u8_u8" => binary_case!(BinaryOperator, comparison_operators::BoolAnd, u8, u8, u8, t, VV),
        "op_checked_VV_add" => binary_case!(CheckedBinaryOperator, Addition<i64, i64>, i64, i64, i64, t, VV),
        "op_checked_VV_sub" => binary_case!(CheckedBinaryOperator, Subtraction<i64, i64>, i64, i64, i64, t, VV),
        "op_checked_VV_mul" => binary_case!(CheckedBinaryOperator, Multiplication<i64, i64, i64>, i64, i64, i64, t, VV),
        "op_checked_VS_add" => binary_case!(CheckedBinaryVSOperator, Addition<i64, i64>, i64, i64, i64, t, VS),
        "op_checked_VS_sub" => binary_case!(CheckedBinaryVSOperator, Subtraction<i64, i64>, i64, i64, i64, t, VS),
        "op_checked_VS_mul" => binary_case!(CheckedBinaryVSOperator, Multiplication<i64, i64, i64>, i64, i64, i64, t, VS),
        "op_checked_SV_sub" => binary_case!(CheckedBinarySVOperator, Subtraction<i64, i64>, i64, i64, i64, t, SV),
        "op_checked_SV_mul" => binary_case!(CheckedBinarySVOperator, Multiplication<i64, i64, i64>, i64, i64, i64, t, SV),
        "op_cast_u8_i64" => cast_case!(u8, i64, t),
        "op_cast_u16_i64" => cast_case!(u16, i64, t),
        "op_cast_u32_i64" => cast_case!(u32, i64, t),
        "op_cast_u8_u32" => cast_case!(u8, u32, t),
        "op_cast_u16_u32" => cast_case!(u16, u32, t),
        "op_cast_u8_u16" => cast_case!(u8, u16, t),
        "op_cast_i64_of64" => {
            let mut sp = Scratchpad::new(3, HashMap::new());
            sp.set(br::<i64>(0), vec_of::<i64>(t[0]));
            let mut op = type_conversion::TypeConversionOperator::<i64, of64> { input: br(0), output: br(1) };
            op.init(0, 16, &mut sp);
            let res = op.execute(false, &mut sp);
            let out: Vec<u64> = sp.get(br::<of64>(1)).iter().map(|x| x.to_bits()).collect();
            Some(format!("{} {}", if res.is_err() { "err" } else { "ok" }, fmt_vec(&out)))
        }
        "op_is_null" | "op_is_not_null" => {
            let n: usize = num(t[0]);
            let mut sp = Scratchpad::new(4, HashMap::new());
            sp.set_nullable(br::<Nullable<i64>>(0), (0..n as i64).collect(), vec_of::<u8>(t[1]));
            let res = if k == "op_is_null" {
                let mut op = is_null::IsNull { input: br::<Nullable<Any>>(0), is_null: br(1) };
                op.init(0, 32, &mut sp);
                op.execute(false, &mut sp)
            } else {
                let mut op = is_null::IsNotNull { input: br::<Nullable<Any>>(0), is_not_null: br(1) };
                op.init(0, 32, &mut sp);
                op.execute(false, &mut sp)
            };
            let out = sp.get(br::<u8>(1)).to_vec();
            Some(format!("{} {}", if res.is_err() { "err" } else { "ok" }, fmt_vec(&out)))
        }
        "op_combine_null_maps" => {
            let n: usize = num(t[0]);
            let mut sp = Scratchpad::new(4, HashMap::new());
            sp.set_nullable(br::<Nullable<i64>>(0), (0..n as i64).collect(), vec_of::<u8>(t[1]));
            sp.set_nullable(br::<Nullable<i64>>(1), (0..n as i64).collect(), vec_of::<u8>(t[2]));
            let mut op = combine_null_maps::CombineNullMaps { lhs: br::<Nullable<Any>>(0), rhs: br::<Nullable<Any>>(1), output: br(2) };
            op.init(n, 32, &mut sp);
            let res = op.execute(false, &mut sp);
            let out = sp.get(br::<u8>(2)).to_vec();
            Some(format!("{} {}", if res.is_err() { "err" } else { "ok" }, fmt_vec(&out)))
        }
        "op_exists_u8" | "op_exists_u16" => {
            let maxg: i64 = num(t[1]);
            let mut sp = Scratchpad::new(4, HashMap::new());
            sp.set_const(br::<Scalar<i64>>(1), maxg);
            let res = if k == "op_exists_u8" {
                sp.set(br::<u8>(0), vec_of::<u8>(t[0]));
                let mut op = exists::Exists::<u8> { input: br(0), max_index: br(1), output: br(2) };
                op.init(0, 16, &mut sp);
                op.execute(false, &mut sp)
            } else {
                sp.set(br::<u16>(0), vec_of::<u16>(t[0]));
                let mut op = exists::Exists::<u16> { input: br(0), max_index: br(1), output: br(2) };
                op.init(0, 16, &mut sp);
                op.execute(false, &mut sp)
            };
            let out = sp.get(br::<u8>(2)).to_vec();
            Some(format!("{} {}", if res.is_err() { "err" } else { "ok" }, fmt_vec(&out)))
        }
        "op_compact_i64_u8" => {
            let mut sp = Scratchpad::new(4, HashMap::new());
            sp.set(br::<i64>(0), vec_of::<i64>(t[0]));
            sp.set(br::<u8>(1), vec_of::<u8>(t[1]));
            let mut op = compact::Compact::<i64, u8> { data: br(0), select: br(1), compacted: br(2) };
            op.init(0, 16, &mut sp);
            let res = op.execute(false, &mut sp);
            let out = sp.get(br::<i64>(2)).to_vec();
            Some(format!("{} {}", if res.is_err() { "err" } else { "ok" }, fmt_vec(&out)))
        }
        "op_nonzero_compact_u32" => {
            let mut sp = Scratchpad::new(4, HashMap::new());
            sp.set(br::<u32>(0), vec_of::<u32>(t[0]));
            let mut op = nonzero_compact::NonzeroCompact::<u32> { data: br(0), compacted: br(2) };
            op.init(0, 16, &mut sp);
            let res = op.execute(false, &mut sp);
            let out = sp.get(br::<u32>(2)).to_vec();
            Some(format!("{} {}", if res.is_err() { "err" } else { "ok" }, fmt_vec(&out)))
        }
        "op_nonzero_compact_nullable_i64" => {
            let mut sp = Scratchpad::new(4, HashMap::new());
            sp.set_nullable(br::<Nullable<i64>>(0), vec_of::<i64>(t[0]), vec_of::<u8>(t[1]));
            let mut op = nonzero_compact::NonzeroCompactNullable::<i64> { data: br(0), compacted: br(2) };
            op.init(0, 16, &mut sp);
            let res = op.execute(false, &mut sp);
            let out = sp.get(br::<i64>(2)).to_vec();
            Some(format!("{} {}", if res.is_err() { "err" } else { "ok" }, fmt_vec(&out)))
        }
        "op_nonzero_indices_u8_i64" => {
            let mut sp = Scratchpad::new(4, HashMap::new());
            sp.set(br::<u8>(0), vec_of::<u8>(t[0]));
            let mut op = nonzero_indices::NonzeroIndices::<u8, i64> { input: br(0), output: br(1), offset: num(t[1]) };
            op.init(0, 16, &mut sp);
            let res = op.execute(false, &mut sp);
            let out = sp.get(br::<i64>(1)).to_vec();
            Some(format!("{} {} {}", if res.is_err() { "err" } else { "ok" }, fmt_vec(&out), op.offset))
        }
        "op_nonzero_nonnull_indices_u32_i64" => {
            let mut sp = Scratchpad::new(4, HashMap::new());
            sp.set_nullable(br::<Nullable<u32>>(0), vec_of::<u32>(t[0]), vec_of::<u8>(t[2]));
            let mut op = nonzero_indices::NonzeroNonnullIndices::<u32, i64> { input: br(0), output: br(1), offset: num(t[1]) };
            op.init(0, 16, &mut sp);
            let res = op.execute(false, &mut sp);
            let out = sp.get(br::<i64>(1)).to_vec();
            Some(format!("{} {} {}", if res.is_err() { "err" } else { "ok" }, fmt_vec(&out), op.offset))
        }
        "op_topn_i64_asc" => topn_case!(i64, CmpLessThan, t),
        "op_topn_i64_desc" => topn_case!(i64, CmpGreaterThan, t),
        "op_topn_u8_desc" => topn_case!(u8, CmpGreaterThan, t),
        "op_topn_u32_asc" => topn_case!(u32, CmpLessThan, t),
        "op_select" => {
            let mut sp = Scratchpad::new(4, HashMap::new());
            sp.set(br::<i64>(0), vec_of::<i64>(t[0]));
            sp.set(br::<usize>(1), vec_of::<usize>(t[1]));
            let mut op = select::Select::<i64> { input: br(0), indices: br(1), output: br(2) };
            op.init(0, 16, &mut sp);
            let res = op.execute(false, &mut sp);
            let out = sp.get(br::<i64>(2)).to_vec();
            Some(format!("{} {}", if res.is_err() { "err" } else { "ok" }, fmt_vec(&out)))
        }
        "op_select_nullable" => {
            let mut sp = Scratchpad::new(6, HashMap::new());
            sp.set_nullable(br::<Nullable<i64>>(0), vec_of::<i64>(t[0]), vec_of::<u8>(t[2]));
            sp.set(br::<usize>(1), vec_of::<usize>(t[1]));
            let mut op = select::SelectNullable::<i64> { input: br(0), indices: br(1), output: br(2) };
            op.init(0, 16, &mut sp);
            let res = op.execute(false, &mut sp);
            let (out, pres) = sp.get_nullable(br::<Nullable<i64>>(2));
            let n = out.len();
            Some(format!("{} {} {}", if res.is_err() { "err" } else { "ok" }, fmt_vec(&out), fmt_vec(&pres[..std::cmp::min(pres.len(), (n + 7) / 8)])))
        }
        "op_sort_by_i64_asc_stable" => sort_by_case!(i64, CmpLessThan, true, t, false),
        "op_sort_by_u8_desc_unstable" => sort_by_case!(u8, CmpGreaterThan, false, t, false),
        "op_sort_by_i64_desc_stable" => sort_by_case!(i64, CmpGreaterThan, true, t, false),
        "op_sort_by_u32_asc_unstable" => sort_by_case!(u32, CmpLessThan, false, t, false),
        "op_sort_by_nullable_i64_asc_stable" => sort_by_case!(i64, CmpLessThan, true, t, true),
        "op_sort_by_nullable_u8_desc_unstable" => sort_by_case!(u8, CmpGreaterThan, false, t, true),
        "op_sort_by_nullable_i64_desc_stable" => sort_by_case!(i64, CmpGreaterThan, true, t, true),
        "op_sort_by_nullable_u32_asc_unstable" => sort_by_case!(u32, CmpLessThan, false, t, true),
        "op_delta_decode_u8" => delta_decode_case!(u8, t),
        "op_delta_decode_u16" => delta_decode_case!(u16, t),
        "op_delta_decode_u32" => delta_decode_case!(u32, t),
        "op_delta_decode_i64" => delta_decode_case!(i64, t),
        "op_bitpack_roundtrip" => {
            let w: u8 = num(t[2]);
            let w2: u8 = num(t[3]);
            let mut sp = Scratchpad::new(6, HashMap::new());
            sp.set(br::<i64>(0), vec_of::<i64>(t[0]));
            sp.set(br::<i64>(1), vec_of::<i64>(t[1]));
            let mut op = parameterized_vec_vec_int_op::ParameterizedVecVecIntegerOperator::<parameterized_vec_vec_int_op::BitShiftLeftAdd> { lhs: br(0), rhs: br(1), output: br(2), parameter: w as i64, op: PhantomData };
            op.init(0, 16, &mut sp);
            let mut err = op.execute(false, &mut sp).is_err();
            let mut u1 = bit_unpack::BitUnpackOperator { input: br(2), output: br(3), shift: 0, width: w };
            u1.init(0, 16, &mut sp);
            err |= u1.execute(false, &mut sp).is_err();
            let mut u2 = bit_unpack::BitUnpackOperator { input: br(2), output: br(4), shift: w, width: w2 };
            u2.init(0, 16, &mut sp);
            err |= u2.execute(false, &mut sp).is_err();
            let lo = sp.get(br::<i64>(3)).to_vec();
            let hi = sp.get(br::<i64>(4)).to_vec();
            Some(format!("{} {} {}", if err { "err" } else { "ok" }, fmt_vec(&lo), fmt_vec(&hi)))
        }
        "op_fuse_nulls_i64" => {
            let mut sp = Scratchpad::new(4, HashMap::new());
            sp.set_nullable(br::<Nullable<i64>>(0), vec_of::<i64>(t[0]), vec_of::<u8>(t[1]));
            let mut op = fuse_nulls::FuseNullsI64 { input: br(0), fused: br(1) };
            op.init(0, 32, &mut sp);
            let res = op.execute(false, &mut sp);
            let out = sp.get(br::<i64>(1)).to_vec();
            Some(format!("{} {}", if res.is_err() { "err" } else { "ok" }, fmt_vec(&out)))
        }
        "op_unfuse_nulls_i64" => {
            let mut sp = Scratchpad::new(4, HashMap::new());
            sp.set(br::<i64>(0), vec_of::<i64>(t[0]));
            let mut op = fuse_nulls::UnfuseNullsI64 { fused: br(0), present: br(1), unfused: br(2) };
            let res = op.execute(false, &mut sp);
            let out = sp.get(br::<u8>(1)).to_vec();
            Some(format!("{} {}", if res.is_err() { "err" } else { "ok" }, fmt_vec(&out)))
        }
        "op_compact_nullable" | "op_compact_with_nullable" | "op_compact_nullable_nullable" => {
            let data = vec_of::<i64>(t[0]);
            let select = vec_of::<u8>(t[1]);
            let mut sp = Scratchpad::new(6, HashMap::new());
            let res;
            if k == "op_compact_nullable" {
                sp.set_nullable(br::<Nullable<i64>>(0), data, vec_of::<u8>(t[2]));
                sp.set(br::<u8>(1), select);
                let mut op = compact_nullable::CompactNullable::<i64, u8> { data: br(0), select: br(1), compacted: br(2) };
                op.init(0, 16, &mut sp);
                res = op.execute(false, &mut sp);
            } else if k == "op_compact_with_nullable" {
                sp.set(br::<i64>(0), data);
                sp.set_nullable(br::<Nullable<u8>>(1), select, vec_of::<u8>(t[3]));
                let mut op = compact_with_nullable::CompactWithNullable::<i64, u8> { data: br(0), select: br(1), compacted: br(2) };
                op.init(0, 16, &mut sp);
                res = op.execute(false, &mut sp);
            } else {
                sp.set_nullable(br::<Nullable<i64>>(0), data, vec_of::<u8>(t[2]));
                sp.set_nullable(br::<Nullable<u8>>(1), select, vec_of::<u8>(t[3]));
                let mut op = compact_nullable_nullable::CompactNullableNullable::<i64, u8> { data: br(0), select: br(1), compacted: br(2) };
                op.init(0, 16, &mut sp);
                res = op.execute(false, &mut sp);
            }
            if k == "op_compact_with_nullable" {
                let out = sp.get(br::<i64>(0)).to_vec();
                Some(format!("{} {} []", if res.is_err() { "err" } else { "ok" }, fmt_vec(&out)))
            } else {
                let (out, pres) = sp.get_nullable(br::<Nullable<i64>>(0));
                let n = out.len();
                Some(format!("{} {} {}", if res.is_err() { "err" } else { "ok" }, fmt_vec(&out), fmt_vec(&pres[..std::cmp::min(pres.len(), (n + 7) / 8)])))
            }
        }
        "op_fuse_int_nulls_u8" => fuse_int_nulls_case!(u8, t),
        "op_fuse_int_nulls_u16" => fuse_int_nulls_case!(u16, t),
        "op_fuse_int_nulls_u32" => fuse_int_nulls_case!(u32, t),
        "op_fuse_int_nulls_i64" => fuse_int_nulls_case!(i64, t),
        _ => None,
    }
}
