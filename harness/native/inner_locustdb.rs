// native driver for src/scheduler/inner_locustdb.rs (private fn subpartition)
use super::*;
use crate::verif_nat_util::*;

pub fn dispatch(k: &str, t: &[&str]) -> Option<String> {
    match k {
        "subpartition_writer" => {
            // columns whose heap size is (approximately) controllable are hard to build natively; the native side instead
            // uses real null columns (size 0) plus real integer columns and reports the sizes it observed
            let names: Vec<String> = t[0].split(',').filter(|h| !h.is_empty()).map(|h| unsafe { String::from_utf8_unchecked(unhex(h)) }).collect();
            let sizes = vec_of::<u64>(t[1]);
            let max: u64 = num(t[2]);
            let mut cols = vec![];
            for (n, s) in names.iter().zip(sizes.iter()) {
                // an I64 column of s/8 values has heap size ~ s bytes
                let vals: Vec<i64> = (0..(*s / 8)).map(|i| (i as i64) * 1_000_000_007 % 9_000_000_000_000_000_000).collect();
                let c = Column::new(n, vals.len(), None, vec![], vec![DataSection::I64(vals)]);
                cols.push(Arc::new(c));
            }
            let observed: Vec<u64> = cols.iter().map(|c| c.heap_size_of_children() as u64).collect();
            let mut opts = Options::default();
            opts.max_partition_size_bytes = max;
            let (meta, groups) = subpartition(&opts, cols);
            let m = if meta.is_empty() { "-".to_string() } else { meta.iter().map(|x| format!("{}:{}:{}", hex(x.subpartition_key.as_bytes()), hex(x.last_column.as_bytes()), x.size_bytes)).collect::<Vec<_>>().join(";") };
            let g = if groups.is_empty() { "-".to_string() } else { groups.iter().map(|g| g.iter().map(|c| hex(c.name().as_bytes())).collect::<Vec<_>>().join(",")).collect::<Vec<_>>().join("|") };
            Some(format!("{} {} {}", m, g, fmt_vec(&observed)))
        }
        _ => None,
    }
}
