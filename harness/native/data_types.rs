// native driver for Data::slice_box (src/engine/data_types/data.rs child module)
use super::*;
use crate::verif_nat_util::*;
use crate::bitvec::BitVec;

pub fn dispatch(k: &str, t: &[&str]) -> Option<String> {
    match k {
        "slice_box_null" => {
            let n: usize = num(t[0]);
            let b = Data::slice_box(&n, num(t[1]), num(t[2]));
            Some(format!("{}", b.len()))
        }
        "slice_box_vec" => {
            let v: Vec<i64> = vec_of(t[0]);
            let b = Data::slice_box(&v, num(t[1]), num(t[2]));
            Some(fmt_vec(b.cast_ref_i64()))
        }
        "slice_box_slice" => {
            let v: Vec<i64> = vec_of(t[0]);
            let s: &[i64] = &v;
            let b = Data::slice_box(&s, num(t[1]), num(t[2]));
            Some(fmt_vec(b.cast_ref_i64()))
        }
        "slice_box_nullable" => {
            let v = NullableVec::<i64> { data: vec_of(t[0]), present: vec_of(t[3]) };
            let b = Data::slice_box(&v, num(t[1]), num(t[2]));
            let cells = b.cast_ref_i64().to_vec();
            let pm = b.cast_ref_null_map();
            let bits: String = (0..cells.len()).map(|i| if pm.is_set(i) { '1' } else { '0' }).collect();
            Some(format!("{} {}", fmt_vec(&cells), if bits.is_empty() { "-".to_string() } else { bits }))
        }
        _ => None,
    }
}
