// native driver for src/ingest/input_column.rs: client-side event_buffer::ColumnBuffer::push row by row, then the
// server-side InputColumn::from_column_data
use super::*;
use crate::verif_nat_util::*;
use locustdb_serialization::api::AnyVal;
use locustdb_serialization::event_buffer::ColumnBuffer as WireColumnBuffer;
use locustdb_serialization::event_buffer::ColumnData;

pub fn dispatch(k: &str, t: &[&str]) -> Option<String> {
    match k {
        "event_buffer_column" => {
            let mut cb = WireColumnBuffer::default();
            let mut n = 0u64;
            let wire = t[0].starts_with("W:");
            let spec = if wire { &t[0][2..] } else { t[0] };
            let mut mixed = vec![];
            if spec != "-" {
                for x in spec.split(',') {
                    let v = if let Some(r) = x.strip_prefix("i:") { AnyVal::Int(num(r)) }
                        else if let Some(r) = x.strip_prefix("f:") { AnyVal::Float(f64::from_bits(num::<u64>(r))) }
                        else if let Some(r) = x.strip_prefix("s:") { AnyVal::Str(unsafe { String::from_utf8_unchecked(unhex(if r.is_empty() { "-" } else { r })) }) }
                        else { AnyVal::Null };
                    if wire { mixed.push(v); } else { cb.push(v, n); }
                    n += 1;
                }
            }
            if wire { cb.data = ColumnData::Mixed(mixed); }
            Some(match InputColumn::from_column_data(cb.data, n) {
                InputColumn::Int(v) => format!("Int {}", fmt_vec(&v)),
                InputColumn::Float(v) => format!("Float {}", fmt_f64_bits(&v)),
                InputColumn::Null(k) => format!("Null {}", k),
                InputColumn::Str(v) => format!("Str {}", if v.is_empty() { "-".to_string() } else { v.iter().map(|s| hex(s.as_bytes())).collect::<Vec<_>>().join(",") }),
                InputColumn::NullableInt(rows, p) => format!("NullableInt {} {} {}", rows, fmt_vec(&p.iter().map(|x| x.0).collect::<Vec<_>>()), fmt_vec(&p.iter().map(|x| x.1).collect::<Vec<_>>())),
                InputColumn::NullableFloat(rows, p) => format!("NullableFloat {} {} {}", rows, fmt_vec(&p.iter().map(|x| x.0).collect::<Vec<_>>()), fmt_f64_bits(&p.iter().map(|x| x.1).collect::<Vec<_>>())),
                InputColumn::Mixed(v) => format!("Mixed {}", if v.is_empty() { "-".to_string() } else { v.iter().map(|x| match x {
                    crate::ingest::raw_val::RawVal::Null => "n".to_string(), crate::ingest::raw_val::RawVal::Int(i) => format!("i:{}", i),
                    crate::ingest::raw_val::RawVal::Float(f) => format!("f:{}", f.0.to_bits()), crate::ingest::raw_val::RawVal::Str(s) => format!("s:{}", hex(s.as_bytes())) }).collect::<Vec<_>>().join(",") }),
            })
        }
        "table_buffer_rows" => {
            // one token per row: col=i:5,col=f:<bits>,col=n,col=s:<hex>  ("-" = empty row)
            use locustdb_serialization::event_buffer::TableBuffer;
            let mut tb = TableBuffer::default();
            for row in t {
                let mut items: Vec<(String, AnyVal)> = vec![];
                if *row != "-" {
                    for kv in row.split(',') {
                        let (c, x) = kv.split_once('=').unwrap();
                        let v = if let Some(r) = x.strip_prefix("i:") { AnyVal::Int(num(r)) }
                            else if let Some(r) = x.strip_prefix("f:") { AnyVal::Float(f64::from_bits(num::<u64>(r))) }
                            else if let Some(r) = x.strip_prefix("s:") { AnyVal::Str(unsafe { String::from_utf8_unchecked(unhex(if r.is_empty() { "-" } else { r })) }) }
                            else { AnyVal::Null };
                        items.push((c.to_string(), v));
                    }
                }
                tb.push_row_and_timestamp(items);
            }
            let mut cs: Vec<(&String, &WireColumnBuffer)> = tb.columns().collect();
            cs.sort_by(|a, b| a.0.cmp(b.0));
            let parts: Vec<String> = cs.iter().map(|(c, cb)| match &cb.data {
                ColumnData::Empty => format!("{}:Empty", c),
                ColumnData::Dense(v) => format!("{}:Dense:{}", c, fmt_f64_bits(v)),
                ColumnData::I64(v) => format!("{}:I64:{}", c, fmt_vec(v)),
                ColumnData::Sparse(v) => format!("{}:Sparse:{}:{}", c, fmt_vec(&v.iter().map(|x| x.0).collect::<Vec<_>>()), fmt_f64_bits(&v.iter().map(|x| x.1).collect::<Vec<_>>())),
                ColumnData::SparseI64(v) => format!("{}:SparseI64:{}:{}", c, fmt_vec(&v.iter().map(|x| x.0).collect::<Vec<_>>()), fmt_vec(&v.iter().map(|x| x.1).collect::<Vec<_>>())),
                ColumnData::String(v) => format!("{}:String:{}", c, v.iter().map(|s| hex(s.as_bytes())).collect::<Vec<_>>().join(",")),
                ColumnData::Mixed(_) => format!("{}:Mixed", c),
            }).collect();
            Some(format!("{} {}", tb.len(), parts.join(" ")))
        }
        "wal_segment_roundtrip" => {
            // <id> then the same table tokens as event_buffer_roundtrip; goes through disk_store::wal_segment::WalSegment
            use crate::disk_store::wal_segment::WalSegment;
            use std::borrow::Cow;
            let id: u64 = num(t[0]);
            let eb = build_event_buffer(&t[1..]);
            let bytes = WalSegment { id, data: Cow::Borrowed(&eb) }.serialize();
            let back = WalSegment::deserialize(&bytes).unwrap();
            Some(format!("{} {}", back.id, print_event_buffer(&back.data)))
        }
        "event_buffer_roundtrip" => {
            use locustdb_serialization::event_buffer::EventBuffer;
            let eb = build_event_buffer(t);
            let bytes = eb.serialize();
            let back = EventBuffer::deserialize(&bytes).unwrap();
            Some(print_event_buffer(&back))
        }
        _ => None,
    }
}

fn build_event_buffer(t: &[&str]) -> locustdb_serialization::event_buffer::EventBuffer {
    use locustdb_serialization::event_buffer::{EventBuffer, TableBuffer};
    use std::collections::HashMap;
            let mut eb = EventBuffer::default();
            for tok in t {
                let (tname, rest) = tok.split_once('=').unwrap();
                let mut cols: HashMap<String, WireColumnBuffer> = HashMap::new();
                if rest != "-" {
                    for part in rest.split(';') {
                        let p: Vec<&str> = part.split(':').collect();
                        let data = match p[1] {
                            "Empty" => ColumnData::Empty,
                            "Dense" => ColumnData::Dense(vec_f64_bits(p[2])),
                            "I64" => ColumnData::I64(vec_of(p[2])),
                            "Sparse" => ColumnData::Sparse(vec_of::<u64>(p[2]).into_iter().zip(vec_f64_bits(p[3])).collect()),
                            "SparseI64" => ColumnData::SparseI64(vec_of::<u64>(p[2]).into_iter().zip(vec_of::<i64>(p[3])).collect()),
                            "String" => ColumnData::String(if p[2].is_empty() { vec![] } else { p[2].split(',').map(|h| unsafe { String::from_utf8_unchecked(unhex(h)) }).collect() }),
                            _ => ColumnData::Mixed(if p[2].is_empty() { vec![] } else { p[2].split(',').map(|x| {
                                if x == "n" { AnyVal::Null } else if let Some(r) = x.strip_prefix('i') { AnyVal::Int(num(r)) }
                                else if let Some(r) = x.strip_prefix('f') { AnyVal::Float(f64::from_bits(num::<u64>(r))) }
                                else { AnyVal::Str(unsafe { String::from_utf8_unchecked(unhex(&x[1..])) }) } }).collect() }),
                        };
                        cols.insert(p[0].to_string(), WireColumnBuffer { data });
                    }
                }
                eb.tables.insert(tname.to_string(), TableBuffer::new(cols));
            }
    eb
}

fn print_event_buffer(back: &locustdb_serialization::event_buffer::EventBuffer) -> String {
            let mut names: Vec<&String> = back.tables.keys().collect();
            names.sort();
            let mut out = vec![];
            for n in names {
                let tb = &back.tables[n];
                let mut cs: Vec<(&String, &WireColumnBuffer)> = tb.columns().collect();
                cs.sort_by(|a, b| a.0.cmp(b.0));
                let parts: Vec<String> = cs.iter().map(|(c, cb)| match &cb.data {
                    ColumnData::Empty => format!("{}:Empty", c),
                    ColumnData::Dense(v) => format!("{}:Dense:{}", c, fmt_f64_bits(v)),
                    ColumnData::I64(v) => format!("{}:I64:{}", c, fmt_vec(v)),
                    ColumnData::Sparse(v) => format!("{}:Sparse:{}:{}", c, fmt_vec(&v.iter().map(|x| x.0).collect::<Vec<_>>()), fmt_f64_bits(&v.iter().map(|x| x.1).collect::<Vec<_>>())),
                    ColumnData::SparseI64(v) => format!("{}:SparseI64:{}:{}", c, fmt_vec(&v.iter().map(|x| x.0).collect::<Vec<_>>()), fmt_vec(&v.iter().map(|x| x.1).collect::<Vec<_>>())),
                    ColumnData::String(v) => format!("{}:String:{}", c, v.iter().map(|s| hex(s.as_bytes())).collect::<Vec<_>>().join(",")),
                    ColumnData::Mixed(v) => format!("{}:Mixed:{}", c, v.iter().map(|a| match a {
                        AnyVal::Null => "n".to_string(), AnyVal::Int(i) => format!("i{}", i), AnyVal::Float(f) => format!("f{}", f.to_bits()), AnyVal::Str(s) => format!("s{}", hex(s.as_bytes())) }).collect::<Vec<_>>().join(",")),
                }).collect();
                out.push(format!("{}={}@{}", n, tb.len(), if parts.is_empty() { "-".to_string() } else { parts.join(";") }));
            }
    out.join(" ")
}
