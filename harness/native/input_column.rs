// native driver for src/ingest/input_column.rs: client-side event_buffer::ColumnBuffer::push row by row, then the
// server-side InputColumn::from_column_data
use super::*;
use crate::verif_nat_util::*;
use locustdb_serialization::api::AnyVal;
use locustdb_serialization::event_buffer::ColumnBuffer as WireColumnBuffer;

pub fn dispatch(k: &str, t: &[&str]) -> Option<String> {
    match k {
        "event_buffer_column" => {
            let mut cb = WireColumnBuffer::default();
            let mut n = 0u64;
            if t[0] != "-" {
                for x in t[0].split(',') {
                    let v = if let Some(r) = x.strip_prefix("i:") { AnyVal::Int(num(r)) }
                        else if let Some(r) = x.strip_prefix("f:") { AnyVal::Float(f64::from_bits(num::<u64>(r))) }
                        else if let Some(r) = x.strip_prefix("s:") { AnyVal::Str(unsafe { String::from_utf8_unchecked(unhex(if r.is_empty() { "-" } else { r })) }) }
                        else { AnyVal::Null };
                    cb.push(v, n);
                    n += 1;
                }
            }
            Some(match InputColumn::from_column_data(cb.data, n) {
                InputColumn::Int(v) => format!("Int {}", fmt_vec(&v)),
                InputColumn::Float(v) => format!("Float {}", fmt_f64_bits(&v)),
                InputColumn::Null(k) => format!("Null {}", k),
                InputColumn::Str(v) => format!("Str {}", if v.is_empty() { "-".to_string() } else { v.iter().map(|s| hex(s.as_bytes())).collect::<Vec<_>>().join(",") }),
                InputColumn::NullableInt(rows, p) => format!("NullableInt {} {} {}", rows, fmt_vec(&p.iter().map(|x| x.0).collect::<Vec<_>>()), fmt_vec(&p.iter().map(|x| x.1).collect::<Vec<_>>())),
                InputColumn::NullableFloat(rows, p) => format!("NullableFloat {} {} {}", rows, fmt_vec(&p.iter().map(|x| x.0).collect::<Vec<_>>()), fmt_f64_bits(&p.iter().map(|x| x.1).collect::<Vec<_>>())),
                InputColumn::Mixed(v) => format!("Mixed {}", v.len()),
            })
        }
        _ => None,
    }
}
