// native helper for src/mem_store/partition.rs (child module: private fields of Partition)
use super::*;

pub fn dispatch(_k: &str, _t: &[&str]) -> Option<String> { None }

/// a Partition with the given id, row range and total size (no columns: plan_compaction reads only these three)
pub fn mk(id: PartitionID, offset: usize, len: usize, total_size_bytes: usize, lru: Lru) -> Partition {
    Partition { id, table_name: "t".to_string(), range: offset..(offset + len), total_size_bytes, ephemeral: false, cols: RwLock::new(HashMap::default()), lru }
}
