// Generic API-level replay driver (copied into tests/ of a scratch copy of /repo; repo toolchain).
// Reads a JSON scenario from $VERIF_API_SPEC, drives the *public* LocustDB API and prints one
// `VERIF-API: <json>` line per step.  Used to confirm solver models end-to-end.
use std::collections::HashMap;
use std::panic::{catch_unwind, AssertUnwindSafe};
use std::path::PathBuf;
use std::sync::mpsc;
use std::time::Duration;

use futures::executor::block_on;
use locustdb::{LocustDB, Options, Value};
use locustdb_serialization::api::AnyVal;
use locustdb_serialization::event_buffer::{ColumnBuffer, ColumnData, EventBuffer, TableBuffer};
use serde_json::{json, Value as J};

fn anyval(v: &J) -> AnyVal {
    if v.is_null() { return AnyVal::Null; }
    if let Some(s) = v.as_str() {
        if let Some(x) = s.strip_prefix("i:") { return AnyVal::Int(x.parse().unwrap()); }
        if let Some(x) = s.strip_prefix("fbits:") { return AnyVal::Float(f64::from_bits(x.parse().unwrap())); }
        if let Some(x) = s.strip_prefix("s:") { return AnyVal::Str(x.to_string()); }
        return AnyVal::Str(s.to_string());
    }
    if let Some(i) = v.as_i64() { return AnyVal::Int(i); }
    AnyVal::Float(v.as_f64().unwrap())
}

fn as_i64(v: &J) -> i64 { if let Some(s) = v.as_str() { s.parse().unwrap() } else { v.as_i64().unwrap() } }
fn as_u64(v: &J) -> u64 { if let Some(s) = v.as_str() { s.parse().unwrap() } else { v.as_u64().unwrap() } }
fn as_f64(v: &J) -> f64 {
    if let Some(s) = v.as_str() {
        if let Some(x) = s.strip_prefix("fbits:") { return f64::from_bits(x.parse().unwrap()); }
        s.parse().unwrap()
    } else { v.as_f64().unwrap() }
}

fn column(spec: &J) -> ColumnBuffer {
    let (kind, vals) = spec.as_object().unwrap().iter().next().unwrap();
    let vals = vals.as_array().unwrap();
    let data = match kind.as_str() {
        "I64" => ColumnData::I64(vals.iter().map(as_i64).collect()),
        "Dense" => ColumnData::Dense(vals.iter().map(as_f64).collect()),
        "String" => ColumnData::String(vals.iter().map(|v| v.as_str().unwrap().to_string()).collect()),
        "SparseI64" => ColumnData::SparseI64(vals.iter().map(|p| (as_u64(&p[0]), as_i64(&p[1]))).collect()),
        "Sparse" => ColumnData::Sparse(vals.iter().map(|p| (as_u64(&p[0]), as_f64(&p[1]))).collect()),
        "Mixed" => ColumnData::Mixed(vals.iter().map(anyval).collect()),
        "Empty" => ColumnData::Empty,
        k => panic!("unknown column kind {}", k),
    };
    ColumnBuffer { data }
}

fn val_json(v: &Value) -> J {
    match v {
        Value::Int(i) => json!(format!("i:{}", i)),
        Value::Float(f) => json!(format!("fbits:{}", f.0.to_bits())),
        Value::Str(s) => json!(format!("s:{}", s)),
        Value::Null => J::Null,
    }
}

fn make_db(opts: &J, path: &Option<PathBuf>) -> LocustDB {
    let mut o = Options::default();
    o.threads = opts.get("threads").and_then(|x| x.as_u64()).unwrap_or(2) as usize;
    o.read_threads = 1;
    o.db_path = path.clone();
    o.metrics_table_name = None;
    if let Some(x) = opts.get("batch_size").and_then(|x| x.as_u64()) { o.batch_size = x as usize; }
    if let Some(x) = opts.get("max_partition_length").and_then(|x| x.as_u64()) { o.max_partition_length = x as usize; }
    if let Some(x) = opts.get("max_partition_size_bytes").and_then(|x| x.as_u64()) { o.max_partition_size_bytes = x; }
    if let Some(x) = opts.get("partition_combine_factor").and_then(|x| x.as_u64()) { o.partition_combine_factor = x; }
    if let Some(x) = opts.get("mem_lz4").and_then(|x| x.as_bool()) { o.mem_lz4 = x; }
    if let Some(x) = opts.get("max_wal_size_bytes").and_then(|x| x.as_u64()) { o.max_wal_size_bytes = x; }
    LocustDB::new(&o)
}

#[test]
fn verif_api_replay() {
    let spec_path = match std::env::var("VERIF_API_SPEC") { Ok(p) => p, Err(_) => return };
    let spec: J = serde_json::from_str(&std::fs::read_to_string(spec_path).unwrap()).unwrap();
    let empty = json!({});
    let opts = spec.get("options").unwrap_or(&empty).clone();
    let tmp = tempfile::tempdir().unwrap();
    let path: Option<PathBuf> = if spec.get("on_disk").and_then(|x| x.as_bool()).unwrap_or(false) { Some(tmp.path().join("db")) } else { None };
    let mut db = Some(make_db(&opts, &path));
    for (i, step) in spec["steps"].as_array().unwrap().iter().enumerate() {
        let (kind, arg) = step.as_object().unwrap().iter().next().unwrap();
        let out = match kind.as_str() {
            "ingest" => {
                let mut tables = HashMap::new();
                for (tname, cols) in arg.as_object().unwrap() {
                    let mut cs = HashMap::new();
                    for (cname, c) in cols.as_object().unwrap() { cs.insert(cname.clone(), column(c)); }
                    let r = catch_unwind(AssertUnwindSafe(|| TableBuffer::new(cs)));
                    match r { Ok(tb) => { tables.insert(tname.clone(), tb); } Err(_) => { println!("VERIF-API: {}", json!({"step": i, "kind": kind, "outcome": "panic-in-client"})); } }
                }
                let r = catch_unwind(AssertUnwindSafe(|| block_on(db.as_ref().unwrap().ingest_efficient(EventBuffer { tables }))));
                json!({"outcome": if r.is_ok() { "ok" } else { "panic" }})
            }
            "flush" => {
                // watchdog: a flush whose worker died never returns
                let (tx, rx) = mpsc::channel();
                let dbptr = db.as_ref().unwrap() as *const LocustDB as usize;
                std::thread::spawn(move || {
                    let dbref: &LocustDB = unsafe { &*(dbptr as *const LocustDB) };
                    let r = catch_unwind(AssertUnwindSafe(|| dbref.force_flush()));
                    let _ = tx.send(r.is_ok());
                });
                match rx.recv_timeout(Duration::from_secs(30)) {
                    Ok(true) => json!({"outcome": "ok"}),
                    Ok(false) => json!({"outcome": "panic"}),
                    Err(_) => json!({"outcome": "no-answer-within-30s"}),
                }
            }
            "evict" => { let r = catch_unwind(AssertUnwindSafe(|| db.as_ref().unwrap().evict_cache())); json!({"outcome": if r.is_ok() { "ok" } else { "panic" }}) }
            "restart" => { drop(db.take()); db = Some(make_db(&opts, &path)); json!({"outcome": "ok"}) }
            "explain" => {
                let q = arg.as_str().unwrap().to_string();
                let r = catch_unwind(AssertUnwindSafe(|| block_on(db.as_ref().unwrap().run_query(&q, true, true, vec![]))));
                match r {
                    Ok(Ok(res)) => json!({"outcome": "ok", "plans": res.query_plans.keys().cloned().collect::<Vec<_>>()}),
                    Ok(Err(e)) => json!({"outcome": "error", "error": format!("{:?}", e)}),
                    Err(_) => json!({"outcome": "panic-in-caller"}),
                }
            }
            "query" => {
                // run with a watchdog: a query that never completes is an outcome, not a hang of the replay
                let q = arg.as_str().unwrap().to_string();
                let (tx, rx) = mpsc::channel();
                let dbref: &LocustDB = db.as_ref().unwrap();
                let dbptr = dbref as *const LocustDB as usize;
                std::thread::spawn(move || {
                    let dbref: &LocustDB = unsafe { &*(dbptr as *const LocustDB) };
                    let r = catch_unwind(AssertUnwindSafe(|| block_on(dbref.run_query(&q, false, true, vec![]))));
                    let _ = tx.send(match r {
                        Err(_) => json!({"outcome": "panic-in-caller"}),
                        Ok(Err(e)) => json!({"outcome": "error", "error": format!("{:?}", e)}),
                        Ok(Ok(res)) => json!({"outcome": "ok", "colnames": res.colnames,
                            "rows": res.rows.as_ref().map(|rows| rows.iter().map(|r| r.iter().map(val_json).collect::<Vec<_>>()).collect::<Vec<_>>()),
                            "columns": res.columns.iter().map(|(n, c)| json!([n, match c {
                                locustdb::BasicTypeColumn::Int(v) => json!({"Int": v.iter().map(|x| format!("i:{}", x)).collect::<Vec<_>>()}),
                                locustdb::BasicTypeColumn::Float(v) => json!({"Float": v.iter().map(|x| format!("fbits:{}", x.to_bits())).collect::<Vec<_>>()}),
                                locustdb::BasicTypeColumn::String(v) => json!({"String": v}),
                                locustdb::BasicTypeColumn::Null(k) => json!({"Null": k}),
                                locustdb::BasicTypeColumn::Mixed(v) => json!({"Mixed": v.iter().map(val_json).collect::<Vec<_>>()}),
                            }])).collect::<Vec<_>>()}),
                    });
                });
                match rx.recv_timeout(Duration::from_secs(30)) { Ok(j) => j, Err(_) => json!({"outcome": "no-answer-within-30s"}) }
            }
            k => panic!("unknown step {}", k),
        };
        let mut o = out; o["step"] = json!(i); o["kind"] = json!(kind);
        println!("VERIF-API: {}", o);
    }
    std::mem::forget(db);
}
