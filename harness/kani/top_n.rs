// Kani harnesses injected as a child of src/engine/operators/top_n.rs (private fn heap_replace)
#![allow(unused_imports, dead_code, non_snake_case)]
#[cfg(not(kani))]
use crate::verif_shim as kani;
use super::heap_replace;
use crate::engine::operators::comparator::{CmpGreaterThan, CmpLessThan, Comparator};

// C05.b  heap_replace on an arbitrary valid heap: heap property kept, multiset = old - root + new key,
//        the `values` (row indices) travel with their keys.  "Heap under C": no child sorts-before... the root is the
//        element that sorts LAST under C among the kept n (so that it is the one to evict).
macro_rules! c05b_heap {
    ($name:ident, $t:ty, $c:ty, $n:expr, $unw:expr) => {
        #[cfg_attr(kani, kani::proof)]
        #[cfg_attr(kani, kani::unwind($unw))]
        pub fn $name() {
            const N: usize = $n;
            let mut keys: [$t; N] = kani::any();
            let mut vals: [usize; N] = [0; N];
            // values encode their key so that "values follow keys" is checkable: val = key as usize * 16 + original slot
            let mut i = 0;
            while i < N { vals[i] = (keys[i] as usize) * 16 + i; i += 1; }
            // precondition: valid heap (parent never sorts strictly before its child)
            let mut i = 1;
            while i < N { kani::assume(!<$c as Comparator<$t>>::cmp(keys[(i - 1) / 2], keys[i])); i += 1; }
            let key: $t = kani::any();
            // TopN::execute only calls heap_replace when the new key sorts strictly before the current root
            kani::assume(<$c as Comparator<$t>>::cmp(key, keys[0]));
            let old = keys;
            let newval = (key as usize) * 16 + 15;
            heap_replace::<$t, $c>(&mut keys, &mut vals, key, newval, 0);
            // heap property preserved
            let mut i = 1;
            while i < N { assert!(!<$c as Comparator<$t>>::cmp(keys[(i - 1) / 2], keys[i])); i += 1; }
            // values follow keys
            let mut i = 0;
            while i < N { assert!(vals[i] / 16 == keys[i] as usize); i += 1; }
            // multiset: every distinct payload (slot id) of old[1..] still present exactly once, slot 15 (new) present once, old root gone
            let mut seen_new = 0;
            let mut i = 0;
            while i < N { if vals[i] % 16 == 15 { seen_new += 1; assert!(keys[i] == key); } i += 1; }
            assert!(seen_new == 1);
            let mut s = 1;
            while s < N {
                let mut cnt = 0;
                let mut i = 0;
                while i < N { if vals[i] % 16 == s { cnt += 1; assert!(keys[i] == old[s]); } i += 1; }
                assert!(cnt == 1);
                s += 1;
            }
            let mut i = 0;
            while i < N { assert!(vals[i] % 16 != 0); i += 1; }
            kani::cover!(keys[0] != key, "new key sifted below the root");
        }
    };
}
c05b_heap!(c05b__heap_replace__u8_lt_3, u8, CmpLessThan, 3, 5);
c05b_heap!(c05b__heap_replace__u8_gt_3, u8, CmpGreaterThan, 3, 5);
c05b_heap!(c05b__heap_replace__u8_lt_7, u8, CmpLessThan, 7, 9);
c05b_heap!(c05b__heap_replace__u8_gt_6, u8, CmpGreaterThan, 6, 8);
c05b_heap!(c05b__heap_replace__u8_lt_2, u8, CmpLessThan, 2, 4);
