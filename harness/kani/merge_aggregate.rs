// Kani harnesses injected as a child of src/engine/operators/merge_aggregate.rs (private trait Combinable)
#![allow(unused_imports, dead_code, non_snake_case)]
#[cfg(not(kani))]
use crate::verif_shim as kani;
use super::Combinable;
use crate::engine::{Aggregator, I64_NULL, F64_NULL, of64};
use crate::errors::QueryError;
use ordered_float::OrderedFloat;
extern crate alloc;

// error paths build their message with format!; formatting is not the subject
pub fn stub_format(_args: std::fmt::Arguments<'_>) -> String { String::new() }

// C04.b / C06.c  cross-partition combine of two partial aggregates where NULL is a separate value.
// The kernel encodes NULL in-band as i64::MAX; the value domain of partials excludes that marker (properties C01/C06),
// so the reference is: NULL (+) x = x, x (+) NULL = x, otherwise the exact combine or an overflow error.
#[cfg_attr(kani, kani::proof)]
#[cfg_attr(kani, kani::stub(alloc::fmt::format, stub_format))]
pub fn c04b__combine_i64() {
    let a: i64 = kani::any();
    let b: i64 = kani::any();
    let an = a == I64_NULL;
    let bn = b == I64_NULL;
    // SUM
    let r = <i64 as Combinable<i64>>::combine(Aggregator::SumI64, a, b);
    if an { assert!(matches!(r, Ok(x) if x == b)); }
    else if bn { assert!(matches!(r, Ok(x) if x == a)); }
    else {
        let exact = a as i128 + b as i128;
        if exact > i64::MAX as i128 || exact < i64::MIN as i128 { assert!(matches!(r, Err(QueryError::Overflow))); }
        else { assert!(matches!(r, Ok(x) if x as i128 == exact)); }
    }
    // MAX / MIN
    std::mem::forget(r);
    let r = <i64 as Combinable<i64>>::combine(Aggregator::MaxI64, a, b);
    let want = if an { b } else if bn { a } else if a >= b { a } else { b };
    assert!(matches!(r, Ok(x) if x == want));
    std::mem::forget(r);
    let r = <i64 as Combinable<i64>>::combine(Aggregator::MinI64, a, b);
    let want = if an { b } else if bn { a } else if a <= b { a } else { b };
    assert!(matches!(r, Ok(x) if x == want));
    std::mem::forget(r);
    kani::cover!(an && !bn, "NULL partial on the left reachable");
    kani::cover!(!an && !bn && (a as i128 + b as i128) > i64::MAX as i128, "overflowing partial sums reachable");
}

#[cfg_attr(kani, kani::proof)]
#[cfg_attr(kani, kani::stub(alloc::fmt::format, stub_format))]
pub fn c04b__combine_count() {
    let a: i64 = kani::any();
    let b: i64 = kani::any();
    // counts are row counts: 0 <= c < 2^62 (never the NULL marker)
    kani::assume(a >= 0 && b >= 0 && a < (1 << 62) && b < (1 << 62));
    let r = <i64 as Combinable<i64>>::combine(Aggregator::Count, a, b);
    assert!(matches!(r, Ok(x) if x == a + b));
    std::mem::forget(r);
    kani::cover!(a > 0 && b > 0, "non-trivial reachable");
}

#[cfg_attr(kani, kani::proof)]
#[cfg_attr(kani, kani::stub(alloc::fmt::format, stub_format))]
pub fn c04b__combine_f64() {
    let a = f64::from_bits(kani::any::<u64>());
    let b = f64::from_bits(kani::any::<u64>());
    // value domain: non-NaN floats, or exactly the NULL marker
    let an = a.to_bits() == F64_NULL.to_bits();
    let bn = b.to_bits() == F64_NULL.to_bits();
    kani::assume(an || !a.is_nan());
    kani::assume(bn || !b.is_nan());
    let (x, y): (of64, of64) = (OrderedFloat(a), OrderedFloat(b));
    let r = <of64 as Combinable<of64>>::combine(Aggregator::MaxF64, x, y);
    let want = if an { b } else if bn { a } else if a >= b { a } else { b };
    assert!(matches!(r, Ok(v) if v.0.to_bits() == want.to_bits() || (v.0 == want && v.0 == 0.0)));
    std::mem::forget(r);
    let r = <of64 as Combinable<of64>>::combine(Aggregator::MinF64, x, y);
    let want = if an { b } else if bn { a } else if a <= b { a } else { b };
    assert!(matches!(r, Ok(v) if v.0.to_bits() == want.to_bits() || (v.0 == want && v.0 == 0.0)));
    // SUM: finite partial sums (inf + -inf = NaN is IEEE behaviour, not the engine's; stated bound)
    kani::assume((an || a.is_finite()) && (bn || b.is_finite()));
    std::mem::forget(r);
    let r = <of64 as Combinable<of64>>::combine(Aggregator::SumF64, x, y);
    if an { assert!(matches!(r, Ok(v) if v.0.to_bits() == b.to_bits())); }
    else if bn { assert!(matches!(r, Ok(v) if v.0.to_bits() == a.to_bits())); }
    else { assert!(matches!(r, Ok(v) if v.0 == a + b)); }
    std::mem::forget(r);
    kani::cover!(an && !bn, "NULL partial reachable");
    kani::cover!(!an && !bn && a < b, "ordered partials reachable");
}
