// Kani harnesses injected as a child module of src/engine/operators/mod.rs (scratch copy only).
// One #[kani::proof] per concrete instantiation; names: <obligation>__<kernel>__<types>.
#![allow(unused_imports, dead_code, non_snake_case)]
#[cfg(not(kani))]
use crate::verif_shim as kani;
use super::binary_operator::{BinaryOp, CheckedBinaryOp};
use super::numeric_operators::{Addition, Division, Modulo, Multiplication, Subtraction};

// ---------------------------------------------------------------------------------------------
// C06.a  CheckedBinaryOp::perform_checked  vs. exact i128 arithmetic
//   !flag  =>  result == exact            (never a wrapped / truncated value without the flag)
//   exact not representable in i64 => flag
//   rhs == 0 (div, mod) => flag
//   flag => (exact not in i64) or rhs == 0 or exact == i64::MAX (the reserved NULL marker)   [no spurious error]
//   no panic for any operands (Kani checks arithmetic-overflow / division panics of the dev profile)
// ---------------------------------------------------------------------------------------------
macro_rules! c06a_addsubmul {
    ($name:ident, $op:ty, $l:ty, $r:ty, $exact:expr) => {
        #[cfg_attr(kani, kani::proof)]
        pub fn $name() {
            let l: $l = kani::any();
            let r: $r = kani::any();
            let (res, flag) = <$op as CheckedBinaryOp<$l, $r, i64>>::perform_checked(l, r);
            let f: fn(i128, i128) -> i128 = $exact;
            let exact: i128 = f(l as i128, r as i128);
            let fits = exact >= i64::MIN as i128 && exact <= i64::MAX as i128;
            if !flag { assert!(res as i128 == exact); }
            if !fits { assert!(flag); }
            if flag { assert!(!fits); }
            kani::cover!(flag || (std::mem::size_of::<$l>() < 8 && std::mem::size_of::<$r>() < 8), "overflow flag reachable (when an i64 operand is involved)");
            kani::cover!(!flag, "non-overflow reachable");
        }
    };
}

macro_rules! c06a_div {
    ($name:ident, $l:ty, $r:ty) => {
        #[cfg_attr(kani, kani::proof)]
        pub fn $name() {
            let l: $l = kani::any();
            let r: $r = kani::any();
            let (res, flag) = <Division<$l, $r> as CheckedBinaryOp<$l, $r, i64>>::perform_checked(l, r);
            let (l, r) = (l as i128, r as i128);
            if r == 0 { assert!(flag); }
            if !flag {
                assert!(r != 0);
                // res is the truncated quotient: l = res*r + rem, |rem| < |r|, sign(rem) = sign(l)
                let rem = l - (res as i128) * r;
                let ar = if r < 0 { -r } else { r };
                let arem = if rem < 0 { -rem } else { rem };
                assert!(arem < ar);
                assert!(rem == 0 || (rem < 0) == (l < 0));
            }
            if flag {
                // only legal reasons: division by zero, or a quotient outside the value domain
                // (i64::MAX is the reserved NULL marker; -(i64::MIN) does not fit at all)
                assert!(r == 0 || (r == -1 && l <= -(i64::MAX as i128)));
            }
            kani::cover!(flag, "error flag reachable");
            kani::cover!(!flag && rem_nonzero(l, r), "inexact division reachable");
        }
    };
}
fn rem_nonzero(l: i128, r: i128) -> bool { r != 0 && l % r != 0 }

macro_rules! c06a_mod {
    ($name:ident, $l:ty, $r:ty) => {
        #[cfg_attr(kani, kani::proof)]
        pub fn $name() {
            let l: $l = kani::any();
            let r: $r = kani::any();
            let (res, flag) = <Modulo<$l, $r> as CheckedBinaryOp<$l, $r, i64>>::perform_checked(l, r);
            let (l, r) = (l as i128, r as i128);
            assert!(flag == (r == 0));
            if !flag {
                // res is the remainder of truncated division: |res| < |r|, sign follows l, r divides l - res
                let res = res as i128;
                let ar = if r < 0 { -r } else { r };
                let ares = if res < 0 { -res } else { res };
                assert!(ares < ar);
                assert!(res == 0 || (res < 0) == (l < 0));
                let al = if l < 0 { -l } else { l };
                assert!(ares <= al);
            }
            kani::cover!(flag, "mod by zero reachable");
            kani::cover!(!flag && l != 0, "non-trivial remainder reachable");
        }
    };
}

// exactness of the remainder through a solver-chosen witness quotient (one multiplier instead of a second divider):
//   for all l, r != 0, q, m0:  q*r + m0 == l  and  |m0| < |r|  and  sign(m0) in {0, sign(l)}   ==>   perform_checked(l, r) == (m0, false)
macro_rules! c06a_mod_exact {
    ($name:ident, $l:ty, $r:ty) => {
        #[cfg_attr(kani, kani::proof)]
        pub fn $name() {
            let l: $l = kani::any();
            let r: $r = kani::any();
            let q: i64 = kani::any();
            let m0: i64 = kani::any();
            let (li, ri) = (l as i64, r as i64);
            kani::assume(ri != 0);
            // |m0| < |r| and sign(m0) in {0, sign(l)} without leaving i64: compare in the negative half
            let nr = if ri > 0 { -ri } else { ri };
            let nm = if m0 > 0 { -m0 } else { m0 };
            kani::assume(nm > nr);
            kani::assume(m0 == 0 || (m0 < 0) == (li < 0));
            // q*r + m0 == l with every intermediate representable (true for the real quotient: |q*r| <= |l|)
            let (p, o1) = q.overflowing_mul(ri);
            kani::assume(!o1);
            let (s, o2) = p.overflowing_add(m0);
            kani::assume(!o2 && s == li);
            let (m, mf) = <Modulo<$l, $r> as CheckedBinaryOp<$l, $r, i64>>::perform_checked(l, r);
            assert!(!mf);
            assert!(m == m0);
            kani::cover!(m0 != 0 && q != 0, "non-trivial quotient and remainder reachable");
        }
    };
}

fn ex_add(a: i128, b: i128) -> i128 { a + b }
fn ex_sub(a: i128, b: i128) -> i128 { a - b }
fn ex_mul(a: i128, b: i128) -> i128 { a * b }


// (no `paste` crate available: names are spelled out)
macro_rules! c06a_inst {
    ($add:ident, $sub:ident, $mul:ident, $div:ident, $mo:ident, $l:ty, $r:ty) => {
        c06a_addsubmul!($add, Addition<$l, $r>, $l, $r, ex_add);
        c06a_addsubmul!($sub, Subtraction<$l, $r>, $l, $r, ex_sub);
        c06a_addsubmul!($mul, Multiplication<$l, $r, i64>, $l, $r, ex_mul);
        c06a_div!($div, $l, $r);
        c06a_mod!($mo, $l, $r);
    };
}

c06a_inst!(c06a__add__i64_i64, c06a__sub__i64_i64, c06a__mul__i64_i64, c06a__div__i64_i64, c06a__mod__i64_i64, i64, i64);
c06a_inst!(c06a__add__i64_u8,  c06a__sub__i64_u8,  c06a__mul__i64_u8,  c06a__div__i64_u8,  c06a__mod__i64_u8,  i64, u8);
c06a_inst!(c06a__add__i64_u16, c06a__sub__i64_u16, c06a__mul__i64_u16, c06a__div__i64_u16, c06a__mod__i64_u16, i64, u16);
c06a_inst!(c06a__add__i64_u32, c06a__sub__i64_u32, c06a__mul__i64_u32, c06a__div__i64_u32, c06a__mod__i64_u32, i64, u32);
c06a_inst!(c06a__add__u8_i64,  c06a__sub__u8_i64,  c06a__mul__u8_i64,  c06a__div__u8_i64,  c06a__mod__u8_i64,  u8, i64);
c06a_inst!(c06a__add__u16_i64, c06a__sub__u16_i64, c06a__mul__u16_i64, c06a__div__u16_i64, c06a__mod__u16_i64, u16, i64);
c06a_inst!(c06a__add__u32_i64, c06a__sub__u32_i64, c06a__mul__u32_i64, c06a__div__u32_i64, c06a__mod__u32_i64, u32, i64);
c06a_inst!(c06a__add__u8_u8,   c06a__sub__u8_u8,   c06a__mul__u8_u8,   c06a__div__u8_u8,   c06a__mod__u8_u8,   u8, u8);
c06a_inst!(c06a__add__u8_u16,  c06a__sub__u8_u16,  c06a__mul__u8_u16,  c06a__div__u8_u16,  c06a__mod__u8_u16,  u8, u16);
c06a_inst!(c06a__add__u8_u32,  c06a__sub__u8_u32,  c06a__mul__u8_u32,  c06a__div__u8_u32,  c06a__mod__u8_u32,  u8, u32);
c06a_inst!(c06a__add__u16_u8,  c06a__sub__u16_u8,  c06a__mul__u16_u8,  c06a__div__u16_u8,  c06a__mod__u16_u8,  u16, u8);
c06a_inst!(c06a__add__u16_u16, c06a__sub__u16_u16, c06a__mul__u16_u16, c06a__div__u16_u16, c06a__mod__u16_u16, u16, u16);
c06a_inst!(c06a__add__u16_u32, c06a__sub__u16_u32, c06a__mul__u16_u32, c06a__div__u16_u32, c06a__mod__u16_u32, u16, u32);
c06a_inst!(c06a__add__u32_u8,  c06a__sub__u32_u8,  c06a__mul__u32_u8,  c06a__div__u32_u8,  c06a__mod__u32_u8,  u32, u8);
c06a_inst!(c06a__add__u32_u16, c06a__sub__u32_u16, c06a__mul__u32_u16, c06a__div__u32_u16, c06a__mod__u32_u16, u32, u16);
c06a_inst!(c06a__add__u32_u32, c06a__sub__u32_u32, c06a__mul__u32_u32, c06a__div__u32_u32, c06a__mod__u32_u32, u32, u32);

c06a_mod_exact!(c06a__mod_exact__u8_u8, u8, u8);
c06a_mod_exact!(c06a__mod_exact__u16_u16, u16, u16);
c06a_mod_exact!(c06a__mod_exact__u8_i64, u8, i64);

// ---------------------------------------------------------------------------------------------
// C03.a  comparison kernels vs. mathematical comparison of the (zero-/sign-extended) operands
// ---------------------------------------------------------------------------------------------
use super::comparison_operators::{BoolAnd, BoolOr, Equals, LessThan, LessThanEquals, NotEquals};
use crate::engine::of64;
use ordered_float::OrderedFloat;

macro_rules! c03a_cmp {
    ($name:ident, $t:ty, $u:ty) => {
        #[cfg_attr(kani, kani::proof)]
        pub fn $name() {
            let t: $t = kani::any();
            let u: $u = kani::any();
            let (a, b) = (t as i128, u as i128);
            assert!(<LessThan as BinaryOp<$t, $u, u8>>::perform(t, u) == (a < b) as u8);
            assert!(<LessThanEquals as BinaryOp<$t, $u, u8>>::perform(t, u) == (a <= b) as u8);
            assert!(<Equals as BinaryOp<$t, $u, u8>>::perform(t, u) == (a == b) as u8);
            assert!(<NotEquals as BinaryOp<$t, $u, u8>>::perform(t, u) == (a != b) as u8);
            kani::cover!(a < b, "lt reachable");
            kani::cover!(a == b, "eq reachable");
            kani::cover!(a > b, "gt reachable");
        }
    };
}
c03a_cmp!(c03a__cmp__u8_u8, u8, u8);
c03a_cmp!(c03a__cmp__u16_u16, u16, u16);
c03a_cmp!(c03a__cmp__u32_u32, u32, u32);
c03a_cmp!(c03a__cmp__i64_i64, i64, i64);
c03a_cmp!(c03a__cmp__u8_u16, u8, u16);
c03a_cmp!(c03a__cmp__u8_u32, u8, u32);
c03a_cmp!(c03a__cmp__u8_i64, u8, i64);
c03a_cmp!(c03a__cmp__u16_u8, u16, u8);
c03a_cmp!(c03a__cmp__u16_u32, u16, u32);
c03a_cmp!(c03a__cmp__u16_i64, u16, i64);
c03a_cmp!(c03a__cmp__u32_u8, u32, u8);
c03a_cmp!(c03a__cmp__u32_u16, u32, u16);
c03a_cmp!(c03a__cmp__u32_i64, u32, i64);
c03a_cmp!(c03a__cmp__i64_u8, i64, u8);
c03a_cmp!(c03a__cmp__i64_u16, i64, u16);
c03a_cmp!(c03a__cmp__i64_u32, i64, u32);

// total order used by the engine for floats: numeric order, -0.0 == +0.0, every NaN equal to every NaN and above +inf
fn ref_f64_lt(a: f64, b: f64) -> bool { if a.is_nan() { false } else if b.is_nan() { true } else { a < b } }
fn ref_f64_eq(a: f64, b: f64) -> bool { (a.is_nan() && b.is_nan()) || a == b }

#[cfg_attr(kani, kani::proof)]
pub fn c03a__cmp__of64() {
    let a = f64::from_bits(kani::any::<u64>());
    let b = f64::from_bits(kani::any::<u64>());
    let (x, y): (of64, of64) = (OrderedFloat(a), OrderedFloat(b));
    assert!(<LessThan as BinaryOp<of64, of64, u8>>::perform(x, y) == ref_f64_lt(a, b) as u8);
    assert!(<LessThanEquals as BinaryOp<of64, of64, u8>>::perform(x, y) == (ref_f64_lt(a, b) || ref_f64_eq(a, b)) as u8);
    assert!(<Equals as BinaryOp<of64, of64, u8>>::perform(x, y) == ref_f64_eq(a, b) as u8);
    assert!(<NotEquals as BinaryOp<of64, of64, u8>>::perform(x, y) == !ref_f64_eq(a, b) as u8);
    kani::cover!(a.is_nan() && !b.is_nan(), "NaN operand reachable");
    kani::cover!(a < b, "lt reachable");
}

#[cfg_attr(kani, kani::proof)]
pub fn c03a__bool_and_or() {
    // predicate bytes are 0/1 (every comparison kernel above returns `bool as u8`)
    let l: u8 = kani::any();
    let r: u8 = kani::any();
    kani::assume(l <= 1 && r <= 1);
    assert!(<BoolAnd as BinaryOp<u8, u8, u8>>::perform(l, r) == ((l != 0) && (r != 0)) as u8);
    assert!(<BoolOr as BinaryOp<u8, u8, u8>>::perform(l, r) == ((l != 0) || (r != 0)) as u8);
    kani::cover!(l == 1 && r == 0, "mixed operands reachable");
}

// ---------------------------------------------------------------------------------------------
// C04.a  accumulation kernels vs. i128 / IEEE reference
// ---------------------------------------------------------------------------------------------
use super::aggregate::{Aggregator as AggTrait, CheckedAggregator, Count, MaxF64, MaxI64, MinF64, MinI64, SumF64, SumI64};

macro_rules! c04a_sum_checked {
    ($name:ident, $t:ty) => {
        #[cfg_attr(kani, kani::proof)]
        pub fn $name() {
            let acc: i64 = kani::any();
            let v: $t = kani::any();
            let (res, flag) = <SumI64 as CheckedAggregator<$t, i64>>::accumulate_checked(acc, v);
            let exact = acc as i128 + v as i128;
            let fits = exact >= i64::MIN as i128 && exact <= i64::MAX as i128;
            assert!(flag == !fits);
            if !flag { assert!(res as i128 == exact); }
            let acc2: i64 = kani::any();
            let (res2, flag2) = <SumI64 as CheckedAggregator<$t, i64>>::combine_checked(acc, acc2);
            let exact2 = acc as i128 + acc2 as i128;
            let fits2 = exact2 >= i64::MIN as i128 && exact2 <= i64::MAX as i128;
            assert!(flag2 == !fits2);
            if !flag2 { assert!(res2 as i128 == exact2); }
            assert!(<SumI64 as AggTrait<$t, i64>>::unit() == 0);
            kani::cover!(flag, "overflow reachable");
            kani::cover!(!flag && v as i128 != 0, "plain accumulation reachable");
        }
    };
}
c04a_sum_checked!(c04a__sum_checked__u8, u8);
c04a_sum_checked!(c04a__sum_checked__u16, u16);
c04a_sum_checked!(c04a__sum_checked__u32, u32);
c04a_sum_checked!(c04a__sum_checked__i64, i64);

macro_rules! c04a_minmax {
    ($name:ident, $t:ty) => {
        #[cfg_attr(kani, kani::proof)]
        pub fn $name() {
            let acc: i64 = kani::any();
            let v: $t = kani::any();
            let vi = v as i64;
            let mx = <MaxI64 as AggTrait<$t, i64>>::accumulate(acc, v);
            let mn = <MinI64 as AggTrait<$t, i64>>::accumulate(acc, v);
            assert!(mx == if acc >= vi { acc } else { vi });
            assert!(mn == if acc <= vi { acc } else { vi });
            // unit is the identity of accumulate (so that the first row of a group decides)
            assert!(<MaxI64 as AggTrait<$t, i64>>::accumulate(<MaxI64 as AggTrait<$t, i64>>::unit(), v) == vi);
            assert!(<MinI64 as AggTrait<$t, i64>>::accumulate(<MinI64 as AggTrait<$t, i64>>::unit(), v) == vi);
            let acc2: i64 = kani::any();
            assert!(<MaxI64 as AggTrait<$t, i64>>::combine(acc, acc2) == if acc >= acc2 { acc } else { acc2 });
            assert!(<MinI64 as AggTrait<$t, i64>>::combine(acc, acc2) == if acc <= acc2 { acc } else { acc2 });
            kani::cover!(acc < vi, "new maximum reachable");
            kani::cover!(acc > vi, "new minimum reachable");
        }
    };
}
c04a_minmax!(c04a__minmax__u8, u8);
c04a_minmax!(c04a__minmax__u16, u16);
c04a_minmax!(c04a__minmax__u32, u32);
c04a_minmax!(c04a__minmax__i64, i64);

#[cfg_attr(kani, kani::proof)]
pub fn c04a__count() {
    let acc: u32 = kani::any();
    let v: i64 = kani::any();
    // bound: a group of fewer than 2^32-1 rows (u32 counter; 4G rows in one partition is outside the claim)
    kani::assume(acc < u32::MAX);
    assert!(<Count as AggTrait<i64, u32>>::accumulate(acc, v) == acc + 1);
    assert!(<Count as AggTrait<u8, u32>>::accumulate(acc, 0u8) == acc + 1);
    assert!(<Count as AggTrait<i64, u32>>::unit() == 0);
    let acc2: u32 = kani::any();
    kani::assume(acc as u64 + acc2 as u64 <= u32::MAX as u64);
    assert!(<Count as AggTrait<i64, u32>>::combine(acc, acc2) as u64 == acc as u64 + acc2 as u64);
    kani::cover!(acc > 0 && acc2 > 0, "non-trivial combine reachable");
}

#[cfg_attr(kani, kani::proof)]
pub fn c04a__minmax_f64() {
    // value domain: every f64 except NaN (NaN payloads are the engine's NULL marker and never reach an accumulator
    // of a present row), *including* +-inf and -0.0
    let a = f64::from_bits(kani::any::<u64>());
    let v = f64::from_bits(kani::any::<u64>());
    kani::assume(!a.is_nan() && !v.is_nan());
    let mx = <MaxF64 as AggTrait<of64, of64>>::accumulate(OrderedFloat(a), OrderedFloat(v)).0;
    let mn = <MinF64 as AggTrait<of64, of64>>::accumulate(OrderedFloat(a), OrderedFloat(v)).0;
    assert!(mx == if a >= v { a } else { v });
    assert!(mn == if a <= v { a } else { v });
    // unit must be the identity: the maximum of a group {v} is v, for every v of the value domain
    let u_max = <MaxF64 as AggTrait<of64, of64>>::unit();
    let u_min = <MinF64 as AggTrait<of64, of64>>::unit();
    assert!(<MaxF64 as AggTrait<of64, of64>>::accumulate(u_max, OrderedFloat(v)).0 == v);
    assert!(<MinF64 as AggTrait<of64, of64>>::accumulate(u_min, OrderedFloat(v)).0 == v);
    // SUM: finite operands (inf + -inf = NaN is IEEE behaviour; stated bound)
    if a.is_finite() && v.is_finite() {
        let s = <SumF64 as AggTrait<of64, of64>>::accumulate(OrderedFloat(a), OrderedFloat(v)).0;
        assert!(s == a + v);
    }
    assert!(<SumF64 as AggTrait<of64, of64>>::unit().0 == 0.0);
    kani::cover!(v == f64::NEG_INFINITY, "-inf reachable");
    kani::cover!(a < v, "new maximum reachable");
}

// ---------------------------------------------------------------------------------------------
// C05.a  Comparator impls: cmp / cmp_eq / ordering mutually consistent, total, direction correct
// ---------------------------------------------------------------------------------------------
use super::comparator::{CmpGreaterThan, CmpLessThan, Comparator};
use std::cmp::Ordering;

macro_rules! c05a_cmp_int {
    ($name:ident, $t:ty) => {
        #[cfg_attr(kani, kani::proof)]
        pub fn $name() {
            let a: $t = kani::any();
            let b: $t = kani::any();
            assert!(<CmpLessThan as Comparator<$t>>::cmp(a, b) == (a < b));
            assert!(<CmpLessThan as Comparator<$t>>::cmp_eq(a, b) == (a <= b));
            assert!(<CmpLessThan as Comparator<$t>>::ordering(a, b) == if a < b { Ordering::Less } else if a == b { Ordering::Equal } else { Ordering::Greater });
            assert!(<CmpLessThan as Comparator<$t>>::is_less_than());
            assert!(<CmpGreaterThan as Comparator<$t>>::cmp(a, b) == (a > b));
            assert!(<CmpGreaterThan as Comparator<$t>>::cmp_eq(a, b) == (a >= b));
            assert!(<CmpGreaterThan as Comparator<$t>>::ordering(a, b) == if a > b { Ordering::Less } else if a == b { Ordering::Equal } else { Ordering::Greater });
            assert!(!<CmpGreaterThan as Comparator<$t>>::is_less_than());
            kani::cover!(a < b, "lt reachable");
            kani::cover!(a == b, "eq reachable");
        }
    };
}
c05a_cmp_int!(c05a__comparator__u8, u8);
c05a_cmp_int!(c05a__comparator__u16, u16);
c05a_cmp_int!(c05a__comparator__u32, u32);
c05a_cmp_int!(c05a__comparator__u64, u64);
c05a_cmp_int!(c05a__comparator__i64, i64);

#[cfg_attr(kani, kani::proof)]
pub fn c05a__comparator__of64() {
    let a = f64::from_bits(kani::any::<u64>());
    let b = f64::from_bits(kani::any::<u64>());
    let (x, y): (of64, of64) = (OrderedFloat(a), OrderedFloat(b));
    let lt = ref_f64_lt(a, b);
    let eq = ref_f64_eq(a, b);
    assert!(<CmpLessThan as Comparator<of64>>::cmp(x, y) == lt);
    assert!(<CmpLessThan as Comparator<of64>>::cmp_eq(x, y) == (lt || eq));
    assert!(<CmpLessThan as Comparator<of64>>::ordering(x, y) == if lt { Ordering::Less } else if eq { Ordering::Equal } else { Ordering::Greater });
    assert!(<CmpGreaterThan as Comparator<of64>>::cmp(x, y) == (!lt && !eq));
    assert!(<CmpGreaterThan as Comparator<of64>>::cmp_eq(x, y) == !lt);
    assert!(<CmpGreaterThan as Comparator<of64>>::ordering(x, y) == if lt { Ordering::Greater } else if eq { Ordering::Equal } else { Ordering::Less });
    kani::cover!(a.is_nan() && !b.is_nan(), "NaN (in-band NULL) reachable: sorts last ascending / first descending");
    kani::cover!(lt, "lt reachable");
}

fn ascii_str<'a>(buf: &'a [u8; 2], len: usize) -> &'a str {
    unsafe { std::str::from_utf8_unchecked(&buf[..len]) }
}

// Option<&str> sort keys (strings of <= 2 ASCII bytes; longer strings only repeat the byte-wise loop of str::cmp)
#[cfg_attr(kani, kani::proof)]
#[cfg_attr(kani, kani::unwind(4))]
pub fn c05a__comparator__opt_str() {
    let b1: [u8; 2] = kani::any();
    let b2: [u8; 2] = kani::any();
    let (l1, l2): (usize, usize) = (kani::any(), kani::any());
    kani::assume(l1 <= 2 && l2 <= 2 && b1[0] < 128 && b1[1] < 128 && b2[0] < 128 && b2[1] < 128);
    let (n1, n2): (bool, bool) = (kani::any(), kani::any());
    let x: Option<&str> = if n1 { None } else { Some(ascii_str(&b1, l1)) };
    let y: Option<&str> = if n2 { None } else { Some(ascii_str(&b2, l2)) };
    // reference: ascending = byte-wise string order, NULL after every value; descending = exact reverse
    let r: Ordering = match (x, y) {
        (Some(a), Some(b)) => a.as_bytes().cmp(b.as_bytes()),
        (Some(_), None) => Ordering::Less,
        (None, Some(_)) => Ordering::Greater,
        (None, None) => Ordering::Equal,
    };
    assert!(<CmpLessThan as Comparator<Option<&str>>>::ordering(x, y) == r);
    assert!(<CmpLessThan as Comparator<Option<&str>>>::cmp(x, y) == (r == Ordering::Less));
    assert!(<CmpLessThan as Comparator<Option<&str>>>::cmp_eq(x, y) == (r != Ordering::Greater));
    assert!(<CmpGreaterThan as Comparator<Option<&str>>>::cmp(x, y) == (r == Ordering::Greater));
    assert!(<CmpGreaterThan as Comparator<Option<&str>>>::cmp_eq(x, y) == (r != Ordering::Less));
    assert!(<CmpGreaterThan as Comparator<Option<&str>>>::ordering(x, y) == r.reverse());
    kani::cover!(n1 && !n2, "NULL vs value reachable");
    kani::cover!(!n1 && !n2 && l1 == 2 && l2 == 2 && b1[0] == b2[0] && b1[1] < b2[1], "second-byte decision reachable");
}

#[cfg_attr(kani, kani::proof)]
#[cfg_attr(kani, kani::unwind(4))]
pub fn c05a__comparator__str() {
    let b1: [u8; 2] = kani::any();
    let b2: [u8; 2] = kani::any();
    let (l1, l2): (usize, usize) = (kani::any(), kani::any());
    kani::assume(l1 <= 2 && l2 <= 2 && b1[0] < 128 && b1[1] < 128 && b2[0] < 128 && b2[1] < 128);
    let (x, y) = (ascii_str(&b1, l1), ascii_str(&b2, l2));
    let r = x.as_bytes().cmp(y.as_bytes());
    assert!(<CmpLessThan as Comparator<&str>>::ordering(x, y) == r);
    assert!(<CmpLessThan as Comparator<&str>>::cmp(x, y) == (r == Ordering::Less));
    assert!(<CmpLessThan as Comparator<&str>>::cmp_eq(x, y) == (r != Ordering::Greater));
    assert!(<CmpGreaterThan as Comparator<&str>>::ordering(x, y) == r.reverse());
    assert!(<CmpGreaterThan as Comparator<&str>>::cmp(x, y) == (r == Ordering::Greater));
    assert!(<CmpGreaterThan as Comparator<&str>>::cmp_eq(x, y) == (r != Ordering::Less));
    kani::cover!(r == Ordering::Less && l1 == 2, "lt reachable");
}

use crate::mem_store::Val;
fn any_val() -> Val<'static> {
    let k: u8 = kani::any();
    kani::assume(k < 4);
    match k {
        0 => Val::Null,
        1 => Val::Integer(kani::any()),
        2 => Val::Float(OrderedFloat(f64::from_bits(kani::any::<u64>()))),
        _ => Val::Bool(kani::any()),
    }
}

// Val sort keys restricted to Null/Integer/Float/Bool (Str delegates to str::cmp, covered above)
#[cfg_attr(kani, kani::proof)]
#[cfg_attr(kani, kani::unwind(2))]
pub fn c05a__comparator__val() {
    let x = any_val();
    let y = any_val();
    let asc = <CmpLessThan as Comparator<Val>>::ordering(x, y);
    let desc = <CmpGreaterThan as Comparator<Val>>::ordering(x, y);
    assert!(desc == asc.reverse());
    assert!(<CmpLessThan as Comparator<Val>>::cmp(x, y) == (asc == Ordering::Less));
    assert!(<CmpLessThan as Comparator<Val>>::cmp_eq(x, y) == (asc != Ordering::Greater));
    assert!(<CmpGreaterThan as Comparator<Val>>::cmp(x, y) == (asc == Ordering::Greater));
    assert!(<CmpGreaterThan as Comparator<Val>>::cmp_eq(x, y) == (asc != Ordering::Less));
    // antisymmetry + NULL last ascending
    assert!(<CmpLessThan as Comparator<Val>>::ordering(y, x) == asc.reverse());
    if let (Val::Null, Val::Integer(_)) = (x, y) { assert!(asc == Ordering::Greater); }
    if let (Val::Null, Val::Float(_)) = (x, y) { assert!(asc == Ordering::Greater); }
    if let (Val::Integer(a), Val::Integer(b)) = (x, y) { assert!(asc == a.cmp(&b)); }
    kani::cover!(matches!(x, Val::Null) && matches!(y, Val::Integer(_)), "NULL vs int reachable");
    kani::cover!(matches!(x, Val::Float(_)) && matches!(y, Val::Float(_)), "float vs float reachable");
}
