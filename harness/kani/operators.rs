// Kani harnesses injected as a child module of src/engine/operators/mod.rs (scratch copy only).
// One #[kani::proof] per concrete instantiation; names: <obligation>__<kernel>__<types>.
#![allow(unused_imports, dead_code, non_snake_case)]
#[cfg(not(kani))]
use crate::verif_shim as kani;
use super::binary_operator::{BinaryOp, CheckedBinaryOp};
use super::numeric_operators::{Addition, Division, Modulo, Multiplication, Subtraction};

// ---------------------------------------------------------------------------------------------
// C06.a  CheckedBinaryOp::perform_checked  vs. exact i128 arithmetic
//   !flag  =>  result == exact            (never a wrapped / truncated value without the flag)
//   exact not representable in i64 => flag
//   rhs == 0 (div, mod) => flag
//   flag => (exact not in i64) or rhs == 0 or exact == i64::MAX (the reserved NULL marker)   [no spurious error]
//   no panic for any operands (Kani checks arithmetic-overflow / division panics of the dev profile)
// ---------------------------------------------------------------------------------------------
macro_rules! c06a_addsubmul {
    ($name:ident, $op:ty, $l:ty, $r:ty, $exact:expr) => {
        #[cfg_attr(kani, kani::proof)]
        pub fn $name() {
            let l: $l = kani::any();
            let r: $r = kani::any();
            let (res, flag) = <$op as CheckedBinaryOp<$l, $r, i64>>::perform_checked(l, r);
            let f: fn(i128, i128) -> i128 = $exact;
            let exact: i128 = f(l as i128, r as i128);
            let fits = exact >= i64::MIN as i128 && exact <= i64::MAX as i128;
            if !flag { assert!(res as i128 == exact); }
            if !fits { assert!(flag); }
            if flag { assert!(!fits); }
            kani::cover!(flag || (std::mem::size_of::<$l>() < 8 && std::mem::size_of::<$r>() < 8), "overflow flag reachable (when an i64 operand is involved)");
            kani::cover!(!flag, "non-overflow reachable");
        }
    };
}

macro_rules! c06a_div {
    ($name:ident, $l:ty, $r:ty) => {
        #[cfg_attr(kani, kani::proof)]
        pub fn $name() {
            let l: $l = kani::any();
            let r: $r = kani::any();
            let (res, flag) = <Division<$l, $r> as CheckedBinaryOp<$l, $r, i64>>::perform_checked(l, r);
            let (l, r) = (l as i128, r as i128);
            if r == 0 { assert!(flag); }
            if !flag {
                assert!(r != 0);
                // res is the truncated quotient: l = res*r + rem, |rem| < |r|, sign(rem) = sign(l)
                let rem = l - (res as i128) * r;
                let ar = if r < 0 { -r } else { r };
                let arem = if rem < 0 { -rem } else { rem };
                assert!(arem < ar);
                assert!(rem == 0 || (rem < 0) == (l < 0));
            }
            if flag {
                // only legal reasons: division by zero, or a quotient outside the value domain
                // (i64::MAX is the reserved NULL marker; -(i64::MIN) does not fit at all)
                assert!(r == 0 || (r == -1 && l <= -(i64::MAX as i128)));
            }
            kani::cover!(flag, "error flag reachable");
            kani::cover!(!flag && rem_nonzero(l, r), "inexact division reachable");
        }
    };
}
fn rem_nonzero(l: i128, r: i128) -> bool { r != 0 && l % r != 0 }

macro_rules! c06a_mod {
    ($name:ident, $l:ty, $r:ty) => {
        #[cfg_attr(kani, kani::proof)]
        pub fn $name() {
            let l: $l = kani::any();
            let r: $r = kani::any();
            let (res, flag) = <Modulo<$l, $r> as CheckedBinaryOp<$l, $r, i64>>::perform_checked(l, r);
            let (l, r) = (l as i128, r as i128);
            assert!(flag == (r == 0));
            if !flag {
                // res is the remainder of truncated division: |res| < |r|, sign follows l, r divides l - res
                let res = res as i128;
                let ar = if r < 0 { -r } else { r };
                let ares = if res < 0 { -res } else { res };
                assert!(ares < ar);
                assert!(res == 0 || (res < 0) == (l < 0));
                let al = if l < 0 { -l } else { l };
                assert!(ares <= al);
            }
            kani::cover!(flag, "mod by zero reachable");
            kani::cover!(!flag && l != 0, "non-trivial remainder reachable");
        }
    };
}

// exactness of the remainder through a solver-chosen witness quotient (one multiplier instead of a second divider):
//   for all l, r != 0, q, m0:  q*r + m0 == l  and  |m0| < |r|  and  sign(m0) in {0, sign(l)}   ==>   perform_checked(l, r) == (m0, false)
macro_rules! c06a_mod_exact {
    ($name:ident, $l:ty, $r:ty) => {
        #[cfg_attr(kani, kani::proof)]
        pub fn $name() {
            let l: $l = kani::any();
            let r: $r = kani::any();
            let q: i64 = kani::any();
            let m0: i64 = kani::any();
            let (li, ri, qi, mi) = (l as i128, r as i128, q as i128, m0 as i128);
            kani::assume(ri != 0);
            let ar = if ri < 0 { -ri } else { ri };
            let am = if mi < 0 { -mi } else { mi };
            kani::assume(am < ar);
            kani::assume(mi == 0 || (mi < 0) == (li < 0));
            kani::assume(qi * ri + mi == li);
            let (m, mf) = <Modulo<$l, $r> as CheckedBinaryOp<$l, $r, i64>>::perform_checked(l, r);
            assert!(!mf);
            assert!(m == m0);
            kani::cover!(m0 != 0 && q != 0, "non-trivial quotient and remainder reachable");
        }
    };
}

fn ex_add(a: i128, b: i128) -> i128 { a + b }
fn ex_sub(a: i128, b: i128) -> i128 { a - b }
fn ex_mul(a: i128, b: i128) -> i128 { a * b }


// (no `paste` crate available: names are spelled out)
macro_rules! c06a_inst {
    ($add:ident, $sub:ident, $mul:ident, $div:ident, $mo:ident, $l:ty, $r:ty) => {
        c06a_addsubmul!($add, Addition<$l, $r>, $l, $r, ex_add);
        c06a_addsubmul!($sub, Subtraction<$l, $r>, $l, $r, ex_sub);
        c06a_addsubmul!($mul, Multiplication<$l, $r, i64>, $l, $r, ex_mul);
        c06a_div!($div, $l, $r);
        c06a_mod!($mo, $l, $r);
    };
}

c06a_inst!(c06a__add__i64_i64, c06a__sub__i64_i64, c06a__mul__i64_i64, c06a__div__i64_i64, c06a__mod__i64_i64, i64, i64);
c06a_inst!(c06a__add__i64_u8,  c06a__sub__i64_u8,  c06a__mul__i64_u8,  c06a__div__i64_u8,  c06a__mod__i64_u8,  i64, u8);
c06a_inst!(c06a__add__i64_u16, c06a__sub__i64_u16, c06a__mul__i64_u16, c06a__div__i64_u16, c06a__mod__i64_u16, i64, u16);
c06a_inst!(c06a__add__i64_u32, c06a__sub__i64_u32, c06a__mul__i64_u32, c06a__div__i64_u32, c06a__mod__i64_u32, i64, u32);
c06a_inst!(c06a__add__u8_i64,  c06a__sub__u8_i64,  c06a__mul__u8_i64,  c06a__div__u8_i64,  c06a__mod__u8_i64,  u8, i64);
c06a_inst!(c06a__add__u16_i64, c06a__sub__u16_i64, c06a__mul__u16_i64, c06a__div__u16_i64, c06a__mod__u16_i64, u16, i64);
c06a_inst!(c06a__add__u32_i64, c06a__sub__u32_i64, c06a__mul__u32_i64, c06a__div__u32_i64, c06a__mod__u32_i64, u32, i64);
c06a_inst!(c06a__add__u8_u8,   c06a__sub__u8_u8,   c06a__mul__u8_u8,   c06a__div__u8_u8,   c06a__mod__u8_u8,   u8, u8);
c06a_inst!(c06a__add__u8_u16,  c06a__sub__u8_u16,  c06a__mul__u8_u16,  c06a__div__u8_u16,  c06a__mod__u8_u16,  u8, u16);
c06a_inst!(c06a__add__u8_u32,  c06a__sub__u8_u32,  c06a__mul__u8_u32,  c06a__div__u8_u32,  c06a__mod__u8_u32,  u8, u32);
c06a_inst!(c06a__add__u16_u8,  c06a__sub__u16_u8,  c06a__mul__u16_u8,  c06a__div__u16_u8,  c06a__mod__u16_u8,  u16, u8);
c06a_inst!(c06a__add__u16_u16, c06a__sub__u16_u16, c06a__mul__u16_u16, c06a__div__u16_u16, c06a__mod__u16_u16, u16, u16);
c06a_inst!(c06a__add__u16_u32, c06a__sub__u16_u32, c06a__mul__u16_u32, c06a__div__u16_u32, c06a__mod__u16_u32, u16, u32);
c06a_inst!(c06a__add__u32_u8,  c06a__sub__u32_u8,  c06a__mul__u32_u8,  c06a__div__u32_u8,  c06a__mod__u32_u8,  u32, u8);
c06a_inst!(c06a__add__u32_u16, c06a__sub__u32_u16, c06a__mul__u32_u16, c06a__div__u32_u16, c06a__mod__u32_u16, u32, u16);
c06a_inst!(c06a__add__u32_u32, c06a__sub__u32_u32, c06a__mul__u32_u32, c06a__div__u32_u32, c06a__mod__u32_u32, u32, u32);

c06a_mod_exact!(c06a__mod_exact__u8_u8, u8, u8);
c06a_mod_exact!(c06a__mod_exact__u16_u16, u16, u16);
c06a_mod_exact!(c06a__mod_exact__u32_u32, u32, u32);
c06a_mod_exact!(c06a__mod_exact__i64_u8, i64, u8);
c06a_mod_exact!(c06a__mod_exact__u8_i64, u8, i64);
c06a_mod_exact!(c06a__mod_exact__i64_u32, i64, u32);
c06a_mod_exact!(c06a__mod_exact__i64_i64, i64, i64);
