// Kani harnesses injected as a child of src/lib.rs
#![allow(unused_imports, dead_code, non_snake_case)]
#[cfg(not(kani))]
use crate::verif_shim as kani;
use crate::bitvec::{BitVec, BitVecMut};

// C01.a  bitmap algebra on Vec<u8> / [u8]
fn mk(len: usize, init: [u8; 2]) -> Vec<u8> {
    let mut v: Vec<u8> = Vec::with_capacity(8);
    if len > 0 { v.push(init[0]); }
    if len > 1 { v.push(init[1]); }
    v
}

#[cfg_attr(kani, kani::proof)]
#[cfg_attr(kani, kani::unwind(6))]
pub fn c01a__bitvec_set() {
    let len: usize = kani::any();
    kani::assume(len <= 2);
    let mut v = mk(len, kani::any());
    let i: usize = kani::any();
    let j: usize = kani::any();
    kani::assume(i < 32 && j < 40);
    let before_j = v.is_set(j);
    let old_len = v.len();
    v.set(i);
    assert!(v.is_set(i));
    if j != i { assert!(v.is_set(j) == before_j); }
    assert!(v.len() == if (i >> 3) >= old_len { (i >> 3) + 1 } else { old_len });
    assert!(v[..].is_set(j) == v.is_set(j));
    // reading beyond the vector is "not set", never a panic
    assert!(!v.is_set(8 * v.len() + j));
    kani::cover!((i >> 3) >= old_len + 1, "set grows the bitmap by more than one byte");
    kani::cover!(i % 8 == 7 && j == i + 1, "byte boundary neighbour reachable");
}

#[cfg_attr(kani, kani::proof)]
#[cfg_attr(kani, kani::unwind(4))]
pub fn c01a__bitvec_unset() {
    let len: usize = kani::any();
    kani::assume(len <= 2);
    let mut w = mk(len, kani::any());
    let i: usize = kani::any();
    let j: usize = kani::any();
    kani::assume(i < 32 && j < 40);
    let before_j = w.is_set(j);
    let old_len = w.len();
    w.unset(i);
    assert!(!w.is_set(i));
    if j != i { assert!(w.is_set(j) == before_j); }
    assert!(w.len() == old_len);
    kani::cover!(before_j && j == i + 1 && i % 8 == 7, "neighbour across a byte boundary stays set");
}
