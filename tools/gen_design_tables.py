#!/opt/veriftools/pyvenv/bin/python3
"""prints the 'as built' obligation table (markdown) from the registry"""
import sys, os, json
sys.path.insert(0, os.path.dirname(os.path.dirname(os.path.abspath(__file__))))
from vlib.obligations import ALL
from collections import OrderedDict
byp = OrderedDict()
for o in ALL:
    byp.setdefault(o.prop, []).append(o)
for p, obs in sorted(byp.items()):
    print(f"\n#### {p}\n")
    print("| obligation | engine | tier | what is decided | bounds |")
    print("|---|---|---|---|---|")
    seen = set()
    for o in obs:
        # collapse instantiation families
        fam = o.id.rsplit("/", 1)[0] if o.engine == "kani" and o.id.count("/") >= 2 else o.id
        if fam in seen:
            continue
        seen.add(fam)
        n = sum(1 for x in obs if (x.id.rsplit("/", 1)[0] if x.engine == "kani" and x.id.count("/") >= 2 else x.id) == fam)
        nq = sum(1 for x in obs if (x.id.rsplit("/", 1)[0] if x.engine == "kani" and x.id.count("/") >= 2 else x.id) == fam and "quick" in x.tiers)
        tier = f"{nq} quick / {n} thorough" if n > 1 else ("quick+thorough" if "quick" in o.tiers else "thorough")
        name = fam + ("/*" if n > 1 else "")
        print(f"| {name} | {o.engine} | {tier} | {o.desc[:230]} | {o.bounds[:200]} |")
