#!/bin/bash
# runs every registered quick (or $1=thorough) check and prints one summary line per property
cd /verif
T=${1:-quick}
for p in $(python3 -c "import json;print(' '.join(c['property_id'] for c in json.load(open('MANIFEST.json'))['checks']))"); do
  s=$(date +%s); ./check $p --tier $T > /var/tmp/locustdb-verif/all_$p.log 2>&1; rc=$?
  echo "$p rc=$rc $(( $(date +%s)-s ))s $(grep -E 'discharged' /var/tmp/locustdb-verif/all_$p.log | tail -1 | sed 's/.*\] //')"
  grep -E "VIOLATION|INCONCLUSIVE" /var/tmp/locustdb-verif/all_$p.log | cut -c1-300
done
