#!/bin/bash
# usage: try_seed.sh <PROP> [seed dir]  — applies the seeded change to /repo, runs the property's quick check, reverts.
P=$1; S=${2:-/verif/seeded/$P}
cd /repo && git status --short | grep -v '^??' | head -3
git -C /repo apply $S/patch.diff || { echo "patch does not apply"; exit 9; }
cd /verif && ./check $P --no-evidence 2>&1 | grep -E "VIOLATION|INCONCLUSIVE|KNOWN|discharged" | cut -c1-400
echo "exit=${PIPESTATUS[0]}"
git -C /repo checkout -- . 
