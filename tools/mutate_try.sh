#!/bin/bash
# usage: mutate_try.sh <file under /repo> <perl -pe expr> <PROP> <only-substring>   — sanity check: one-line mutation, run the obligation, revert
F=$1; E=$2; P=$3; O=$4
cd /repo && git diff --quiet -- "$F" || { echo "file dirty"; exit 9; }
perl -0pi -e "$E" "/repo/$F"
git -C /repo diff --stat -- "$F" | tail -1
cd /verif && ./check $P --only "$O" --no-evidence 2>&1 | grep -E "VIOLATION|INCONCLUSIVE|KNOWN|discharged|^  " | cut -c1-420
git -C /repo checkout -- "$F"
