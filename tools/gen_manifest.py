#!/opt/veriftools/pyvenv/bin/python3
"""Regenerates /verif/MANIFEST.json from the obligation registry (vlib/obligations.py)."""
import json, sys, os
sys.path.insert(0, os.path.dirname(os.path.dirname(os.path.abspath(__file__))))
from vlib.obligations import ALL
from vlib.manifest_texts import TEXTS, NA_REASON

V = os.path.dirname(os.path.dirname(os.path.abspath(__file__)))
props = [json.loads(l) for l in open(os.path.join(V, 'properties.jsonl'))]
claimed = sorted({o.prop for o in ALL})
ENG = {"kani": "Kani/CBMC bounded model checking of the compiled crate (SAT)",
       "mirsym": "path-forking symbolic execution of rustc MIR with z3 (SMT), counterexamples replayed natively",
       "smt": "direct SMT-LIB queries generated from the MIR of the current tree (z3, cross-checked with cvc5)"}
checks = []
for p in claimed:
    engines = sorted({o.engine for o in ALL if o.prop == p})
    checks.append({"property_id": p, "quick_cmd": f"./check {p} --tier quick", "thorough_cmd": f"./check {p} --tier thorough",
                   "evidence_file": f"/verif/evidence/{p}.json",
                   "replay_cmd_template": "cat {path}   # replay artefact written by the check after it reproduced the model on the real build",
                   "engine": "+".join(engines),
                   "level_claimed": {"category": "model_checking", "text": TEXTS[p][0], "design_ref": TEXTS[p][1]},
                   "level_note": "Trusted base: rustc (MIR/codegen), Kani 0.68/CBMC 6.11/CaDiCaL, z3 (z3-solver 5.1.0 of the tooling venv; floating-point queries on a fresh solver, every model validated against its query), mirsym's MIR semantics and std models (validated per run by concrete differential runs against the real build), the reference oracles in /verif/vlib/specs and /verif/harness/kani. Cut third-party code (pco, lz4_flex, capnp runtime and generated accessors - modelled from the .capnp schemas -, hashbrown, regex, sqlparser, std sort) is assumed correct. Bounds are listed in the evidence file; nothing outside them is claimed.",
                   "technique": "solver-based checking of the real code: " + " and ".join(ENG[e] for e in engines)})
na = [{"property_id": p['id'], "reason": NA_REASON.get(p['id'], "obligations planned in DESIGN.md §3 are not built yet")} for p in props if p['id'] not in claimed]
m = {"version": 1, "setup_cmd": "./setup.sh",
     "hooks": {"guard": "kani / test (no hooks in /repo)",
               "enable": "none: harness modules are appended to a scratch copy of /repo's working tree as #[cfg(kani)] / #[cfg(test)] child modules (vlib/stage.py INJECT); /repo itself carries no hooks",
               "baseline_off_cmd": "cd /repo && cargo test --workspace --no-fail-fast --offline", "source_commits": [], "add_only": True},
     "engines": [{"name": "kani", "path": "/verif/vlib/kani.py", "serves_properties": sorted({o.prop for o in ALL if o.engine == 'kani'}),
                  "kind_free_text": "Kani 0.68 / CBMC 6.11 bounded model checking of the compiled crate; harnesses in /verif/harness/kani"},
                 {"name": "mirsym", "path": "/verif/vlib/mirsym", "serves_properties": sorted({o.prop for o in ALL if o.engine in ('mirsym', 'smt')}),
                  "kind_free_text": "path-forking symbolic executor over rustc -Zunpretty=mir text with z3; obligations in /verif/vlib/specs; native drivers in /verif/harness/native"}],
     "checks": checks,
     "notes": "exit 0 = all obligations of the tier discharged (or listed known findings); exit 1 + VIOLATION line = reproduced counterexample; exit 2 = inconclusive (build failure, timeout, unsupported construct, vacuity, non-reproducing model).",
     "not_applicable": na}
json.dump(m, open(os.path.join(V, 'MANIFEST.json'), 'w'), indent=1)
import jsonschema
jsonschema.validate(m, json.load(open('/root/.vp/MANIFEST.schema.json')))
print("claimed", claimed, "not applicable", [x['property_id'] for x in na])
