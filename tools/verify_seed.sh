#!/bin/bash
# usage: verify_seed.sh <seed dir containing patch.diff and seed_demo.rs>   (runs in the scratch worktree /tmp/wt_verify)
# Confirms: demo passes on the clean tree, fails with the patch; the existing suite still passes with the patch.
S=$1; W=/tmp/wt_verify
cd $W || exit 9
git checkout -q -- . ; rm -f tests/seed_demo.rs
cp $S/seed_demo.rs tests/seed_demo.rs
echo "== demo on clean tree"; cargo test --offline --test seed_demo 2>&1 | grep -E "^test result|^error" | head -5
git apply $S/patch.diff || { echo "PATCH DOES NOT APPLY"; exit 8; }
echo "== demo with patch"; cargo test --offline --test seed_demo 2>&1 | grep -E "^test result|^error|panicked" | head -8
mv tests/seed_demo.rs /tmp/seed_demo.rs.bak
# private network namespace: tests/ingestion_test.rs binds fixed ports and hangs or fails when another worktree runs it too
echo "== existing suite with patch"; unshare -n sh -c 'ip link set lo up && timeout 1500 cargo test --workspace --no-fail-fast --offline' 2>&1 | grep -E "^test result|FAILED|^error" | head -20
git checkout -q -- . ; rm -f tests/seed_demo.rs
