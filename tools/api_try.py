#!/opt/veriftools/pyvenv/bin/python3
"""usage: tools/api_try.py <scenario.json> [--release]   — drive the public API of /repo's current tree through harness/api/verif_api_replay.rs"""
import json, sys
sys.path.insert(0, "/verif")
from vlib import replay
spec = json.load(open(sys.argv[1]))
steps, raw = replay.api_replay(spec, release="--release" in sys.argv)
if steps is None:
    print(raw[-3000:])
else:
    for s in steps:
        print(json.dumps(s)[:int(__import__("os").environ.get("API_TRY_WIDTH","1500"))])
