#!/bin/bash
# Run once after a fresh restore (offline).  Nothing here decides anything: it only warms the dependency builds
# (repo toolchain: MIR dump + cfg(test) replay tree; Kani toolchain) in the scratch area so that the first check
# does not pay ~7 minutes of third-party compilation.  Every check re-stages /repo's current tree and rebuilds
# the crate itself; if this script is skipped the checks still work (just slower the first time).
cd "$(dirname "$0")"
export CARGO_NET_OFFLINE=true
/opt/veriftools/pyvenv/bin/python3 - <<'PY'
import sys, subprocess, os
sys.path.insert(0, '.')
from vlib import stage, replay, kani
try:
    stage.mir_dump(("main", "ser", "cu"))
except Exception as e:
    print("setup: MIR dump failed:", str(e)[:500])
try:
    tree = replay.stage_replay()
    env = dict(stage.ENV); env["CARGO_TARGET_DIR"] = replay.REPLAY_TARGET
    for extra in (["--lib"], ["--test", "verif_api_replay"]):
        r = subprocess.run(["cargo", "+" + stage.REPO_TOOLCHAIN, "test", "--offline", "--no-run"] + extra, cwd=tree, env=env,
                           capture_output=True, text=True)
        print("setup: replay build", extra, "rc", r.returncode, r.stderr[-300:] if r.returncode else "")
except Exception as e:
    print("setup: replay build failed:", str(e)[:500])
try:
    res, info = kani.run(["c03a__bool_and_or"], per_harness_timeout=120)
    print("setup: kani warm-up:", res["c03a__bool_and_or"].status, info.get("build_error"))
except Exception as e:
    print("setup: kani warm-up failed:", str(e)[:500])
PY
exit 0
