"""Native replay of solver models against the real build (repo toolchain, cfg(test) child modules injected
into a scratch copy).  A model is only ever reported after it reproduced here."""
import os
import re
import subprocess
import time

from . import stage
from .stage import log

REPLAY_TARGET = os.path.join(stage.SCRATCH, "target-mir")   # same toolchain/profile as the MIR dump: deps are shared
OUT_DIR = os.path.join(stage.VERIF, "out", "replays")


def module_path_of(target_rel):
    """src/engine/operators/mod.rs -> crate::engine::operators ; src/a/b.rs -> crate::a::b ; src/lib.rs -> crate"""
    p = target_rel
    assert p.startswith("src/")
    p = p[4:-3]
    parts = p.split("/")
    if parts[-1] in ("mod", "lib"):
        parts = parts[:-1]
    return "::".join(["crate"] + parts)


def stage_replay(extra_root_modules):
    """Scratch tree with harness modules + shim + generated test modules injected under cfg(test).
    extra_root_modules: {modname: absolute path of generated .rs}"""
    tree, _ = stage.stage_plain()
    dst = os.path.join(stage.SCRATCH, "tree-replay")
    inj = {}
    for h, target in sorted(stage.kani_inject_map().items()):
        inj.setdefault(target, []).append(h)

    def transform(rel, data):
        if rel in inj:
            s = data.decode()
            for h in inj[rel]:
                src = os.path.join(stage.VERIF, "harness", "kani", h)
                s += f'\n#[cfg(test)]\n#[path = "{src}"]\npub(crate) mod verif_kani_{h[:-3]};\n'
            data = s.encode()
        if rel == "src/lib.rs":
            s = data.decode()
            s += f'\n#[cfg(test)]\n#[path = "{stage.VERIF}/harness/shim.rs"]\npub(crate) mod verif_shim;\n'
            for mod, path in sorted(extra_root_modules.items()):
                s += f'\n#[cfg(test)]\n#[path = "{path}"]\nmod {mod};\n'
            data = s.encode()
        return data

    with stage.Lock("stage-replay"):
        stage._sync_transformed(tree, dst, transform)
    return dst


def harness_fn_path(harness):
    """Find which harness file defines `harness` and return its full Rust path."""
    for h, target in stage.kani_inject_map().items():
        src = open(os.path.join(stage.VERIF, "harness", "kani", h)).read()
        if re.search(r"\b" + re.escape(harness) + r"\b", src):
            return f"{module_path_of(target)}::verif_kani_{h[:-3]}::{harness}"
    return None


def run_tests(tree, test_filter, release=False, timeout=3600):
    env = dict(stage.ENV)
    env["CARGO_TARGET_DIR"] = REPLAY_TARGET
    env["RUST_BACKTRACE"] = "0"
    cmd = ["cargo", "+" + stage.REPO_TOOLCHAIN, "test", "--offline", "--lib"]
    if release:
        cmd.append("--release")
    cmd += [test_filter, "--", "--test-threads", "1", "--nocapture"]
    t0 = time.time()
    with stage.Lock("replay-run"):
        try:
            r = subprocess.run(cmd, cwd=tree, env=env, capture_output=True, text=True, timeout=timeout)
            out = r.stdout + "\n" + r.stderr
            rc = r.returncode
        except subprocess.TimeoutExpired as e:
            out, rc = "TIMEOUT", -9
    return rc, out, time.time() - t0


def replay_kani_model(prop, harness, values, release=False):
    """Returns dict {reproduced: bool|None, path, detail}.  reproduced=None => could not build/run."""
    os.makedirs(OUT_DIR, exist_ok=True)
    fnpath = harness_fn_path(harness)
    if fnpath is None:
        return {"reproduced": None, "path": None, "detail": "harness source not found"}
    tname = f"verif_replay_{harness}"
    gen = os.path.join(OUT_DIR, f"{prop}_{harness}.rs")
    vals = ", ".join("vec![" + ", ".join(str(b) for b in v) + "]" for v in values)
    with open(gen, "w") as f:
        f.write(f"""// Replay of a Kani/CBMC counterexample for property {prop}, harness {harness}.
// Run by the check itself in a scratch copy of /repo (cfg(test), repo toolchain).  The harness body is
// /verif/harness/kani/*.rs compiled natively; kani::any() yields the concrete values below.
#[test]
fn {tname}() {{
    crate::verif_shim::set_values(vec![{vals}]);
    {fnpath}();
    println!("VERIF-REPLAY: harness returned normally (model does not reproduce)");
}}
""")
    tree = stage_replay({"verif_replay_gen": gen})
    rc, out, secs = run_tests(tree, tname, release=release)
    detail = "\n".join(l for l in out.splitlines() if "panicked" in l or "VERIF-REPLAY" in l or l.startswith("error"))[:2000]
    if "VERIF-REPLAY:" in out and "does not reproduce" in out:
        rep = False
    elif re.search(r"test .*" + tname + r" \.\.\. FAILED", out) or ("panicked at" in out and "test result: FAILED" in out):
        rep = True
    elif "test result: ok" in out:
        rep = False
    else:
        rep = None
        detail = out[-3000:]
    with open(gen, "a") as f:
        f.write("\n/* outcome ({} profile, {:.0f}s): reproduced={}\n{}\n*/\n".format(
            "release" if release else "dev", secs, rep, detail.replace("*/", "* /")))
    return {"reproduced": rep, "path": gen, "detail": detail, "secs": secs}
