"""Native replay of solver models against the real build (repo toolchain, cfg(test) child modules injected
into a scratch copy).  A model is only ever reported after it reproduced here."""
import os
import re
import subprocess
import time

from . import stage
from .stage import log

REPLAY_TARGET = os.path.join(stage.SCRATCH, "target-mir")   # same toolchain/profile as the MIR dump: deps are shared
OUT_DIR = os.path.join(stage.VERIF, "out", "replays")


def module_path_of(target_rel):
    """src/engine/operators/mod.rs -> crate::engine::operators ; src/a/b.rs -> crate::a::b ; src/lib.rs -> crate"""
    p = target_rel
    assert p.startswith("src/")
    p = p[4:-3]
    parts = p.split("/")
    if parts[-1] in ("mod", "lib"):
        parts = parts[:-1]
    return "::".join(["crate"] + parts)


def stage_replay(extra_root_modules=None):
    """Scratch tree (tree-replay) with, under cfg(test): Kani harness modules + kani shim, native drivers + util +
    dispatch, and generated root-level test modules.  extra_root_modules: {modname: absolute path of generated .rs}"""
    extra_root_modules = extra_root_modules or {}
    tree, _ = stage.stage_plain()
    dst = os.path.join(stage.SCRATCH, "tree-replay")
    H = os.path.join(stage.VERIF, "harness")
    entries = [(os.path.join(H, src), target, name) for src, target, name in stage.inject_list("kani")]
    nat = [(os.path.join(H, src), target, name) for src, target, name in stage.inject_list("native")]
    add = stage.build_injections(tree, entries + nat, "test")
    root = add.get("src/lib.rs", "")
    root += f'\n#[cfg(test)]\n#[path = "{H}/shim.rs"]\npub(crate) mod verif_shim;\n'
    root += f'\n#[cfg(test)]\n#[path = "{H}/native/util.rs"]\npub(crate) mod verif_nat_util;\n'
    root += f'\n#[cfg(test)]\n#[path = "{H}/native/root.rs"]\nmod verif_nat_root;\n'
    root += "\n#[cfg(test)]\npub(crate) fn verif_native_dispatch(k: &str, t: &[&str]) -> Option<String> {\n"
    for _, _, name in nat:
        root += f"    if let Some(r) = crate::{name}::dispatch(k, t) {{ return Some(r); }}\n"
    root += "    None\n}\n"
    for mod, path in sorted(extra_root_modules.items()):
        root += f'\n#[cfg(test)]\n#[path = "{path}"]\nmod {mod};\n'
    add["src/lib.rs"] = root

    def transform(rel, data):
        if rel in add:
            data = (data.decode() + add[rel]).encode()
        return data

    with stage.Lock("stage-replay"):
        stage._sync_transformed(tree, dst, transform)
        # the API-level replay driver lives in tests/
        tp = os.path.join(dst, "tests", "verif_api_replay.rs")
        src = open(os.path.join(H, "api", "verif_api_replay.rs")).read()
        if not os.path.exists(tp) or open(tp).read() != src:
            with open(tp, "w") as f:
                f.write(src)
    return dst


def harness_fn_path(harness, via_reexport=False):
    """Find which harness file defines `harness` and return its full Rust path."""
    for srcrel, target, name in stage.inject_list("kani"):
        src = open(os.path.join(stage.VERIF, "harness", srcrel)).read()
        if re.search(r"\b" + re.escape(harness) + r"\b", src):
            if via_reexport:
                return f"crate::{name}::{harness}"
            return f"{module_path_of(target)}::{name}::{harness}"
    return None


def run_tests(tree, test_filter, release=False, timeout=3600):
    env = dict(stage.ENV)
    env["CARGO_TARGET_DIR"] = REPLAY_TARGET
    env["RUST_BACKTRACE"] = "0"
    cmd = ["cargo", "+" + stage.REPO_TOOLCHAIN, "test", "--offline", "--lib"]
    if release:
        cmd.append("--release")
    cmd += [test_filter, "--", "--test-threads", "1", "--nocapture"]
    t0 = time.time()
    with stage.Lock("replay-run"):
        try:
            r = subprocess.run(cmd, cwd=tree, env=env, capture_output=True, text=True, timeout=timeout)
            out = r.stdout + "\n" + r.stderr
            rc = r.returncode
        except subprocess.TimeoutExpired as e:
            out, rc = "TIMEOUT", -9
    return rc, out, time.time() - t0


def replay_kani_model(prop, harness, values, release=False):
    """Returns dict {reproduced: bool|None, path, detail}.  reproduced=None => could not build/run."""
    os.makedirs(OUT_DIR, exist_ok=True)
    fnpath = harness_fn_path(harness, via_reexport=True)
    if fnpath is None:
        return {"reproduced": None, "path": None, "detail": "harness source not found"}
    tname = f"verif_replay_{harness}"
    gen = os.path.join(OUT_DIR, f"{prop}_{harness}.rs")
    vals = ", ".join("vec![" + ", ".join(str(b) for b in v) + "]" for v in values)
    with open(gen, "w") as f:
        f.write(f"""// Replay of a Kani/CBMC counterexample for property {prop}, harness {harness}.
// Run by the check itself in a scratch copy of /repo (cfg(test), repo toolchain).  The harness body is
// /verif/harness/kani/*.rs compiled natively; kani::any() yields the concrete values below.
#[test]
fn {tname}() {{
    crate::verif_shim::set_values(vec![{vals}]);
    {fnpath}();
    println!("VERIF-REPLAY: harness returned normally (model does not reproduce)");
}}
""")
    tree = stage_replay({"verif_replay_gen": gen})
    rc, out, secs = run_tests(tree, tname, release=release)
    detail = "\n".join(l for l in out.splitlines() if "panicked" in l or "VERIF-REPLAY" in l or l.startswith("error"))[:2000]
    if "VERIF-REPLAY:" in out and "does not reproduce" in out:
        rep = False
    elif re.search(r"test .*" + tname + r" \.\.\. FAILED", out) or ("panicked at" in out and "test result: FAILED" in out):
        rep = True
    elif "test result: ok" in out:
        rep = False
    else:
        rep = None
        detail = out[-3000:]
    with open(gen, "a") as f:
        f.write("\n/* outcome ({} profile, {:.0f}s): reproduced={}\n{}\n*/\n".format(
            "release" if release else "dev", secs, rep, detail.replace("*/", "* /")))
    return {"reproduced": rep, "path": gen, "detail": detail, "secs": secs}


# ------------------------------------------------------------------------------------------------
# API-level replay: drive the public API of the real build with a JSON scenario
# ------------------------------------------------------------------------------------------------
def api_replay(spec, release=False, timeout=1800):
    """spec: dict (see harness/api/verif_api_replay.rs).  Returns (list of step outcome dicts | None, raw output)."""
    import json
    dst = stage_replay({})
    os.makedirs(OUT_DIR, exist_ok=True)
    sp = os.path.join(stage.SCRATCH, f"api_spec_{os.getpid()}.json")
    with open(sp, "w") as f:
        json.dump(spec, f)
    env = dict(stage.ENV)
    env["CARGO_TARGET_DIR"] = REPLAY_TARGET
    env["VERIF_API_SPEC"] = sp
    env["RUST_BACKTRACE"] = "0"
    cmd = ["cargo", "+" + stage.REPO_TOOLCHAIN, "test", "--offline", "--test", "verif_api_replay"]
    if release:
        cmd.append("--release")
    cmd += ["--", "--nocapture", "--test-threads", "1"]
    with stage.Lock("replay-run"):
        try:
            r = subprocess.run(cmd, cwd=dst, env=env, capture_output=True, text=True, timeout=timeout)
            out = r.stdout + "\n" + r.stderr
        except subprocess.TimeoutExpired:
            return None, "TIMEOUT"
    steps = []
    for line in out.splitlines():
        i = line.find("VERIF-API: ")
        if i >= 0:
            try:
                steps.append(json.loads(line[i + len("VERIF-API: "):]))
            except ValueError:
                pass
    if not steps:
        return None, out[-4000:]
    return steps, out
