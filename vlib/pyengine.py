"""Engine B driver: runs the Python-side obligations (mirsym symbolic execution of MIR, direct SMT queries),
replays every solver model against the real build through the native drivers and validates the executor
itself by concrete differential runs (same inputs through mirsym-in-concrete-mode and the real function)."""
import os
import random
import re
import subprocess
import time
import traceback

import z3

from . import stage, replay, findings
from .stage import log
from .mirsym import mir as M, interp, srcinfo
from .mirsym.values import I, Agg, VecObj, Ref, Cell, UNIT, INT_W, SIGNED


class Ctx:
    """shared per check run: MIR dumps, source facts, native runner"""

    def __init__(self, tier, seed):
        self.tier = tier
        self.seed = seed
        self._dumps = {}
        self._src = None
        self.tree = None
        self.tree_hash = None
        self.native_cases = []     # (id, kernel, tokens)
        self.native_results = None

    def dumps(self, which=("main",)):
        need = [w for w in which if w not in self._dumps]
        if need:
            paths, th = stage.mir_dump(tuple(need))
            self.tree_hash = th
            for w, p in paths.items():
                t0 = time.time()
                self._dumps[w] = M.MirDump(p)
        return {w: self._dumps[w] for w in which}

    def roots(self):
        tree = os.path.join(stage.SCRATCH, "tree")
        # spans in the MIR of the path crates are printed relative to the workspace root (they are built with -p)
        return {"main": tree, "ser": tree, "cu": tree}

    def src(self):
        if self._src is None:
            self.dumps(("main",))
            r = self.roots()
            self._src = srcinfo.SrcInfo([r["main"], os.path.join(r["main"], "locustdb-serialization"),
                                         os.path.join(r["main"], "locustdb-compression-utils")])
        return self._src

    def executor(self, which=("main",), stubs=None, **kw):
        d = self.dumps(which)
        return interp.Executor(d, self.src(), self.roots(), stubs=stubs, **kw)

    # ---------------- native batch ----------------
    def add_native(self, kernel, tokens):
        cid = f"c{len(self.native_cases)}"
        self.native_cases.append((cid, kernel, tokens))
        return cid

    def run_native(self):
        """runs all queued cases through the real build; fills self.native_results {id: ('OUT', [tok]) | ('PANIC', msg)}"""
        self.native_results = {}
        if not self.native_cases:
            return
        tree = replay.stage_replay()
        cf = os.path.join(stage.SCRATCH, f"native_cases_{os.getpid()}.txt")
        with open(cf, "w") as f:
            for cid, k, toks in self.native_cases:
                f.write(" ".join([cid, k] + [str(t) for t in toks]) + "\n")
        env = dict(stage.ENV)
        env["CARGO_TARGET_DIR"] = replay.REPLAY_TARGET
        env["VERIF_NATIVE_CASES"] = cf
        env["RUST_BACKTRACE"] = "0"
        cmd = ["cargo", "+" + stage.REPO_TOOLCHAIN, "test", "--offline", "--lib", "verif_native_driver", "--",
               "--nocapture", "--test-threads", "1"]
        t0 = time.time()
        with stage.Lock("replay-run"):
            r = subprocess.run(cmd, cwd=tree, env=env, capture_output=True, text=True, timeout=3600)
        out = r.stdout + "\n" + r.stderr
        self.native_wall = time.time() - t0
        last_panic = ""
        for line in out.splitlines():
            if "VERIF-NAT-PANICINFO" in line:
                last_panic = line.split("VERIF-NAT-PANICINFO", 1)[1].strip()
                continue
            i = line.find("VERIF-NAT ")
            if i < 0:
                continue
            toks = line[i:].split()
            cid, kind = toks[1], toks[2]
            if kind == "PANIC":
                self.native_results[cid] = ("PANIC", last_panic)
            else:
                self.native_results[cid] = (kind, toks[3:])
        if len(self.native_results) < len(self.native_cases):
            errs = [l for l in out.splitlines() if l.startswith("error")]
            raise stage.BuildError("native driver did not answer all cases:\n" + ("\n".join(errs[:15]) or out[-3000:]))


# ----------------------------------------------------------------------------------------------------
# generic kernel check
# ----------------------------------------------------------------------------------------------------
def sym(ty, name):
    if ty == "bool":
        return I("bool", z3.Bool(name))
    return I(ty, z3.BitVec(name, INT_W[ty]))


def model_value(model, x):
    """evaluate an input structure under a z3 model -> same structure with concrete I"""
    if isinstance(x, I):
        if x.concrete:
            return x
        v = model.eval(x.v, model_completion=True)
        if x.ty == "bool":
            return I("bool", z3.is_true(v))
        return I(x.ty, v.as_long())
    if isinstance(x, list):
        return [model_value(model, e) for e in x]
    if isinstance(x, tuple):
        return tuple(model_value(model, e) for e in x)
    if isinstance(x, dict):
        return {k: model_value(model, v) for k, v in x.items()}
    return x


def show(x):
    if isinstance(x, I):
        return x.v if x.concrete else str(x)
    if isinstance(x, (list, tuple)):
        return [show(e) for e in x]
    if isinstance(x, dict):
        return {k: show(v) for k, v in x.items()}
    if isinstance(x, VecObj):
        return [show(e) for e in x.elems]
    if isinstance(x, Agg):
        if x.kind == "enum":
            return {x.variant: [show(f) for f in x.fields]} if x.fields else x.variant
        return [show(f) for f in x.fields]
    return repr(x)


def values_equal(a, b):
    """structural equality of two *concrete* value structures (mirsym outcome vs parsed native output)"""
    if isinstance(a, I) and isinstance(b, I):
        return a.concrete and b.concrete and a.v == b.v
    if isinstance(a, VecObj):
        a = a.elems
    if isinstance(b, VecObj):
        b = b.elems
    if isinstance(a, Agg) and isinstance(b, Agg):
        if a.kind == "enum" or b.kind == "enum":
            return a.variant == b.variant and values_equal(a.fields, b.fields)
        return values_equal(a.fields, b.fields)
    if isinstance(a, (list, tuple)) and isinstance(b, (list, tuple)):
        return len(a) == len(b) and all(values_equal(x, y) for x, y in zip(a, b))
    if a is UNIT and b is UNIT:
        return True
    if a is None and b is None:
        return True
    if isinstance(a, (bool, int)) and isinstance(b, (bool, int)):
        return a == b
    if isinstance(a, bytes) and isinstance(b, bytes):
        return a == b
    if isinstance(a, dict) and isinstance(b, dict):
        return set(a) == set(b) and all(values_equal(a[k], b[k]) for k in a)
    from .mirsym.values import Opaque
    if isinstance(a, Opaque) and isinstance(b, Opaque):
        return a.tag == b.tag
    if isinstance(a, str) and isinstance(b, str):
        return a == b
    return False


def run_sequence(ex, pre, env, calls):
    """calls: list of (Function, args_builder(env)->args, tymap).  Runs them one after the other on every path;
    objects shared between the calls live in env (cloned consistently on forks).  Returns outcomes of the last call
    plus every panic outcome of an earlier one."""
    st0 = interp.State()
    st0.pc = list(pre)
    st0.env = env
    states = [st0]
    final = []
    for k, call in enumerate(calls):
        fn, build, tymap = call[:3]
        store = call[3] if len(call) > 3 else None
        nxt = []
        for st in states:
            ex.enter(st, fn, build(st.env), tymap)
            for o in ex.explore(st):
                if o.kind == "panic":
                    o.msg = f"[call {k}: {fn.name.split('::')[-1]}] " + o.msg
                    final.append(o)
                    continue
                if store:
                    o.st.env[store] = Cell(o.value)
                if k == len(calls) - 1:
                    final.append(o)
                else:
                    o.st.trace.append("|")
                    nxt.append(o.st)
        states = nxt
    if not calls:
        final.append(interp.Outcome("return", UNIT, st0))
    return final


class KernelSpec:
    """One real function (possibly generic) + its pre/post-condition.  Subclasses fill in the abstract parts."""
    fn_pattern = None
    fn_sig = None
    dumps = ("main",)
    stubs = None
    diff_cases = 6          # concrete differential cases per (instantiation, shape)
    max_paths = 20000
    fuel = 20000

    def instantiations(self, tier):
        return [{}]

    def shapes(self, tier, inst):
        return [()]

    def tymap(self, inst):
        return {k: v for k, v in inst.items() if k[:1].isupper()}

    def sym_inputs(self, inst, shape):
        """-> (inputs dict of symbolic values, list of z3 preconditions)"""
        raise NotImplementedError

    def make_args(self, inst, shape, inputs):
        """-> argument values for the MIR function (fresh heap objects)"""
        raise NotImplementedError

    def post(self, inst, shape, inputs, value, state=None):
        """-> list of (label, I(bool)) that must all hold for a returned value"""
        raise NotImplementedError

    def panic_ok(self, inst, shape, inputs, msg):
        """-> I(bool): condition under which this panic is the *specified* outcome (default: never)"""
        return I("bool", 0)

    def random_inputs(self, rng, inst, shape):
        """-> concrete inputs dict satisfying the precondition"""
        raise NotImplementedError

    def explore(self, ctx, ex, fn, inst, shape, inputs, pre):
        """default: one call of the function under test"""
        args = self.make_args(inst, shape, inputs)
        env = self.make_env(inst, shape, inputs) if hasattr(self, "make_env") else None
        st = ex.start(fn, args, self.tymap(inst), pc=pre, env=env)
        return ex.explore(st)

    def native(self, inst, shape, inputs):
        """-> (kernel name, tokens) for the native driver, or None if the kernel has no native driver"""
        return None

    def parse_native(self, inst, shape, toks):
        raise NotImplementedError

    # how to find the function: full `::` path of a free fn (the MIR prints a unique *suffix* of it), or
    # method = (Self type, trait or None, method name) resolved through the impl headers read from the source
    fn_path = None
    method = None

    def get_fn(self, ctx, inst):
        ex = ctx.executor(self.dumps)
        if self.method is not None:
            self_ty, trait, name = self.method
            for k, v in self.tymap(inst).items():
                self_ty = re.sub(r"(?<![A-Za-z0-9_:])" + re.escape(k) + r"(?![A-Za-z0-9_])", v, self_ty)
            r = ex.resolve_method(self_ty, trait, name)
            if r is None:
                raise interp.Unsupported(f"method <{self_ty} as {trait}>::{name} not found in the MIR of the current tree")
            fn, binding = r
            self._binding = binding
            return fn.parse()
        path = self.fn_path or self.fn_pattern
        cands = [f for k, f in ex.lookup_fn(path) if f.kind == "fn" and (self.fn_sig is None or self.fn_sig in f.header)]
        if len(cands) == 1:
            return cands[0].parse()
        if not cands:
            raise interp.Unsupported(f"function {path} not found in the MIR of the current tree")
        raise interp.Unsupported(f"ambiguous function {path}: {[c.header[:100] for c in cands[:4]]}")


def rnd_int(rng, ty, small=False):
    w = INT_W[ty]
    lo = -(1 << (w - 1)) if ty in SIGNED else 0
    hi = (1 << (w - 1)) - 1 if ty in SIGNED else (1 << w) - 1
    r = rng.random()
    if small or r < 0.4:
        return max(lo, min(hi, rng.randint(-3, 6)))
    if r < 0.7:
        return rng.choice([lo, lo + 1, hi, hi - 1, 0, 1, max(lo, -1)])
    return rng.randint(lo, hi)


def run_kernel(ctx, ob, spec, rec):
    """symbolic phase.  Fills rec; returns list of pending native checks."""
    pending = []
    rec.setdefault("paths", 0)
    rec.setdefault("queries", 0)
    rec.setdefault("solver_s", 0.0)
    rec.setdefault("shapes", [])
    rec["cex"] = []
    rec["panics_allowed"] = 0
    import zlib
    rng = random.Random(ctx.seed * 7919 + zlib.crc32(ob.id.encode()) % 1000)      # deterministic per (VERIF_SEED, obligation)
    for inst in spec.instantiations(ctx.tier):
        fn = spec.get_fn(ctx, inst)
        for shape in spec.shapes(ctx.tier, inst):
            ex = ctx.executor(spec.dumps, stubs=spec.stubs, max_paths=spec.max_paths, fuel=spec.fuel)
            ex.deadline = time.time() + (1200 if ctx.tier == "quick" else 3600)      # per (instantiation, shape)
            inputs, pre = spec.sym_inputs(inst, shape)
            ok_pre, _ = ex.check(pre)
            if not ok_pre:
                raise interp.Unsupported(f"precondition unsatisfiable for {inst} {shape} (vacuous)")
            outs = spec.explore(ctx, ex, fn, inst, shape, inputs, pre)
            n_ret = 0
            for o in outs:
                if o.kind == "panic":
                    allowed = spec.panic_ok(inst, shape, inputs, o.msg)
                    conds = [("no panic: " + o.msg, allowed)]
                    if allowed.concrete and allowed.v:
                        rec["panics_allowed"] += 1
                elif o.kind == "stop":
                    n_ret += 1
                    conds = spec.post_stop(inst, shape, inputs, o) if hasattr(spec, "post_stop") else []
                else:
                    n_ret += 1
                    conds = spec.post(inst, shape, inputs, o.value, o.st)
                # one query per path: pc /\ not(all post-conditions); the failing condition is then read off the model
                failing = None
                symbolic = []
                for label, c in conds:
                    if c.concrete:
                        if not c.v and failing is None:
                            sat, model = ex.check(o.pc)
                            if sat:
                                failing = (label, model)
                    else:
                        symbolic.append((label, c))
                if failing is None and symbolic:
                    sat, model = ex.check(o.pc + [z3.Not(z3.And(*[c.v for _, c in symbolic]))])
                    if sat:
                        for label, c in symbolic:
                            if not z3.is_true(model.eval(c.v, model_completion=True)):
                                failing = (label, model)
                                break
                        if failing is None:
                            failing = (symbolic[0][0], model)
                if failing is not None:
                    label, model = failing
                    conc = model_value(model, inputs)
                    rec["cex"].append({"inst": inst, "shape": shape, "label": label, "inputs": show(conc),
                                       "trace": "".join(o.trace), "outcome": o.kind + (": " + o.msg if o.msg else "")})
                    pending.append(("cex", inst, shape, conc, label))
            rec["paths"] += len(outs)
            rec["blocks"] = rec.get("blocks", 0) + ex.blocks_executed
            if n_ret:
                rec["cases"] = rec.get("cases", 0) + 1
            rec["queries"] += ex.queries
            rec["solver_s"] += ex.solver_s
            rec["shapes"].append(f"{_inst_name(inst)}{shape}: {len(outs)} paths ({n_ret} returning), {ex.queries} queries")
            if "sample_path" not in rec and outs:
                o = outs[len(outs) // 2]
                rec["sample_path"] = {"inst": _inst_name(inst), "shape": str(shape), "branches": "".join(o.trace)[:80],
                                      "outcome": o.kind, "value": str(show(o.value))[:300] if o.kind == "return" else o.msg}
            # concrete differential cases (validate the executor + its models against the real function)
            if spec.native(inst, shape, None) is not None:
                for _ in range(spec.diff_cases):
                    conc = spec.random_inputs(rng, inst, shape)
                    if conc is not None:
                        pending.append(("diff", inst, shape, conc, None))
    return pending


def _inst_name(inst):
    return ",".join(f"{k}={v}" for k, v in inst.items() if k != "nat") or "-"


def concrete_run(ctx, spec, inst, shape, conc):
    """mirsym in concrete mode -> ('return', value) | ('panic', msg)"""
    fn = spec.get_fn(ctx, inst)
    ex = ctx.executor(spec.dumps, stubs=spec.stubs, max_paths=50, fuel=spec.fuel)
    outs = spec.explore(ctx, ex, fn, inst, shape, conc, [])
    if len(outs) != 1:
        raise interp.Unsupported(f"concrete run produced {len(outs)} paths")
    o = outs[0]
    return (o.kind, o.value if o.kind == "return" else o.msg, o.st)


def run(prop, obs, tier, seed, records, violations, known_hits, inconclusive):
    ctx = Ctx(tier, seed)
    work = []
    for ob in obs:
        rec = ob.describe()
        rec["t0"] = time.time()
        records.append(rec)
        try:
            if ob.engine == "mirsym":
                spec = ob.kw["spec"]
                pend = run_kernel(ctx, ob, spec, rec)
                items = []
                for kind, inst, shape, conc, label in pend:
                    nat = spec.native(inst, shape, conc)
                    cid = ctx.add_native(nat[0], nat[1]) if nat else None
                    items.append((kind, inst, shape, conc, label, cid))
                    if kind == "cex" and hasattr(spec, "replay_variants"):
                        # the model may rely on behaviour a library only shows on larger inputs (e.g. an unstable sort is
                        # stable below 20 elements): the spec offers scaled-up concrete inputs for the same defect
                        for shape2, conc2 in spec.replay_variants(inst, shape, conc, label):
                            nat2 = spec.native(inst, shape2, conc2)
                            items.append(("cexvar", inst, shape2, conc2, label, ctx.add_native(nat2[0], nat2[1])))
                work.append((ob, spec, rec, items))
            elif ob.engine == "smt":
                ob.run(ctx, ob, rec)
                work.append((ob, None, rec, []))
            else:
                raise interp.Unsupported("engine " + ob.engine)
        except (interp.Unsupported, M.MirError) as e:
            rec["verdict"] = "inconclusive"
            rec["why"] = str(e)[:400]
            inconclusive.append((ob.id, "unsupported/undecided: " + str(e)[:300]))
        except stage.BuildError:
            raise
        except Exception as e:
            traceback.print_exc()
            rec["verdict"] = "inconclusive"
            inconclusive.append((ob.id, f"internal error {type(e).__name__}: {e}"[:300]))
    # ---- native phase
    if ctx.native_cases:
        ctx.run_native()
    for ob, spec, rec, items in work:
        if rec.get("verdict") == "inconclusive":
            continue
        if spec is None:
            finish_smt(prop, ob, rec, violations, known_hits, inconclusive)
            continue
        diff_ok = diff_bad = 0
        reproduced = []
        unreproduced = []
        var_ok = set()
        try:
            for kind, inst, shape, conc, label, cid in items:
                nat = ctx.native_results.get(cid) if cid else None
                if kind == "diff":
                    k, v, stt = concrete_run(ctx, spec, inst, shape, conc)
                    if nat[0] == "PANIC":
                        same = (k == "panic")
                    elif nat[0] == "OUT":
                        same = (k == "return") and values_equal(spec.native_view(inst, shape, v, stt) if hasattr(spec, "native_view") else v,
                                                                spec.parse_native(inst, shape, nat[1]))
                    else:
                        same = False
                    if same:
                        diff_ok += 1
                    else:
                        diff_bad += 1
                        rec.setdefault("diff_mismatch", []).append({"inputs": show(conc), "mirsym": (k, str(show(v))[:200]), "native": nat})
                else:
                    # counterexample: does the real function violate the post-condition on these inputs?
                    if kind == "cexvar":
                        # scaled-up variant of an earlier model: only counts when it reproduces; never makes a run inconclusive
                        if nat is not None and nat[0] == "OUT":
                            val = spec.parse_native(inst, shape, nat[1])
                            failed = [l for l, c in spec.post(inst, shape, conc, val, None) if not (c.concrete and c.v)]
                            if failed:
                                reproduced.append((label, inst, shape, conc, f"real function returns {str(nat[1])[:300]} violating: {failed[:3]}"))
                                unreproduced = [u for u in unreproduced if u[0] != label]
                                var_ok.add(label)
                        elif nat is not None and nat[0] == "PANIC":
                            allowed = spec.panic_ok(inst, shape, conc, nat[1])
                            if not (allowed.concrete and allowed.v):
                                reproduced.append((label, inst, shape, conc, f"real function panics: {nat[1]}"))
                                unreproduced = [u for u in unreproduced if u[0] != label]
                                var_ok.add(label)
                        continue
                    if nat is None and hasattr(spec, "api_check"):
                        # under-constrained slice: the model must reproduce through the public API
                        bad, what = spec.api_check(inst, shape, conc, label)
                        if bad:
                            reproduced.append((label, inst, shape, conc, what))
                        else:
                            if label not in var_ok:
                                unreproduced.append((label, conc, what))
                        continue
                    if nat is None:
                        unreproduced.append((label, conc, "no native driver"))
                        continue
                    if nat[0] == "PANIC":
                        allowed = spec.panic_ok(inst, shape, conc, nat[1])
                        bad = not (allowed.concrete and allowed.v)
                        what = f"real function panics: {nat[1]}"
                    elif nat[0] == "OUT":
                        val = spec.parse_native(inst, shape, nat[1])
                        conds = spec.post(inst, shape, conc, val, None)
                        failed = [l for l, c in conds if not (c.concrete and c.v)]
                        bad = bool(failed)
                        what = f"real function returns {nat[1]} violating: {failed}"
                    else:
                        bad = False
                        what = "native driver does not know the kernel"
                    if bad:
                        reproduced.append((label, inst, shape, conc, what))
                    elif label not in var_ok:
                        unreproduced.append((label, conc, what))
        except (interp.Unsupported, M.MirError) as e:
            rec["verdict"] = "inconclusive"
            inconclusive.append((ob.id, "differential run unsupported: " + str(e)[:300]))
            continue
        rec["diff_validated"] = diff_ok
        rec["wall_s"] = round(time.time() - rec.pop("t0"), 1)
        if diff_bad:
            rec["verdict"] = "inconclusive"
            inconclusive.append((ob.id, f"executor disagrees with the real function on {diff_bad} concrete inputs (mirsym model bug): "
                                 + str(rec["diff_mismatch"][0])[:300]))
            continue
        if reproduced:
            new = []
            for label, inst, shape, conc, what in reproduced:
                key = findings.key_mirsym(ob, label)
                if findings.is_known(prop, key):
                    known_hits.append(f"{key} :: {findings.describe(prop, key)}")
                else:
                    new.append((key, inst, shape, conc, what))
            rec["finding_keys"] = sorted({findings.key_mirsym(ob, r[0]) for r in reproduced})
            if unreproduced:
                inconclusive.append((ob.id, f"another solver model did not reproduce on the real function: {unreproduced[0][0]} "
                                     f"inputs={show(unreproduced[0][1])} ({unreproduced[0][2]})"[:400]))
            if new:
                rec["verdict"] = "counterexample"
                seen = set()
                for key, inst, shape, conc, what in new:
                    if key in seen:
                        continue
                    seen.add(key)
                    path = write_replay_file(prop, ob, spec, inst, shape, conc, what, suffix=len(seen))
                    rec["replay"] = path
                    violations.append({"path": path, "what": f"{key} :: inputs {show(conc)} :: {what}"[:600]})
            else:
                rec["verdict"] = "known-finding"
        elif unreproduced:
            rec["verdict"] = "inconclusive"
            inconclusive.append((ob.id, f"solver model did not reproduce on the real function: {unreproduced[0][0]} "
                                 f"inputs={show(unreproduced[0][1])} ({unreproduced[0][2]})"[:400]))
        else:
            rec["verdict"] = "discharged"
            rec["nonvacuous"] = rec.get("paths", 0) > 0


def finish_smt(prop, ob, rec, violations, known_hits, inconclusive):
    rec["wall_s"] = round(time.time() - rec.pop("t0"), 1)
    v = rec.get("verdict")
    if v == "discharged":
        return
    if v == "counterexample":
        key = rec.get("finding_key", ob.id)
        if findings.is_known(prop, key):
            known_hits.append(f"{key} :: {findings.describe(prop, key)}")
            rec["verdict"] = "known-finding"
        else:
            violations.append({"path": rec.get("replay", "-"), "what": f"{key} :: {rec.get('what', '')}"[:600]})
        return
    inconclusive.append((ob.id, rec.get("why", "undecided")))


def write_replay_file(prop, ob, spec, inst, shape, conc, what, suffix=1):
    os.makedirs(replay.OUT_DIR, exist_ok=True)
    nat = spec.native(inst, shape, conc)
    p = os.path.join(replay.OUT_DIR, f"{prop}_{re.sub(r'[^A-Za-z0-9_.]', '_', ob.id)}" + (f"_{suffix}" if suffix > 1 else "") + ".txt")
    with open(p, "w") as f:
        f.write(f"# replay of a mirsym/z3 counterexample for property {prop}, obligation {ob.id}\n")
        f.write(f"# function: {spec.fn_path or spec.method}  instantiation: {_inst_name(inst)}  shape: {shape}\n")
        f.write(f"# concrete inputs: {show(conc)}\n# observed on the real build (dev profile): {what}\n")
        if nat:
            f.write("# native driver case line (VERIF_NATIVE_CASES format; run: cargo test --lib verif_native_driver in the replay tree):\n")
            f.write(" ".join(["c0", nat[0]] + [str(t) for t in nat[1]]) + "\n")
        elif hasattr(spec, "api_spec"):
            import json
            f.write("# API-level scenario (VERIF_API_SPEC format; run: cargo test --test verif_api_replay in the replay tree):\n")
            f.write(json.dumps(spec.api_spec(inst, shape, conc)) + "\n")
    return p
