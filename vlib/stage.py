"""Staging: scratch copies of /repo's *current working tree* and the builds derived from them.

Nothing here is cached across different trees: every artefact is keyed by a hash of the rsynced tree
(+ the harness sources), and is rebuilt when that hash changes.  All scratch data lives under
$VERIF_SCRATCH (default /var/tmp/locustdb-verif), outside /repo, /verif and /tmp.
"""
import fcntl
import hashlib
import os
import shutil
import subprocess
import time

REPO = os.environ.get("VERIF_REPO", "/repo")
VERIF = os.path.dirname(os.path.dirname(os.path.abspath(__file__)))
SCRATCH = os.environ.get("VERIF_SCRATCH", "/var/tmp/locustdb-verif")
REPO_TOOLCHAIN = "nightly-2025-03-28"

ENV = dict(os.environ)
ENV.update({"CARGO_NET_OFFLINE": "true", "CARGO_TERM_COLOR": "never"})
ENV.pop("RUSTUP_TOOLCHAIN", None)


class BuildError(Exception):
    pass


def log(msg):
    print(f"[verif {time.strftime('%H:%M:%S')}] {msg}", flush=True)


class Lock:
    """Serialises staging/builds between concurrently started checks."""

    def __init__(self, name):
        os.makedirs(SCRATCH, exist_ok=True)
        self.path = os.path.join(SCRATCH, name + ".lock")

    def __enter__(self):
        self.f = open(self.path, "w")
        fcntl.flock(self.f, fcntl.LOCK_EX)
        return self

    def __exit__(self, *a):
        fcntl.flock(self.f, fcntl.LOCK_UN)
        self.f.close()


def _hash_dir(root, exts=(".rs", ".toml", ".lock", ".capnp")):
    h = hashlib.sha256()
    for d, dirs, files in sorted(os.walk(root)):
        dirs.sort()
        if "/target" in d or d.endswith("/target"):
            continue
        for fn in sorted(files):
            if fn.endswith(exts):
                p = os.path.join(d, fn)
                h.update(os.path.relpath(p, root).encode())
                with open(p, "rb") as f:
                    h.update(f.read())
    return h.hexdigest()[:16]


def rsync_tree(dst):
    os.makedirs(dst, exist_ok=True)
    r = subprocess.run(
        ["rsync", "-a", "--delete", "--exclude", "/target", "--exclude", ".git", "--exclude", "*.profraw",
         REPO + "/", dst + "/"], capture_output=True, text=True)
    if r.returncode != 0:
        raise BuildError("rsync failed: " + r.stderr)


def stage_plain():
    """Unpatched copy of /repo's working tree (used for the MIR dump and for native replay)."""
    with Lock("stage"):
        dst = os.path.join(SCRATCH, "tree")
        rsync_tree(dst)
        return dst, _hash_dir(dst)


# ------------------------------------------------------------------------------------------------
# MIR dump with the repository's own toolchain
# ------------------------------------------------------------------------------------------------
MIR_CRATES = {
    "main": (".", "mir_main.txt", "locustdb"),
    "ser": ("locustdb-serialization", "mir_ser.txt", "locustdb-serialization"),
    "cu": ("locustdb-compression-utils", "mir_cu.txt", "locustdb-compression-utils"),
}


def mir_dump(which=("main",)):
    """Returns {crate: path of MIR text}.  Re-dumps when the tree hash changed."""
    tree, th = stage_plain()
    out = {}
    with Lock("mir"):
        for w in which:
            sub, fn, pkg = MIR_CRATES[w]
            path = os.path.join(SCRATCH, fn)
            stamp = path + ".hash"
            if os.path.exists(path) and os.path.exists(stamp) and open(stamp).read() == th and os.path.getsize(path) > 1000:
                out[w] = path
                continue
            t0 = time.time()
            cwd = tree      # always the workspace root: the path crates share the root Cargo.lock
            # touch the crate root so that cargo re-runs rustc even if only flags differ
            p = os.path.join(tree, sub, "src/lib.rs")
            if os.path.exists(p):
                os.utime(p, None)
            env = dict(ENV)
            env["CARGO_TARGET_DIR"] = os.path.join(SCRATCH, "target-mir")
            cmd = ["cargo", "+" + REPO_TOOLCHAIN, "rustc", "--offline", "-p", pkg, "--lib", "--",
                   "-Zunpretty=mir", "-C", "overflow-checks=on", "-C", "debug-assertions=off"]
            with open(path + ".tmp", "w") as fo, open(path + ".err", "w") as fe:
                r = subprocess.run(cmd, cwd=cwd, env=env, stdout=fo, stderr=fe)
            if r.returncode != 0 or os.path.getsize(path + ".tmp") < 1000:
                err = open(path + ".err").read()[-3000:]
                raise BuildError(f"MIR dump of {w} failed (rc={r.returncode}):\n{err}")
            os.replace(path + ".tmp", path)
            with open(stamp, "w") as f:
                f.write(th)
            log(f"MIR dump {w}: {os.path.getsize(path)>>20} MB in {time.time()-t0:.0f}s")
            out[w] = path
    return out, th


# ------------------------------------------------------------------------------------------------
# Kani tree: copy + two toolchain patches + injected #[cfg(kani)] child modules
# ------------------------------------------------------------------------------------------------
KANI_PATCHES = [
    ("src/engine/operators/vector_operator.rs",
     "use std::intrinsics::type_name;", "use std::any::type_name;"),
    ("src/syntax/parser.rs",
     """            if let GroupByExpr::Expressions(exprs, with_mods) = group_by
                && (!exprs.is_empty() || !with_mods.is_empty())
            {""",
     """            if matches!(&group_by, GroupByExpr::Expressions(exprs, with_mods) if (!exprs.is_empty() || !with_mods.is_empty()))
            {"""),
]

# Injected modules.  Every entry appends `#[cfg(..)] #[path = ".."] pub(crate) mod <name>;` to `target` (making the
# harness a *child* of the module that owns the private items it exercises) and a `pub(crate) use` re-export to every
# ancestor module file so that generated root-level tests can name it.  Nothing in an existing line is rewritten.
INJECT = [
    # (source under /verif/harness, target module file, module name, kinds)
    ("kani/operators.rs", "src/engine/operators/mod.rs", "verif_kani_operators", ("kani",)),
    ("kani/top_n.rs", "src/engine/operators/top_n.rs", "verif_kani_top_n", ("kani",)),
    ("kani/merge_aggregate.rs", "src/engine/operators/merge_aggregate.rs", "verif_kani_merge_aggregate", ("kani",)),
    ("kani/root.rs", "src/lib.rs", "verif_kani_root", ("kani",)),
    ("native/merge.rs", "src/engine/operators/merge.rs", "verif_nat_merge", ("native",)),
    ("native/merge_keep.rs", "src/engine/operators/merge_keep.rs", "verif_nat_merge_keep", ("native",)),
    ("native/merge_deduplicate.rs", "src/engine/operators/merge_deduplicate.rs", "verif_nat_merge_deduplicate", ("native",)),
    ("native/merge_aggregate.rs", "src/engine/operators/merge_aggregate.rs", "verif_nat_merge_aggregate", ("native",)),
    ("native/merge_drop.rs", "src/engine/operators/merge_drop.rs", "verif_nat_merge_drop", ("native",)),
    ("native/column_buffer.rs", "src/mem_store/column_buffer.rs", "verif_nat_column_buffer", ("native",)),
    ("native/meta_store.rs", "src/disk_store/meta_store.rs", "verif_nat_meta_store", ("native",)),
    ("native/file_writer.rs", "src/disk_store/file_writer.rs", "verif_nat_file_writer", ("native",)),
    ("native/api_roundtrip.rs", "src/lib.rs", "verif_nat_api_roundtrip", ("native",)),
    ("native/column.rs", "src/mem_store/column.rs", "verif_nat_column", ("native",)),
    ("native/stringpack.rs", "src/stringpack.rs", "verif_nat_stringpack", ("native",)),
    ("native/operators.rs", "src/engine/operators/mod.rs", "verif_nat_operators", ("native",)),
    ("native/partition.rs", "src/engine/operators/partition.rs", "verif_nat_partition", ("native",)),
    ("native/merge_partitioned.rs", "src/engine/operators/merge_partitioned.rs", "verif_nat_merge_partitioned", ("native",)),
    ("native/subpartition_op.rs", "src/engine/operators/subpartition.rs", "verif_nat_subpartition_op", ("native",)),
    ("native/merge_dedup_part.rs", "src/engine/operators/merge_deduplicate_partitioned.rs", "verif_nat_merge_dedup_part", ("native",)),
    ("native/data_types.rs", "src/engine/data_types/data.rs", "verif_nat_data_types", ("native",)),
    ("native/inner_locustdb.rs", "src/scheduler/inner_locustdb.rs", "verif_nat_inner_locustdb", ("native",)),
    ("native/server.rs", "src/server/mod.rs", "verif_nat_server", ("native",)),
    ("native/input_column.rs", "src/ingest/input_column.rs", "verif_nat_input_column", ("native",)),
    ("native/partition_segment.rs", "src/disk_store/partition_segment.rs", "verif_nat_partition_segment", ("native",)),
    ("native/storage.rs", "src/disk_store/storage.rs", "verif_nat_storage", ("native",)),
    ("native/query_task.rs", "src/engine/execution/query_task.rs", "verif_nat_query_task", ("native",)),
    ("native/mem_partition.rs", "src/mem_store/partition.rs", "verif_nat_mem_partition", ("native",)),
    ("native/table.rs", "src/mem_store/table.rs", "verif_nat_table", ("native",)),
]


def inject_list(kind):
    out = []
    for src, target, name, kinds in INJECT:
        if kind in kinds and os.path.exists(os.path.join(VERIF, "harness", src)):
            out.append((src, target, name))
    return out


def kani_inject_map():
    return {src.split("/", 1)[1]: target for src, target, name in inject_list("kani")}


def module_chain(target_rel):
    """src/a/b/c.rs -> (["a","b","c"], [module file of a::b, module file of a, src/lib.rs]) ancestors nearest first"""
    p = target_rel[4:-3]
    parts = p.split("/")
    if parts[-1] in ("mod", "lib"):
        parts = parts[:-1]
    return parts


def module_file(tree, parts):
    """module file (relative) for module path parts under src/"""
    if not parts:
        return "src/lib.rs"
    a = "src/" + "/".join(parts) + ".rs"
    b = "src/" + "/".join(parts) + "/mod.rs"
    if os.path.exists(os.path.join(tree, a)):
        return a
    return b


def build_injections(tree, entries, cfg):
    """entries: [(abs source path, target rel, name)] -> {rel file: text to append}"""
    add = {}
    for srcpath, target, name in entries:
        add.setdefault(target, "")
        add[target] += f'\n#[cfg({cfg})]\n#[path = "{srcpath}"]\npub(crate) mod {name};\n'
        parts = module_chain(target)
        # re-export upwards: parent of parts[k:] ...
        for k in range(len(parts) - 1, -1, -1):
            parent_file = module_file(tree, parts[:k])
            child = parts[k]
            add.setdefault(parent_file, "")
            add[parent_file] += f'\n#[cfg({cfg})]\n#[allow(unused_imports)]\npub(crate) use self::{child}::{name};\n'
    return add


def _sync_transformed(src, dst, transform):
    """Make dst a copy of src with transform(relpath, text) applied; only touches files whose content changes
    (so cargo's mtime-based fingerprints stay valid for unchanged files)."""
    seen = set()
    for d, dirs, files in os.walk(src):
        dirs[:] = [x for x in dirs if not (x == "target" and d == src)]
        for fn in files:
            sp = os.path.join(d, fn)
            rel = os.path.relpath(sp, src)
            seen.add(rel)
            dp = os.path.join(dst, rel)
            with open(sp, "rb") as f:
                data = f.read()
            data = transform(rel, data)
            try:
                with open(dp, "rb") as f:
                    if f.read() == data:
                        continue
            except OSError:
                pass
            os.makedirs(os.path.dirname(dp), exist_ok=True)
            with open(dp, "wb") as f:
                f.write(data)
    for d, dirs, files in os.walk(dst):
        dirs[:] = [x for x in dirs if not (x == "target" and d == dst)]
        for fn in files:
            rel = os.path.relpath(os.path.join(d, fn), dst)
            if rel not in seen:
                os.remove(os.path.join(dst, rel))


def stage_kani():
    """Patched copy with harness modules appended.  Returns (dir, hash, notes)."""
    tree, _ = stage_plain()
    with Lock("stage-kani"):
        dst = os.path.join(SCRATCH, "tree-kani")
        notes = []
        entries = [(os.path.join(VERIF, "harness", src), target, name) for src, target, name in inject_list("kani")]
        add = {}
        for srcpath, target, name in entries:
            add.setdefault(target, "")
            add[target] += f'\n#[cfg(kani)]\n#[path = "{srcpath}"]\nmod {name};\n'
        patched = set()

        def transform(rel, data):
            for prel, old, new in KANI_PATCHES:
                if prel == rel:
                    s = data.decode()
                    if old in s:
                        data = s.replace(old, new, 1).encode()
                        patched.add(prel)
            if rel in add:
                data = (data.decode() + add[rel]).encode()
                patched.add("inj:" + rel)
            return data

        _sync_transformed(tree, dst, transform)
        for prel, _, _ in KANI_PATCHES:
            if prel not in patched:
                notes.append(f"toolchain patch text not found in {prel} (build is attempted anyway)")
        for rel in add:
            if "inj:" + rel not in patched:
                notes.append(f"injection target missing: {rel}")
        th = _hash_dir(dst) + "-" + _hash_dir(os.path.join(VERIF, "harness", "kani"))
        return dst, th, notes


def clean():
    shutil.rmtree(SCRATCH, ignore_errors=True)
