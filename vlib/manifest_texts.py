TEXTS = {
 'C01': ("Bounded model checking of the encode-side kernels a value passes through: each listed real function is executed symbolically (Kani/CBMC on the compiled crate, or mirsym on rustc MIR) for all element values within the stated shapes; system-level composition (planner, executor, storage) is outside the claim.", "§3 C01"),
 'C02': ("Bounded model checking of the cross-partition merge kernels (order merge, group merge, payload/NULL carry): merging two adjacent partials equals computing on the concatenation, for all element values at all shapes within the bounds. The planner program that wires them (batch_merging::combine), threading and disk residency are outside the claim.", "§3 C02"),
 'C03': ("Bounded model checking of the comparison/boolean kernels a WHERE clause is compiled to, over every operand value of every integer width pairing and all f64 bit patterns.", "§3 C03"),
 'C04': ("Bounded model checking of accumulation kernels (every planner instantiation) and the cross-partition group merge (merge_deduplicate -> merge_aggregate/merge_drop) against an exact reference with NULL as a separate value.", "§3 C04"),
 'C05': ("Bounded model checking of comparator impls, heap_replace (inductive step from an arbitrary valid heap), order merge with limit and payload carry.", "§3 C05"),
 'C06': ("Bounded model checking (full operand width) of every checked arithmetic kernel instantiation against exact i128 arithmetic, checked SUM accumulation and cross-partition SUM combine.", "§3 C06"),
 'C07': ("Bounded model checking of the column re-encode step of compaction: the ColumnBuffer append sequences compact() performs keep NULL positions and values for all values/null maps within the shapes. Partition swap, eviction/reload and the disk round trip (lock/IO code) are outside the claim.", "§3 C07"),
 'C13': ("Bounded model checking of the NULL-padding kernels that make a late or absent column read as NULL. The catalogue itself (HashSet state shared across threads) is outside the claim.", "§3 C13"),
 'C12': ("Bounded model checking of the LIMIT/OFFSET literal conversion and the result-shaping arithmetic (arithmetic slices of the real MIR, every counterexample confirmed through the public API). sqlparser's tokenizer/parser and channel delivery are outside the claim.", "§3 C12"),
 'C08': ("Bounded model checking of the WAL id/cursor state machine on the real MetaStore methods (one flush + clean restart from an arbitrary valid state) and of the cursor data flow through serialize/deserialize. Files, threads, partition offsets and Table::restore_tables_from_disk are outside the claim.", "§3 C08"),
 'C14': ("Bounded model checking of the version/length/checksum envelope every stored file goes through (SHA-256 as an uninterpreted function). capnp's wire format inside the payload is outside the claim.", "§3 C14"),
 'C16': ("Bounded model checking of the integer response codec kernels (statistics, delta and double-delta encoders) with counterexamples replayed on the public serialize/deserialize round trip. capnp bytes and HTTP are outside the claim.", "§3 C16"),
 'C15': ("Bounded model checking of the column-name -> sub-partition routing on the reader side. Directory layout on a real file system and the disk read scheduler are outside the claim.", "§3 C15"),
}
NA_REASON = {
 'C09': "crash points of std::fs effects issued from thread-pool jobs: neither Kani (no threads/FS) nor a MIR encoding can execute them; see DESIGN.md §4",
 'C10': "pure interleaving property under Mutex/RwLock/Arc snapshots; Kani rejects concurrent code and an encoding of the lock protocol would not be the real code; DESIGN.md §4",
 'C11': "liveness/lock poisoning across worker, flush and I/O threads and channels; not encodable; panic-freedom of the kernels is asserted by the obligations of other properties; DESIGN.md §4",
 'C17': "actix-web/tokio/reqwest/serde_json stack is out of reach of any engine available here; DESIGN.md §4",
 'C18': "observable only as directory contents after thread-pool deletions and a condvar wake-up; DESIGN.md §4",
}
