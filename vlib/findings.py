"""Known findings: /verif/known_findings.jsonl (committed, never written at run time).

One JSON object per line:
  {"status": "known"|"fixed", "property": "C06", "key": "<obligation>|<failing site>", "what": "...", "commit": "<sha, fixed only>"}
A 'known' entry suppresses exactly the (obligation, failing call-site/branch) pair in `key`; a different failing
site of the same obligation/property is still a VIOLATION.  A 'fixed' entry suppresses nothing.
"""
import json
import os
import re

from . import stage

_PATH = os.path.join(stage.VERIF, "known_findings.jsonl")
_cache = None


def _load():
    global _cache
    if _cache is None:
        _cache = []
        if os.path.exists(_PATH):
            for line in open(_PATH):
                line = line.strip()
                if line and not line.startswith("#"):
                    _cache.append(json.loads(line))
    return _cache


def is_known(prop, key):
    return any(e.get("status") == "known" and e.get("property") == prop and e.get("key") == key for e in _load())


def describe(prop, key):
    for e in _load():
        if e.get("status") == "known" and e.get("property") == prop and e.get("key") == key:
            return e.get("what", "")
    return ""


def _short_func(func):
    # strip generic instantiation noise but keep the impl/function identity
    f = re.sub(r"\s+", " ", func)
    return f


def key_kani(ob, fc):
    """Key = obligation id | failed-check description | function (no line numbers: they move with unrelated edits)."""
    return f"{ob.id}|{fc['desc']}|{os.path.basename(fc['file'])}|{_short_func(fc['func'])}"


def key_mirsym(ob, label):
    """Key = obligation id | violated post-condition label or panic site (basic-block numbers removed)."""
    label = re.sub(r":bb\d+", "", label)
    label = re.sub(r"\s+", " ", label).strip()
    return f"{ob.id}|{label}"
