"""C05.b  TopN<T,C>::execute (batch by batch, as the streaming executor calls it) followed by finalize, run from MIR:
the row indices handed to the following `select` operators are those of the first min(n, rows) rows of the sort order.
"""
import re

import z3

from .common import *
from ..pyengine import run_sequence
from ..mirsym import interp
from ..mirsym.values import Opaque, UNIT
from .operators import OpExecSpec, Buffers, bufref, scratch_stubs
from .operators2 import phantom, concretise


class TopNSpec(OpExecSpec):
    """shape = (n, batch sizes...).  inputs: one key list per batch."""
    diff_cases = 3
    max_paths = 60000

    def instantiations(self, tier):
        out = [{"T": "i64", "C": "CmpLessThan", "desc": False, "nat": "op_topn_i64_asc"},
               {"T": "u8", "C": "CmpGreaterThan", "desc": True, "nat": "op_topn_u8_desc"}]
        if tier == "thorough":
            out += [{"T": "i64", "C": "CmpGreaterThan", "desc": True, "nat": "op_topn_i64_desc"},
                    {"T": "u32", "C": "CmpLessThan", "desc": False, "nat": "op_topn_u32_asc"}]
        return out

    def op_type(self, inst):
        return f"TopN<{inst['T']}, {inst['C']}>"

    def shapes(self, tier, inst):
        q = [(1, 2), (2, 3), (2, 1, 2), (3, 2), (2, 0, 3)]
        if tier == "thorough":
            q += [(1, 1, 1, 1), (2, 4), (3, 4), (3, 1, 1, 2), (3, 5), (2, 2, 2), (4, 3, 2)]
        return q

    def sym_inputs(self, inst, shape):
        inp = {}
        for b, k in enumerate(shape[1:]):
            inp[f"b{b}"] = [sym(inst["T"], f"k{b}_{i}") for i in range(k)]
        return inp, []

    def op_fields(self, ctx, inst):
        return None

    def explore(self, ctx, ex, fn, inst, shape, inp, pre):
        n = shape[0]
        ex.stubs = scratch_stubs()
        fs = ctx.src().struct_fields("TopN")
        vals = {"input": bufref(ctx, 0), "indices": bufref(ctx, 1), "keys": bufref(ctx, 2), "n": I("usize", n),
                "last_index": I("usize", 0), "c": phantom()}
        missing = [f for f in fs if f not in vals]
        if missing:
            raise interp.Unsupported(f"TopN has fields the obligation does not know: {missing}")
        op = Agg("struct", [vals[f] for f in fs], name="TopN")
        bufs = Buffers()
        bufs.vec(0, [], inst["T"])
        # what TopN::init does: Vec::with_capacity(n) for both buffers (init itself only calls Scratchpad::set)
        bufs.b[1] = {"data": Cell(VecObj([], "usize", n)), "present": None}
        bufs.b[2] = {"data": Cell(VecObj([], inst["T"], n)), "present": None}
        env = {"bufs": bufs, "op": Cell(op)}
        r = ex.resolve_method(self.op_type(inst), "VecOperator", "finalize")
        if r is None:
            raise interp.Unsupported("TopN::finalize not found in the MIR of the current tree")
        fin = r[0].parse()
        calls = []
        for b in range(len(shape) - 1):
            def build(env, b=b):
                env["bufs"].b[0] = {"data": Cell(VecObj(list(inp[f"b{b}"]), inst["T"])), "present": None}
                return [Ref(env["op"], (), None, False, True), I("bool", 1), Ref(Cell(Opaque("scratchpad")), (), None, False, True)]
            calls.append((fn, build, self.tymap(inst)))
        calls.append((fin, lambda env: [Ref(env["op"], (), None, False, True), Ref(Cell(Opaque("scratchpad")), (), None, False, True)], dict(r[1])))
        return run_sequence(ex, pre, env, calls)

    def view(self, inst, shape, value, state):
        return {"out": self.out_vec(state, 1)}

    def post(self, inst, shape, inp, value, state=None):
        v = self.view(inst, shape, value, state) if state is not None else value
        n = shape[0]
        keys = [k for b in range(len(shape) - 1) for k in inp[f"b{b}"]]
        m = len(keys)
        out = v["out"]
        want = min(n, m)
        conds = [("min(n, rows) row indices are returned", B(len(out) == want))]
        if len(out) != want:
            return conds
        order = Order(inst["T"], inst["desc"])
        idx = []
        for o in out:
            if not o.concrete:
                return conds + [("row indices are concrete on every path", B(False))]
            idx.append(o.v)
        conds.append(("row indices are valid and distinct", B(all(0 <= i < m for i in idx) and len(set(idx)) == len(idx))))
        if not (all(0 <= i < m for i in idx) and len(set(idx)) == len(idx)):
            return conds
        for a in range(len(idx) - 1):
            conds.append((f"selected rows are in sort order (position {a})", order.before_eq(keys[idx[a]], keys[idx[a + 1]])))
        if idx:
            last = keys[idx[-1]]
            for j in range(m):
                if j not in idx:
                    conds.append((f"no unselected row sorts strictly before a selected one (row {j})", bnot(order.before(keys[j], last))))
        return conds

    def random_inputs(self, rng, inst, shape):
        inp = {}
        for b, k in enumerate(shape[1:]):
            inp[f"b{b}"] = [I(inst["T"], rnd_int(rng, inst["T"], small=rng.random() < 0.6)) for _ in range(k)]
        # distinct keys only: with ties the unstable std sort and the executor's insertion-sort model may legitimately differ
        allk = [x.v for b in range(len(shape) - 1) for x in inp[f"b{b}"]]
        if len(set(allk)) != len(allk):
            vals = rng.sample(range(0, 200), len(allk))
            it = iter(vals)
            for b, k in enumerate(shape[1:]):
                inp[f"b{b}"] = [I(inst["T"], next(it)) for _ in range(k)]
        return inp

    def native(self, inst, shape, inp):
        if inp is None:
            return (inst["nat"], [])
        return (inst["nat"], [str(shape[0])] + [fmt_ints(inp[f"b{b}"]) for b in range(len(shape) - 1)])

    def parse_native(self, inst, shape, toks):
        return {"out": parse_ints(toks[1], "usize")}

    def native_view(self, inst, shape, v, st):
        return self.view(inst, shape, v, st)


# ----------------------------------------------------------------------------------------------------
# helpers for the simple per-row operators below
# ----------------------------------------------------------------------------------------------------
def extra_scratch_stubs():
    """Scratchpad::alias (output buffer becomes the same buffer as the input) and get_pinned (same as get)"""
    from .operators import scratch_stubs as _ss

    def idx(v):
        if isinstance(v, Ref):
            v = interp.navigate(v.cell.v, v.path)
        return v.fields[0].v

    def alias(ex, st, fr, path, args, m):
        b = st.env["bufs"].b
        b[idx(args[2])] = b[idx(args[1])]
        return UNIT

    def get_pinned(ex, st, fr, path, args, m):
        b = st.env["bufs"].b[idx(args[1])]
        v = b["data"].v
        return Ref(b["data"], (), (0, len(v.elems)))
    S = r"(?:^|::)Scratchpad::"
    return [(re.compile(S + r"alias::<"), alias), (re.compile(S + r"get_pinned::<"), get_pinned)]


class SimpleOp(OpExecSpec):
    """execute(stream) called once per batch on the same operator/scratchpad; subclasses give batches via `steps`"""
    diff_cases = 2

    def steps(self, inst, shape, inp):
        """-> list of (prepare(bufs) or None, stream: bool)"""
        return [(None, False)]

    def explore(self, ctx, ex, fn, inst, shape, inp, pre):
        ex.stubs = scratch_stubs() + extra_scratch_stubs()
        sname = self.struct_name(inst)
        fs = ctx.src().struct_fields(sname)
        vals = self.op_fields(ctx, inst, shape, inp)
        missing = [f for f in fs if f not in vals]
        if missing:
            raise interp.Unsupported(f"operator {sname} has fields the obligation does not know: {missing}")
        op = Agg("struct", [vals[f] for f in fs], name=sname)
        env = {"bufs": self.buffers(inst, shape, inp), "op": Cell(op)}
        calls = []
        for prep, stream in self.steps(inst, shape, inp):
            def build(env, prep=prep, stream=stream):
                if prep:
                    prep(env["bufs"])
                return [Ref(env["op"], (), None, False, True), I("bool", 1 if stream else 0), Ref(Cell(Opaque("scratchpad")), (), None, False, True)]
            calls.append((fn, build, self.tymap(inst)))
        return run_sequence(ex, pre, env, calls)

    def op_field(self, state, ctx_fields, name):
        op = state.env["op"].v
        return op.fields[ctx_fields.index(name)]

    def random_inputs(self, rng, inst, shape):
        return concretise(self.sym_inputs(inst, shape)[0], rng)


def setvec(i, elems, ty):
    def f(bufs):
        bufs.b[i] = {"data": Cell(VecObj(list(elems), ty)), "present": None}
    return f


def pbit(bm, i):
    if i // 8 >= len(bm):
        return B(False)
    return binop("Ne", binop("BitAnd", bm[i // 8], I("u8", 1 << (i % 8))), I("u8", 0))


def nb(n):
    return (n + 7) // 8


# ----------------------------------------------------------------------------------------------------
# C05.f  Select / SelectNullable: payload columns follow the sort / top-n permutation
# ----------------------------------------------------------------------------------------------------
class SelectSpec(SimpleOp):
    nullable = False

    def instantiations(self, tier):
        return [{"T": "i64", "nat": "op_select" + ("_nullable" if self.nullable else "")}]

    def op_type(self, inst):
        return ("SelectNullable" if self.nullable else "Select") + f"<{inst['T']}>"

    def shapes(self, tier, inst):
        # (rows, number of indices)
        # (10, 3) and (9, 9) exceed the path cap (one fork per selected row and index value): outside the claim
        return [(3, 2), (2, 0), (3, 3)] if tier == "quick" else [(3, 2), (2, 0), (3, 3), (1, 1), (4, 2)]

    def sym_inputs(self, inst, shape):
        n, k = shape
        inp = {"data": [sym(inst["T"], f"d{i}") if i < 5 else I(inst["T"], 100 + i) for i in range(n)],
               "idx": [sym("usize", f"i{j}") for j in range(k)]}
        pre = [z3.ULT(x.v, n) for x in inp["idx"]]
        if self.nullable:
            inp["present"] = [sym("u8", f"p{i}") for i in range(nb(n))]
        return inp, pre

    def op_fields(self, ctx, inst, shape, inp):
        return {"input": bufref(ctx, 0), "indices": bufref(ctx, 1), "output": bufref(ctx, 2)}

    def buffers(self, inst, shape, inp):
        b = Buffers()
        if self.nullable:
            b.nullable(0, inp["data"], inst["T"], inp["present"])
            b.nullable(2, [], inst["T"], [])
        else:
            b.vec(0, inp["data"], inst["T"])
            b.vec(2, [], inst["T"])
        b.vec(1, inp["idx"], "usize")
        return b

    def view(self, inst, shape, value, state):
        return {"err": self.result_is_err(value), "out": self.out_vec(state, 2), "present": self.out_present(state, 2) if self.nullable else None}

    def post(self, inst, shape, inp, value, state=None):
        v = self.view(inst, shape, value, state) if state is not None else value
        n, k = shape
        conds = [("never fails", B(not v["err"])), ("one output row per index", B(len(v["out"]) == k))]
        if len(v["out"]) != k:
            return conds
        for j in range(k):
            for i in range(n):
                here = binop("Eq", inp["idx"][j], I("usize", i))
                conds.append((f"output row {j} is input row indices[{j}]", implies(here, binop("Eq", v["out"][j], inp["data"][i]))))
                if self.nullable:
                    conds.append((f"output row {j} carries the NULL flag of input row indices[{j}]", implies(here, binop("Eq", pbit(v["present"], j), pbit(inp["present"], i)))))
        return conds

    def random_inputs(self, rng, inst, shape):
        n, k = shape
        inp = {"data": [I(inst["T"], rnd_int(rng, inst["T"])) for _ in range(n)], "idx": [I("usize", rng.randrange(n)) for _ in range(k)]}
        if self.nullable:
            inp["present"] = [I("u8", rng.randint(0, 255)) for _ in range(nb(n))]
        return inp

    def native(self, inst, shape, inp):
        if inp is None:
            return (inst["nat"], [])
        t = [fmt_ints(inp["data"]), fmt_ints(inp["idx"])]
        if self.nullable:
            t.append(fmt_ints(inp["present"]))
        return (inst["nat"], t)

    def parse_native(self, inst, shape, toks):
        return {"err": toks[0] == "err", "out": parse_ints(toks[1], inst["T"]), "present": parse_ints(toks[2], "u8") if self.nullable else None}

    def native_view(self, inst, shape, v, st):
        d = self.view(inst, shape, v, st)
        if self.nullable and d["present"] is not None:
            d["present"] = d["present"][:nb(len(d["out"]))]
        return d


class SelectNullableSpec(SelectSpec):
    nullable = True


# ----------------------------------------------------------------------------------------------------
# C05.g  SortBy / SortByNullable: the index permutation produced for ORDER BY
# ----------------------------------------------------------------------------------------------------
class SortBySpec(SimpleOp):
    nullable = False

    def instantiations(self, tier):
        nm = "op_sort_by" + ("_nullable" if self.nullable else "")
        # both directions x both sort algorithms in every tier (the four closures are separate code)
        out = [{"T": "i64", "C": "CmpLessThan", "desc": False, "stable": True, "nat": nm + "_i64_asc_stable"},
               {"T": "u8", "C": "CmpGreaterThan", "desc": True, "stable": False, "nat": nm + "_u8_desc_unstable"},
               {"T": "i64", "C": "CmpGreaterThan", "desc": True, "stable": True, "nat": nm + "_i64_desc_stable"},
               {"T": "u32", "C": "CmpLessThan", "desc": False, "stable": False, "nat": nm + "_u32_asc_unstable"}]
        return out

    def op_type(self, inst):
        return ("SortByNullable" if self.nullable else "SortBy") + f"<{inst['T']}, {inst['C']}>"

    def shapes(self, tier, inst):
        return [0, 1, 3] if tier == "quick" else [0, 1, 2, 3, 4]

    def sym_inputs(self, inst, shape):
        n = shape
        inp = {"rank": [sym(inst["T"], f"r{i}") for i in range(n)]}
        if self.nullable:
            inp["present"] = [sym("u8", f"p{i}") for i in range(nb(n))]
        return inp, []

    def op_fields(self, ctx, inst, shape, inp):
        return {"ranking": bufref(ctx, 0), "indices": bufref(ctx, 1), "output": bufref(ctx, 2), "stable": I("bool", 1 if inst["stable"] else 0), "c": phantom()}

    def buffers(self, inst, shape, inp):
        b = Buffers()
        if self.nullable:
            b.nullable(0, inp["rank"], inst["T"], inp["present"])
        else:
            b.vec(0, inp["rank"], inst["T"])
        b.vec(1, [I("usize", i) for i in range(shape)], "usize")
        return b

    def view(self, inst, shape, value, state):
        return {"err": self.result_is_err(value), "out": self.out_vec(state, 2)}

    def post(self, inst, shape, inp, value, state=None):
        v = self.view(inst, shape, value, state) if state is not None else value
        n = shape
        out = v["out"]
        conds = [("never fails", B(not v["err"])), ("output is a permutation of the row indices", B(len(out) == n and all(o.concrete for o in out) and sorted(o.v for o in out) == list(range(n))))]
        if not conds[1][1].v:
            return conds
        order = Order(inst["T"], inst["desc"])
        idx = [o.v for o in out]
        for a in range(n - 1):
            x, y = idx[a], idx[a + 1]
            kx, ky = inp["rank"][x], inp["rank"][y]
            if self.nullable:
                px, py = pbit(inp["present"], x), pbit(inp["present"], y)
                # NULL sorts after every value ascending and before every value descending
                if inst["desc"]:
                    ok = bor(bnot(px), band(px, py, order.before_eq(kx, ky)))
                    tie = bor(band(bnot(px), bnot(py)), band(px, py, binop("Eq", kx, ky)))
                else:
                    ok = bor(bnot(py), band(px, py, order.before_eq(kx, ky)))
                    tie = bor(band(bnot(px), bnot(py)), band(px, py, binop("Eq", kx, ky)))
            else:
                ok = order.before_eq(kx, ky)
                tie = binop("Eq", kx, ky)
            conds.append((f"rows at output positions {a},{a + 1} are in sort order (NULL last ascending / first descending)", ok))
            if inst["stable"]:
                conds.append((f"stable: tied rows keep their input order (positions {a},{a + 1})", implies(tie, B(x < y))))
        return conds

    def random_inputs(self, rng, inst, shape):
        n = shape
        # distinct keys (unstable std sort vs the executor's insertion-sort model may order ties differently)
        vals = rng.sample(range(0, 250), n)
        inp = {"rank": [I(inst["T"], x) for x in vals]}
        if self.nullable:
            # at most one NULL row so that no ties exist
            pres = [255] * nb(n)
            if n and rng.random() < 0.7:
                k = rng.randrange(n)
                pres[k // 8] &= ~(1 << (k % 8)) & 255
            inp["present"] = [I("u8", x) for x in pres]
        return inp

    def replay_variants(self, inst, shape, conc, label):
        """std's sort_unstable_by is an insertion sort (hence stable) below 21 elements: a stability counterexample found on a
        3-row model is replayed on tie-rich inputs long enough for the real unstable sort to reorder ties"""
        if "stable" not in label:
            return []
        out = []
        for n, f in ((64, lambda i: (i * 7) % 4), (100, lambda i: (i * 13) % 8), (64, lambda i: 3 - i % 4), (257, lambda i: (i * i) % 5)):
            c = {"rank": [I(inst["T"], f(i)) for i in range(n)]}
            if self.nullable:
                c["present"] = [I("u8", 255 if (k % 3) else 0xEF) for k in range(nb(n))]
            out.append((n, c))
        return out

    def native(self, inst, shape, inp):
        if inp is None:
            return (inst["nat"], [])
        t = [fmt_ints(inp["rank"])]
        if self.nullable:
            t.append(fmt_ints(inp["present"]))
        return (inst["nat"], t)

    def parse_native(self, inst, shape, toks):
        return {"err": toks[0] == "err", "out": parse_ints(toks[1], "usize")}


class SortByNullableSpec(SortBySpec):
    nullable = True


# ----------------------------------------------------------------------------------------------------
# C01.i  DeltaDecode (query-side decoding of delta-coded integer columns), batch by batch
# ----------------------------------------------------------------------------------------------------
class DeltaDecodeSpec(SimpleOp):
    def instantiations(self, tier):
        out = [{"T": "u8", "nat": "op_delta_decode_u8"}, {"T": "i64", "nat": "op_delta_decode_i64"}]
        if tier == "thorough":
            out += [{"T": "u16", "nat": "op_delta_decode_u16"}, {"T": "u32", "nat": "op_delta_decode_u32"}]
        return out

    def op_type(self, inst):
        return f"DeltaDecode<{inst['T']}>"

    def shapes(self, tier, inst):
        return [(2,), (1, 2)] if tier == "quick" else [(0,), (1,), (3,), (1, 2), (2, 0, 1)]

    def sym_inputs(self, inst, shape):
        inp = {"first": [sym("i64", "first")]}
        pre = []
        acc = z3.SignExt(64, inp["first"][0].v)
        for b, k in enumerate(shape):
            inp[f"b{b}"] = [sym(inst["T"], f"e{b}_{i}") for i in range(k)]
            for e in inp[f"b{b}"]:
                ext = z3.SignExt(128 - e.w, e.v) if inst["T"] == "i64" else z3.ZeroExt(128 - e.w, e.v)
                acc = acc + ext
                # precondition: the column's values (running sums) are i64 (the encoder only stores representable values)
                pre += [acc >= z3.BitVecVal(-(1 << 63), 128), acc <= z3.BitVecVal((1 << 63) - 1, 128)]
        return inp, pre

    def op_fields(self, ctx, inst, shape, inp):
        return {"encoded": bufref(ctx, 0), "decoded": bufref(ctx, 1), "previous": inp["first"][0]}

    def buffers(self, inst, shape, inp):
        b = Buffers()
        b.vec(0, [], inst["T"])
        b.vec(1, [], "i64")
        b.b["hist"] = []
        return b

    def steps(self, inst, shape, inp):
        out = []
        for b in range(len(shape)):
            def prep(bufs, b=b):
                if b > 0:
                    bufs.b["hist"] = bufs.b["hist"] + [list(bufs.b[1]["data"].v.elems)]
                bufs.b[0] = {"data": Cell(VecObj(list(inp[f"b{b}"]), inst["T"])), "present": None}
            out.append((prep, True))
        return out

    def view(self, inst, shape, value, state):
        bufs = state.env["bufs"].b
        return {"err": self.result_is_err(value), "batches": bufs["hist"] + [self.out_vec(state, 1)]}

    def post(self, inst, shape, inp, value, state=None):
        v = self.view(inst, shape, value, state) if state is not None else value
        conds = [("never fails", B(not v["err"])), ("one output batch per input batch", B(len(v["batches"]) == len(shape)))]
        if len(v["batches"]) != len(shape):
            return conds
        prev = inp["first"][0]
        for b, k in enumerate(shape):
            ob = v["batches"][b]
            conds.append((f"batch {b}: one decoded value per encoded value", B(len(ob) == k)))
            if len(ob) != k:
                return conds
            for i in range(k):
                prev = binop("Add", prev, cast_int(inp[f"b{b}"][i], "i64"))
                conds.append((f"batch {b} row {i}: decoded value == running sum of the deltas (carried across batches)", binop("Eq", ob[i], prev)))
        return conds

    def random_inputs(self, rng, inst, shape):
        inp = {"first": [I("i64", rng.randint(-1000, 1000))]}
        for b, k in enumerate(shape):
            inp[f"b{b}"] = [I(inst["T"], rnd_int(rng, inst["T"], small=True) if inst["T"] == "i64" else rng.randint(0, 200)) for _ in range(k)]
        return inp

    def native(self, inst, shape, inp):
        if inp is None:
            return (inst["nat"], [])
        return (inst["nat"], [str(inp["first"][0].v)] + [fmt_ints(inp[f"b{b}"]) for b in range(len(shape))])

    def parse_native(self, inst, shape, toks):
        return {"err": toks[0] == "err", "batches": [parse_ints(t, "i64") for t in toks[1:]]}


from ..mirsym.values import cast_int  # noqa: E402


# ----------------------------------------------------------------------------------------------------
# C04.g  bit-packed composite group keys: BitShiftLeftAdd then BitUnpack recovers every component
# ----------------------------------------------------------------------------------------------------
class BitPackRoundTripSpec(SimpleOp):
    """shape = rows.  pack = lo + (hi << w) with ParameterizedVecVecIntegerOperator<BitShiftLeftAdd>; then
    BitUnpackOperator{shift: 0, width: w} gives lo and BitUnpackOperator{shift: w, width: w2} gives hi."""
    diff_cases = 3

    def instantiations(self, tier):
        return [{"nat": "op_bitpack_roundtrip"}]

    def op_type(self, inst):
        return "ParameterizedVecVecIntegerOperator<BitShiftLeftAdd>"

    def shapes(self, tier, inst):
        return [0, 2] if tier == "quick" else [0, 1, 2, 3]

    def sym_inputs(self, inst, shape):
        n = shape
        w, w2 = sym("u8", "w"), sym("u8", "w2")
        inp = {"lo": [sym("i64", f"lo{i}") for i in range(n)], "hi": [sym("i64", f"hi{i}") for i in range(n)], "w": [w], "w2": [w2]}
        one = z3.BitVecVal(1, 64)
        pre = [z3.UGE(w.v, 1), z3.UGE(w2.v, 1), z3.ULE(z3.ZeroExt(8, w.v) + z3.ZeroExt(8, w2.v), 63)]
        for x in inp["lo"]:
            pre += [x.v >= 0, x.v < (one << z3.ZeroExt(56, w.v))]
        for x in inp["hi"]:
            pre += [x.v >= 0, x.v < (one << z3.ZeroExt(56, w2.v))]
        return inp, pre

    def op_fields(self, ctx, inst, shape, inp):
        return {"lhs": bufref(ctx, 0), "rhs": bufref(ctx, 1), "output": bufref(ctx, 2), "parameter": cast_int(inp["w"][0], "i64"), "op": phantom()}

    def buffers(self, inst, shape, inp):
        b = Buffers()
        b.vec(0, inp["lo"], "i64")
        b.vec(1, inp["hi"], "i64")
        b.vec(2, [], "i64")
        b.vec(3, [], "i64")
        b.vec(4, [], "i64")
        return b

    def explore(self, ctx, ex, fn, inst, shape, inp, pre):
        ex.stubs = scratch_stubs() + extra_scratch_stubs()
        fs = ctx.src().struct_fields("ParameterizedVecVecIntegerOperator")
        vals = self.op_fields(ctx, inst, shape, inp)
        missing = [f for f in fs if f not in vals]
        if missing:
            raise interp.Unsupported(f"ParameterizedVecVecIntegerOperator has unknown fields {missing}")
        op = Agg("struct", [vals[f] for f in fs], name="ParameterizedVecVecIntegerOperator")
        r = ex.resolve_method("BitUnpackOperator", "VecOperator", "execute")
        if r is None:
            raise interp.Unsupported("BitUnpackOperator::execute not found in the MIR of the current tree")
        unpack = r[0].parse()
        ufs = ctx.src().struct_fields("BitUnpackOperator")

        def mk_unpack(out, shift, width):
            vals = {"input": bufref(ctx, 2), "output": bufref(ctx, out), "shift": shift, "width": width}
            missing = [f for f in ufs if f not in vals]
            if missing:
                raise interp.Unsupported(f"BitUnpackOperator has unknown fields {missing}")
            return Agg("struct", [vals[f] for f in ufs], name="BitUnpackOperator")
        env = {"bufs": self.buffers(inst, shape, inp), "op": Cell(op), "u1": Cell(mk_unpack(3, I("u8", 0), inp["w"][0])), "u2": Cell(mk_unpack(4, inp["w"][0], inp["w2"][0]))}
        sp = lambda: Ref(Cell(Opaque("scratchpad")), (), None, False, True)
        calls = [(fn, lambda env: [Ref(env["op"], (), None, False, True), I("bool", 0), sp()], self.tymap(inst)),
                 (unpack, lambda env: [Ref(env["u1"], (), None, False, True), I("bool", 0), sp()], dict(r[1])),
                 (unpack, lambda env: [Ref(env["u2"], (), None, False, True), I("bool", 0), sp()], dict(r[1]))]
        return run_sequence(ex, pre, env, calls)

    def view(self, inst, shape, value, state):
        return {"err": self.result_is_err(value), "lo": self.out_vec(state, 3), "hi": self.out_vec(state, 4)}

    def post(self, inst, shape, inp, value, state=None):
        v = self.view(inst, shape, value, state) if state is not None else value
        n = shape
        conds = [("never fails", B(not v["err"])), ("one unpacked value per row", B(len(v["lo"]) == n and len(v["hi"]) == n))]
        if not conds[1][1].v:
            return conds
        for i in range(n):
            conds.append((f"row {i}: low component recovered from the packed key", binop("Eq", v["lo"][i], inp["lo"][i])))
            conds.append((f"row {i}: high component recovered from the packed key", binop("Eq", v["hi"][i], inp["hi"][i])))
        return conds

    def random_inputs(self, rng, inst, shape):
        n = shape
        w, w2 = rng.randint(1, 31), rng.randint(1, 31)
        return {"lo": [I("i64", rng.randrange(1 << w)) for _ in range(n)], "hi": [I("i64", rng.randrange(1 << w2)) for _ in range(n)], "w": [I("u8", w)], "w2": [I("u8", w2)]}

    def native(self, inst, shape, inp):
        if inp is None:
            return (inst["nat"], [])
        return (inst["nat"], [fmt_ints(inp["lo"]), fmt_ints(inp["hi"]), str(inp["w"][0].v), str(inp["w2"][0].v)])

    def parse_native(self, inst, shape, toks):
        return {"err": toks[0] == "err", "lo": parse_ints(toks[1], "i64"), "hi": parse_ints(toks[2], "i64")}


# ----------------------------------------------------------------------------------------------------
# C05.h / C04.h  FuseNullsI64 + UnfuseNullsI64, FuseIntNulls + UnfuseIntNulls (NULL <-> in-band marker around sort / group-by)
# ----------------------------------------------------------------------------------------------------
class FuseNullsI64Spec(SimpleOp):
    def instantiations(self, tier):
        return [{"nat": "op_fuse_nulls_i64"}]

    def op_type(self, inst):
        return "FuseNullsI64"

    def shapes(self, tier, inst):
        return [0, 3, 9] if tier == "quick" else [0, 1, 3, 8, 9]      # 17 rows exceed the path cap (2^17 null-map paths)

    def sym_inputs(self, inst, shape):
        n = shape
        return {"data": [sym("i64", f"d{i}") if i < 4 else I("i64", i) for i in range(n)], "present": [sym("u8", f"p{i}") for i in range(nb(n))]}, []

    def op_fields(self, ctx, inst, shape, inp):
        return {"input": bufref(ctx, 0), "fused": bufref(ctx, 1)}

    def buffers(self, inst, shape, inp):
        b = Buffers()
        b.nullable(0, inp["data"], "i64", inp["present"])
        b.vec(1, [], "i64")
        return b

    def view(self, inst, shape, value, state):
        return {"err": self.result_is_err(value), "out": self.out_vec(state, 1)}

    def post(self, inst, shape, inp, value, state=None):
        v = self.view(inst, shape, value, state) if state is not None else value
        n = shape
        conds = [("never fails", B(not v["err"])), ("one fused value per row", B(len(v["out"]) == n))]
        if len(v["out"]) != n:
            return conds
        null = I("i64", (1 << 63) - 1)
        for i in range(n):
            conds.append((f"row {i}: value if present, the NULL marker (i64::MAX) otherwise", binop("Eq", v["out"][i], ite(pbit(inp["present"], i), inp["data"][i], null))))
        return conds

    def native(self, inst, shape, inp):
        if inp is None:
            return (inst["nat"], [])
        return (inst["nat"], [fmt_ints(inp["data"]), fmt_ints(inp["present"])])

    def parse_native(self, inst, shape, toks):
        return {"err": toks[0] == "err", "out": parse_ints(toks[1], "i64")}


class UnfuseNullsI64Spec(SimpleOp):
    def instantiations(self, tier):
        return [{"nat": "op_unfuse_nulls_i64"}]

    def op_type(self, inst):
        return "UnfuseNullsI64"

    def shapes(self, tier, inst):
        return [0, 3, 8] if tier == "quick" else [0, 1, 3, 7, 8, 9]      # 16 rows exceed the path cap

    def sym_inputs(self, inst, shape):
        return {"fused": [sym("i64", f"d{i}") for i in range(shape)]}, []

    def op_fields(self, ctx, inst, shape, inp):
        return {"fused": bufref(ctx, 0), "present": bufref(ctx, 1), "unfused": bufref(ctx, 2)}

    def buffers(self, inst, shape, inp):
        b = Buffers()
        b.vec(0, inp["fused"], "i64")
        return b

    def view(self, inst, shape, value, state):
        return {"err": self.result_is_err(value), "present": self.out_vec(state, 1)}

    def post(self, inst, shape, inp, value, state=None):
        v = self.view(inst, shape, value, state) if state is not None else value
        n = shape
        conds = [("never fails", B(not v["err"])), ("null map covers every row", B(len(v["present"]) >= nb(n)))]
        if len(v["present"]) < nb(n):
            return conds
        null = I("i64", (1 << 63) - 1)
        for i in range(n):
            conds.append((f"row {i}: present exactly when the fused value is not the NULL marker", binop("Eq", pbit(v["present"], i), binop("Ne", inp["fused"][i], null))))
        return conds

    def random_inputs(self, rng, inst, shape):
        return {"fused": [I("i64", rng.choice([(1 << 63) - 1, 0, 5, -1, (1 << 63) - 2])) for _ in range(shape)]}

    def native(self, inst, shape, inp):
        if inp is None:
            return (inst["nat"], [])
        return (inst["nat"], [fmt_ints(inp["fused"])])

    def parse_native(self, inst, shape, toks):
        return {"err": toks[0] == "err", "present": parse_ints(toks[1], "u8")}

    def native_view(self, inst, shape, v, st):
        return self.view(inst, shape, v, st)


# ----------------------------------------------------------------------------------------------------
# C04.i  CompactNullable / CompactWithNullable / CompactNullableNullable: aggregate slots of existing groups survive with NULL flags
# ----------------------------------------------------------------------------------------------------
class CompactNullableFamilySpec(SimpleOp):
    def instantiations(self, tier):
        return [{"kind": "cn", "T": "i64", "U": "u8", "nat": "op_compact_nullable"},
                {"kind": "cwn", "T": "i64", "U": "u8", "nat": "op_compact_with_nullable"},
                {"kind": "cnn", "T": "i64", "U": "u8", "nat": "op_compact_nullable_nullable"}]

    def op_type(self, inst):
        nm = {"cn": "CompactNullable", "cwn": "CompactWithNullable", "cnn": "CompactNullableNullable"}[inst["kind"]]
        return f"{nm}<{inst['T']}, {inst['U']}>"

    def shapes(self, tier, inst):
        return [0, 3, 9] if tier == "quick" else [0, 1, 2, 3, 4, 9]

    def sym_inputs(self, inst, shape):
        n = shape
        inp = {"data": [sym("i64", f"d{i}") if i < 4 else I("i64", i) for i in range(n)],
               "select": [sym("u8", f"s{i}") if i < 5 else I("u8", i % 2) for i in range(n)]}
        if inst["kind"] in ("cn", "cnn"):
            inp["present"] = [sym("u8", f"p{i}") for i in range(nb(n))]
        if inst["kind"] in ("cwn", "cnn"):
            inp["spresent"] = [sym("u8", f"q{i}") for i in range(nb(n))]
        return inp, []

    def op_fields(self, ctx, inst, shape, inp):
        return {"data": bufref(ctx, 0), "select": bufref(ctx, 1), "compacted": bufref(ctx, 2)}

    def buffers(self, inst, shape, inp):
        b = Buffers()
        if inst["kind"] in ("cn", "cnn"):
            b.nullable(0, inp["data"], "i64", inp["present"])
        else:
            b.vec(0, inp["data"], "i64")
        if inst["kind"] in ("cwn", "cnn"):
            b.nullable(1, inp["select"], "u8", inp["spresent"])
        else:
            b.vec(1, inp["select"], "u8")
        return b

    def view(self, inst, shape, value, state):
        return {"err": self.result_is_err(value), "out": self.out_vec(state, 0), "present": self.out_present(state, 0) if inst["kind"] in ("cn", "cnn") else None}

    def post(self, inst, shape, inp, value, state=None):
        v = self.view(inst, shape, value, state) if state is not None else value
        n = shape
        sel = [binop("Gt", s, I("u8", 0)) for s in inp["select"]]
        if inst["kind"] in ("cwn", "cnn"):
            sel = [band(s, pbit(inp["spresent"], i)) for i, s in enumerate(sel)]
        out = v["out"]
        conds = [("never fails", B(not v["err"]))]
        k = I("usize", 0)
        for i in range(n):
            for pos in range(len(out) + 1):
                here = band(sel[i], binop("Eq", k, I("usize", pos)))
                if pos < len(out):
                    conds.append((f"slot {i}, if kept as output slot {pos}, is copied unchanged", implies(here, binop("Eq", out[pos], inp["data"][i]))))
                    if v["present"] is not None:
                        conds.append((f"slot {i}: its NULL flag travels with it", implies(here, binop("Eq", pbit(v["present"], pos), pbit(inp["present"], i)))))
                else:
                    conds.append((f"slot {i}: every kept slot is in the output", bnot(here)))
            k = ite(sel[i], binop("Add", k, I("usize", 1)), k)
        conds.append(("exactly one output slot per existing group", binop("Eq", k, I("usize", len(out)))))
        return conds

    def random_inputs(self, rng, inst, shape):
        inp, _ = self.sym_inputs(inst, shape)
        out = {}
        for k, vs in inp.items():
            out[k] = [x if x.concrete else I(x.ty, rng.randint(0, 255) if k in ("present", "spresent") else rng.choice([0, 0, 1, 2, rnd_int(rng, x.ty)])) for x in vs]
        return out

    def native(self, inst, shape, inp):
        if inp is None:
            return (inst["nat"], [])
        t = [fmt_ints(inp["data"]), fmt_ints(inp["select"]), fmt_ints(inp.get("present", [])), fmt_ints(inp.get("spresent", []))]
        return (inst["nat"], t)

    def parse_native(self, inst, shape, toks):
        return {"err": toks[0] == "err", "out": parse_ints(toks[1], "i64"), "present": parse_ints(toks[2], "u8") if inst["kind"] in ("cn", "cnn") else None}

    def native_view(self, inst, shape, v, st):
        d = self.view(inst, shape, v, st)
        if d["present"] is not None:
            d["present"] = d["present"][:nb(len(d["out"]))]
        return d


# ----------------------------------------------------------------------------------------------------
# C04.j  FuseIntNulls -> UnfuseIntNulls: nullable integer group keys travel through grouping as value + offset with 0 = NULL
# ----------------------------------------------------------------------------------------------------
class FuseIntNullsSpec(SimpleOp):
    """FuseIntNulls<T>{offset} then UnfuseIntNulls<T>{offset} on the fused keys; offset = -min + 1 as the planner passes
    it (query_plan.rs: `planner.fuse_int_nulls(-min + 1, ..)` for an encoding range (min, max) with min <= 0)."""

    def instantiations(self, tier):
        out = [{"T": "u8", "nat": "op_fuse_int_nulls_u8"}, {"T": "i64", "nat": "op_fuse_int_nulls_i64"}]
        if tier == "thorough":
            out += [{"T": "u16", "nat": "op_fuse_int_nulls_u16"}, {"T": "u32", "nat": "op_fuse_int_nulls_u32"}]
        return out

    def op_type(self, inst):
        return f"FuseIntNulls<{inst['T']}>"

    def shapes(self, tier, inst):
        # (rows of this batch, rows already in UnfuseIntNulls' output from earlier batches of the same run)
        return [(0, 0), (2, 0), (2, 1)] if tier == "quick" else [(0, 0), (1, 0), (2, 0), (3, 0), (9, 0), (2, 1), (1, 8), (2, 9), (3, 3)]

    def sym_inputs(self, inst, shape):
        n, prev = shape
        T = inst["T"]
        inp = {"data": [sym(T, f"d{i}") if i < 3 else I(T, i) for i in range(n)], "present": [sym("u8", f"p{i}") for i in range(nb(n))],
               "min": [sym("i64", "min")], "max": [sym("i64", "max")],
               "pdata": [sym(T, f"q{i}") if i < 2 else I(T, 0) for i in range(prev)], "ppres": [sym("u8", f"pp{i}") for i in range(nb(prev))]}
        mn, mx = inp["min"][0].v, inp["max"][0].v
        w = INT_W[T]
        pre = [mn <= 0, mn <= mx]
        if prev % 8:
            # bits past the rows written so far are still zero (the bitmap is only ever grown with resize(.., 0) and set per row)
            pre.append(z3.LShR(inp["ppres"][-1].v, prev % 8) == 0)
        if T == "i64":
            # the planner computes -min + 1 and max - min + 1 in i64: only ranges for which that arithmetic is defined
            pre += [mn > -(1 << 62), mx < (1 << 62)]
            for x in inp["data"]:
                pre += [x.z() >= mn, x.z() <= mx]
        else:
            # encoded (unsigned) column: the encoding range of a T-encoded column lies within T
            # ... and compile_grouping_key / try_bitpacking widen the key to i64 before fusing unless max + offset fits T
            # (that guard is decided separately by C04.j/group_key_width)
            pre += [mn >= 0, mx <= (1 << w) - 1, mx - mn + 1 <= (1 << w) - 1]
            for x in inp["data"]:
                pre += [z3.ZeroExt(64 - w, x.z()) >= mn, z3.ZeroExt(64 - w, x.z()) <= mx]
        return inp, pre

    def offset(self, inst, inp):
        off64 = binop("Add", unop_neg(inp["min"][0]), I("i64", 1))
        return cast_int(off64, inst["T"])

    def op_fields(self, ctx, inst, shape, inp):
        return {"offset": self.offset(inst, inp), "input": bufref(ctx, 0), "fused": bufref(ctx, 1)}

    def buffers(self, inst, shape, inp):
        b = Buffers()
        b.nullable(0, inp["data"], inst["T"], inp["present"])
        b.vec(1, [], inst["T"])
        b.vec(2, list(inp["pdata"]), inst["T"])
        b.vec(3, list(inp["ppres"]), "u8")
        return b

    def explore(self, ctx, ex, fn, inst, shape, inp, pre):
        ex.stubs = scratch_stubs() + extra_scratch_stubs()
        fs = ctx.src().struct_fields("FuseIntNulls")
        vals = self.op_fields(ctx, inst, shape, inp)
        missing = [f for f in fs if f not in vals]
        if missing:
            raise interp.Unsupported(f"FuseIntNulls has unknown fields {missing}")
        op = Agg("struct", [vals[f] for f in fs], name="FuseIntNulls")
        r = ex.resolve_method(f"UnfuseIntNulls<{inst['T']}>", "VecOperator", "execute")
        if r is None:
            raise interp.Unsupported("UnfuseIntNulls::execute not found in the MIR of the current tree")
        unfuse = r[0].parse()
        ufs = ctx.src().struct_fields("UnfuseIntNulls")
        uvals = {"offset": self.offset(inst, inp), "fused": bufref(ctx, 1), "data": bufref(ctx, 2), "present": bufref(ctx, 3), "unfused": bufref(ctx, 4)}
        missing = [f for f in ufs if f not in uvals]
        if missing:
            raise interp.Unsupported(f"UnfuseIntNulls has unknown fields {missing}")
        uop = Agg("struct", [uvals[f] for f in ufs], name="UnfuseIntNulls")
        env = {"bufs": self.buffers(inst, shape, inp), "op": Cell(op), "uop": Cell(uop)}
        sp = lambda: Ref(Cell(Opaque("scratchpad")), (), None, False, True)
        calls = [(fn, lambda env: [Ref(env["op"], (), None, False, True), I("bool", 0), sp()], self.tymap(inst)),
                 (unfuse, lambda env: [Ref(env["uop"], (), None, False, True), I("bool", 0), sp()], dict(r[1]))]
        return run_sequence(ex, pre, env, calls)

    def view(self, inst, shape, value, state):
        return {"err": self.result_is_err(value), "fused": self.out_vec(state, 1), "data": self.out_vec(state, 2), "present": self.out_vec(state, 3)}

    def post(self, inst, shape, inp, value, state=None):
        v = self.view(inst, shape, value, state) if state is not None else value
        n, prev = shape
        T = inst["T"]
        conds = [("never fails", B(not v["err"])), ("one fused key and one decoded key per row", B(len(v["fused"]) == n and len(v["data"]) == prev + n and len(v["present"]) >= nb(prev + n)))]
        if not conds[1][1].v:
            return conds
        for i in range(prev):
            conds.append((f"earlier batch row {i}: decoded key and NULL flag untouched by a later batch",
                          band(binop("Eq", v["data"][i], inp["pdata"][i]), binop("Eq", pbit(v["present"], i), pbit(inp["ppres"], i)))))
        for i in range(n):
            p = pbit(inp["present"], i)
            conds.append((f"row {i}: NULL is fused to key 0, a value never is", binop("Eq", binop("Eq", v["fused"][i], I(T, 0)), bnot(p))))
            conds.append((f"row {i}: NULL-ness survives the grouping key round trip (output position {'prev+' if prev else ''}{i})", binop("Eq", pbit(v["present"], prev + i), p)))
            conds.append((f"row {i}: a present value survives the grouping key round trip", implies(p, binop("Eq", v["data"][prev + i], inp["data"][i]))))
            for j in range(i):
                pj = pbit(inp["present"], j)
                conds.append((f"rows {j},{i}: distinct values get distinct fused keys", implies(band(p, pj, binop("Ne", inp["data"][i], inp["data"][j])), binop("Ne", v["fused"][i], v["fused"][j]))))
        return conds

    def random_inputs(self, rng, inst, shape):
        n, prev = shape
        T = inst["T"]
        if T == "i64":
            mn = rng.choice([0, -5, -1000]); mx = mn + rng.choice([0, 3, 1000])
        else:
            mn = 0; mx = rng.randint(0, (1 << INT_W[T]) - 2)   # max + offset <= T::MAX
        return {"data": [I(T, rng.randint(mn, mx)) for _ in range(n)], "present": [I("u8", rng.randint(0, 255)) for _ in range(nb(n))], "min": [I("i64", mn)], "max": [I("i64", mx)],
                "pdata": [I(T, rng.randint(0, 5)) for _ in range(prev)],
                "ppres": [I("u8", rng.randint(0, 255) & ((1 << (prev - 8 * i)) - 1 if prev - 8 * i < 8 else 255)) for i in range(nb(prev))]}

    def native(self, inst, shape, inp):
        if inp is None:
            return (inst["nat"], [])
        off = (-inp["min"][0].v + 1) & ((1 << INT_W[inst["T"]]) - 1)
        if inst["T"] == "i64" and off >= (1 << 63):
            off -= 1 << 64
        return (inst["nat"], [fmt_ints(inp["data"]), fmt_ints(inp["present"]), str(off), fmt_ints(inp["pdata"]), fmt_ints(inp["ppres"])])

    def parse_native(self, inst, shape, toks):
        T = inst["T"]
        return {"err": toks[0] == "err", "fused": parse_ints(toks[1], T), "data": parse_ints(toks[2], T), "present": parse_ints(toks[3], "u8")}

    def native_view(self, inst, shape, v, st):
        return self.view(inst, shape, v, st)


def unop_neg(x):
    return binop("Sub", I(x.ty, 0), x)


from ..mirsym.values import INT_W  # noqa: E402


# ----------------------------------------------------------------------------------------------------
# C01.l : UnpackStrings - query-side decoding of packed string columns, batch by batch
# ----------------------------------------------------------------------------------------------------
from ..mirsym.models import seq_of  # noqa: E402


class UnpackStringsSpec(KernelSpec):
    """UnpackStrings::init then ::execute(streaming = true) repeatedly, as the executor drives a streaming producer: the batches,
    concatenated, are exactly the packed strings in order; no batch exceeds batch_size; has_more turns false after the last
    string.  shape = (string lengths, batch_size)"""
    diff_cases = 2

    def get_fn(self, ctx, inst):
        return None

    def instantiations(self, tier):
        return [{"nat": "op_unpack_strings"}]

    def shapes(self, tier, inst):
        out = [((1, 0, 2), 2), ((2, 1), 2), ((1,), 4), ((), 2), ((1, 1, 1, 1), 2)]
        if tier == "thorough":
            out += [((254, 255), 1), ((1, 2, 3), 1), ((0, 0, 0), 3), ((256,), 2)]
        return out

    def sym_inputs(self, inst, shape):
        lens, bs = shape
        return {"strs": [[sym("u8", f"s{i}_{j}") if j in (0, n - 1) else I("u8", 0x61 + (j % 26)) for j in range(n)] for i, n in enumerate(lens)]}, []

    def packed(self, strs):
        out = []
        for s in strs:
            n = len(s)
            while n > 254:
                out.append(I("u8", 255))
                n -= 255
            out.append(I("u8", n))
            out += list(s)
        return out

    def explore(self, ctx, ex, fn, inst, shape, inp, pre):
        lens, bs = shape
        ex.stubs = scratch_stubs() + extra_scratch_stubs()
        fs = ctx.src().struct_fields("UnpackStrings")
        if fs is None or set(fs) != {"packed", "unpacked", "iterator", "has_more"}:
            raise interp.Unsupported(f"UnpackStrings has unexpected fields {fs}")
        named = {"packed": bufref(ctx, 0), "unpacked": bufref(ctx, 1), "iterator": Agg("enum", [], name="Option", variant="None"), "has_more": I("bool", 1)}
        op = Agg("struct", [named[f] for f in fs], name="UnpackStrings")
        b = Buffers()
        b.vec(0, self.packed(inp["strs"]), "u8")
        b.vec(1, [], "&str")
        env = {"bufs": b, "op": Cell(op), "batches": Cell(VecObj([]))}
        init = ex.resolve_method("UnpackStrings", "VecOperator", "init")
        exe = ex.resolve_method("UnpackStrings", "VecOperator", "execute")
        if init is None or exe is None:
            raise interp.Unsupported("UnpackStrings::{init,execute} not found")
        self._fs = fs
        sp = lambda: Ref(Cell(Opaque("scratchpad")), (), None, False, True)
        opref = lambda env: Ref(env["op"], (), None, False, True)
        calls = [(init[0], lambda env: [opref(env), I("usize", 0), I("usize", bs), sp()], dict(init[1]))]
        rounds = (len(lens) // bs) + 2

        def snapshot(env):
            if env["op"].v.fields[fs.index("has_more")].concrete:
                pass
            out = env["bufs"].b[1]["data"].v
            env["batches"].v.elems.append(VecObj(list(out.elems)))
        for k in range(rounds):
            def build(env, k=k):
                if k > 0:
                    snapshot(env)
                return [opref(env), I("bool", 1), sp()]
            calls.append((exe[0], build, dict(exe[1])))
        outs = run_sequence(ex, pre, env, calls)
        for o in outs:
            if o.kind != "panic":
                snapshot(o.st.env)
        return outs

    def view(self, x):
        if isinstance(x, dict):
            return x
        env = x.env
        batches = []
        for bv in env["batches"].v.elems:
            one = []
            for r in bv.elems:
                el, lo, hi = seq_of(r)
                one.append(list(el[lo:hi]))
            batches.append(one)
        return {"batches": batches, "has_more": env["op"].v.fields[self._fs.index("has_more")]}

    def post(self, inst, shape, inp, value, state=None):
        lens, bs = shape
        v = self.view(state if state is not None else value)
        flat = [s for b in v["batches"] for s in b]
        conds = [("no batch exceeds batch_size", B(all(len(b) <= bs for b in v["batches"]))),
                 ("all strings are produced (concatenated batches have one entry per packed string)", B(len(flat) == len(lens))),
                 ("has_more is false once the strings are exhausted", binop("Eq", v["has_more"], B(False)))]
        if len(flat) != len(lens):
            return conds
        for i, (g, w) in enumerate(zip(flat, inp["strs"])):
            conds.append((f"string {i} comes back byte for byte, in order", band(B(len(g) == len(w)), *[binop("Eq", a, b) for a, b in zip(g, w)])))
        return conds

    def panic_ok(self, inst, shape, inp, msg):
        return B(False)

    def random_inputs(self, rng, inst, shape):
        inp, _ = self.sym_inputs(inst, shape)
        return {"strs": [[x if x.concrete else I("u8", rng.randint(0x41, 0x7a)) for x in s] for s in inp["strs"]]}

    def native(self, inst, shape, inp):
        if inp is None:
            return ("op_unpack_strings", [])
        lens, bs = shape
        rounds = (len(lens) // bs) + 2
        return ("op_unpack_strings", [",".join(bytes(b.v for b in s).hex() or "_" for s in inp["strs"]) or "-", bs, rounds])

    def parse_native(self, inst, shape, toks):
        batches = []
        for b in toks[1].split("|"):
            batches.append([] if b == "-" else [[I("u8", x) for x in (bytes.fromhex(h) if h != "_" else b"")] for h in b.split(",")])
        return {"batches": batches, "has_more": I("bool", toks[0] == "true")}

    def native_view(self, inst, shape, v, st):
        return self.view(st)
