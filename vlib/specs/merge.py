"""C02.a / C05.c / C02.b / C04.d : cross-partition merge kernels (operators/merge*.rs)"""
import z3

from .common import *

KEY_TYPES_QUICK = [("i64", "CmpLessThan", "lt"), ("i64", "CmpGreaterThan", "gt"), ("u8", "CmpLessThan", "lt")]
KEY_TYPES_THOROUGH = KEY_TYPES_QUICK + [("u32", "CmpGreaterThan", "gt"), ("u16", "CmpLessThan", "lt"), ("u64", "CmpLessThan", "lt"), ("u8", "CmpGreaterThan", "gt")]


def sorted_pre(order, xs, strict=False):
    out = []
    for a, b in zip(xs, xs[1:]):
        c = order.before(a, b) if strict else order.before_eq(a, b)
        out.append(c.z())
    return out


def rnd_sorted(rng, ty, n, desc, strict=False):
    xs = [rnd_int(rng, ty, small=rng.random() < 0.6) for _ in range(n)]
    if strict:
        xs = list(set(xs))
        while len(xs) < n:
            xs.append(rnd_int(rng, ty))
            xs = list(set(xs))
        xs = xs[:n]
    xs.sort(reverse=desc)
    return [I(ty, x) for x in xs]


class MergeSpec(KernelSpec):
    """merge::<T,C>(left, right, limit): stable merge of two sorted runs, truncated to `limit`"""
    fn_path = "engine::operators::merge::merge"
    diff_cases = 4

    def instantiations(self, tier):
        kt = KEY_TYPES_QUICK if tier == "quick" else KEY_TYPES_THOROUGH
        return [{"T": t, "C": c, "nat": f"merge_{t}_{s}"} for t, c, s in kt]

    def shapes(self, tier, inst):
        if tier == "quick":
            return [(0, 2), (2, 0), (1, 1), (2, 2), (3, 1)]
        return [(a, b) for a in range(0, 5) for b in range(0, 5) if a + b <= 8 and (inst["T"] == "i64" or a + b <= 5)]

    def sym_inputs(self, inst, shape):
        n, m = shape
        ty = inst["T"]
        order = Order(ty, inst["C"] == "CmpGreaterThan")
        l = [sym(ty, f"l{i}") for i in range(n)]
        r = [sym(ty, f"r{i}") for i in range(m)]
        limit = sym("usize", "limit")
        pre = sorted_pre(order, l) + sorted_pre(order, r)
        return {"l": l, "r": r, "limit": limit}, pre

    def make_args(self, inst, shape, inp):
        return [slice_arg(inp["l"]), slice_arg(inp["r"]), inp["limit"]]

    def post(self, inst, shape, inp, value, state=None):
        ty = inst["T"]
        order = Order(ty, inst["C"] == "CmpGreaterThan")
        l, r, limit = inp["l"], inp["r"], inp["limit"]
        out = elems_of(value.fields[0])
        ops = elems_of(value.fields[1])
        n, m = len(l), len(r)
        conds = []
        K = len(out)
        conds.append(("ops has one entry per output row", B(len(ops) == K)))
        if len(ops) != K:
            return conds
        # |out| = min(limit, n+m)
        tot = I("usize", n + m)
        want = ite(binop("Lt", limit, tot), limit, tot)
        conds.append(("output length == min(limit, |l|+|r|)", binop("Eq", I("usize", K), want)))
        # ops replay: 1 = next of left, 0 = next of right
        a = b = 0
        src = []
        okops = True
        for k in range(K):
            o = ops[k]
            if not o.concrete or o.v not in (0, 1):
                okops = False
                break
            if o.v == 1:
                if a >= n:
                    okops = False
                    break
                src.append(("l", a))
                conds.append((f"out[{k}] is the next left element", binop("Eq", out[k], l[a])))
                a += 1
            else:
                if b >= m:
                    okops = False
                    break
                src.append(("r", b))
                conds.append((f"out[{k}] is the next right element", binop("Eq", out[k], r[b])))
                b += 1
        conds.append(("ops is a valid interleaving of prefixes of left and right", B(okops)))
        if not okops:
            return conds
        for k in range(K - 1):
            if src[k][0] == "r" and src[k + 1][0] == "l":
                conds.append((f"stable order at {k}: right element only before a strictly later left element", order.before(out[k], out[k + 1])))
            else:
                conds.append((f"sorted at {k}", order.before_eq(out[k], out[k + 1])))
        # nothing left behind sorts before something taken
        if a < n and b > 0:
            conds.append(("last taken right element sorts strictly before first untaken left element", order.before(r[b - 1], l[a])))
        if b < m and a > 0:
            conds.append(("last taken left element sorts before-or-equal first untaken right element", order.before_eq(l[a - 1], r[b])))
        return conds

    def random_inputs(self, rng, inst, shape):
        n, m = shape
        ty = inst["T"]
        desc = inst["C"] == "CmpGreaterThan"
        return {"l": rnd_sorted(rng, ty, n, desc), "r": rnd_sorted(rng, ty, m, desc),
                "limit": I("usize", rng.choice([0, 1, 2, 3, n + m, n + m + 1, 2**64 - 1, rng.randint(0, n + m + 2)]))}

    def native(self, inst, shape, inp):
        if inp is None:
            return (inst["nat"], [])
        return (inst["nat"], [fmt_ints(inp["l"]), fmt_ints(inp["r"]), inp["limit"].v])

    def parse_native(self, inst, shape, toks):
        return Agg("tuple", [VecObj(parse_ints(toks[0], inst["T"])), VecObj(parse_ints(toks[1], "u8"))])


class MergeKeepSpec(KernelSpec):
    """merge_keep(ops, left, right): carry a payload column through the permutation recorded by merge"""
    fn_path = "engine::operators::merge_keep::merge_keep"
    diff_cases = 3

    def instantiations(self, tier):
        return [{"T": "i64", "nat": "merge_keep_i64"}] + ([] if tier == "quick" else [{"T": "u8", "nat": "merge_keep_u8"}])

    def shapes(self, tier, inst):
        # every concrete ops string up to a length; payload symbolic
        import itertools
        maxk = 3 if tier == "quick" else 5
        out = []
        for k in range(0, maxk + 1):
            for ops in itertools.product((0, 1), repeat=k):
                out.append(ops)
        return out

    def sym_inputs(self, inst, shape):
        a = sum(1 for o in shape if o == 1)
        b = len(shape) - a
        ty = inst["T"]
        return {"ops": [I("u8", o) for o in shape], "l": [sym(ty, f"l{i}") for i in range(a)], "r": [sym(ty, f"r{i}") for i in range(b)]}, []

    def make_args(self, inst, shape, inp):
        return [slice_arg(inp["ops"]), slice_arg(inp["l"]), slice_arg(inp["r"])]

    def post(self, inst, shape, inp, value, state=None):
        out = elems_of(value)
        conds = [("one output per op", B(len(out) == len(shape)))]
        if len(out) != len(shape):
            return conds
        a = b = 0
        for k, o in enumerate(shape):
            if o == 1:
                conds.append((f"out[{k}] == left[{a}]", binop("Eq", out[k], inp["l"][a])))
                a += 1
            else:
                conds.append((f"out[{k}] == right[{b}]", binop("Eq", out[k], inp["r"][b])))
                b += 1
        return conds

    def random_inputs(self, rng, inst, shape):
        if rng.random() < 0.6 and len(shape) > 0:
            return None
        a = sum(1 for o in shape if o == 1)
        b = len(shape) - a
        ty = inst["T"]
        return {"ops": [I("u8", o) for o in shape], "l": [I(ty, rnd_int(rng, ty)) for _ in range(a)], "r": [I(ty, rnd_int(rng, ty)) for _ in range(b)]}

    def native(self, inst, shape, inp):
        if inp is None:
            return (inst["nat"], [])
        return (inst["nat"], [fmt_ints(inp["ops"]), fmt_ints(inp["l"]), fmt_ints(inp["r"])])

    def parse_native(self, inst, shape, toks):
        return VecObj(parse_ints(toks[0], inst["T"]))


MERGEOPS = ["TakeLeft", "TakeRight", "MergeRight"]


def mop(v):
    return Agg("enum", [], name="MergeOp", variant=MERGEOPS[v])


def mop_index(x):
    if isinstance(x, Agg):
        return MERGEOPS.index(x.variant)
    return x.v


class MergeDedupSpec(KernelSpec):
    """merge_deduplicate::<T,C>(l, r) on strictly increasing group keys: strictly increasing union + MergeOps whose
    replay (TakeLeft/TakeRight copy, MergeRight = 'right key equals the last output key') reproduces the union."""
    fn_path = "engine::operators::merge_deduplicate::merge_deduplicate"
    diff_cases = 4

    def instantiations(self, tier):
        kt = KEY_TYPES_QUICK if tier == "quick" else KEY_TYPES_THOROUGH
        return [{"T": t, "C": c, "nat": f"merge_dedup_{t}_{s}"} for t, c, s in kt]

    def shapes(self, tier, inst):
        if tier == "quick":
            return [(0, 0), (0, 2), (2, 0), (1, 1), (2, 2), (1, 3)]
        return [(a, b) for a in range(0, 5) for b in range(0, 5) if a + b <= 7 and (inst["T"] == "i64" or a + b <= 5)]

    def sym_inputs(self, inst, shape):
        n, m = shape
        ty = inst["T"]
        order = Order(ty, inst["C"] == "CmpGreaterThan")
        l = [sym(ty, f"l{i}") for i in range(n)]
        r = [sym(ty, f"r{i}") for i in range(m)]
        return {"l": l, "r": r}, sorted_pre(order, l, strict=True) + sorted_pre(order, r, strict=True)

    def make_args(self, inst, shape, inp):
        return [slice_arg(inp["l"]), slice_arg(inp["r"])]

    def post(self, inst, shape, inp, value, state=None):
        order = Order(inst["T"], inst["C"] == "CmpGreaterThan")
        l, r = inp["l"], inp["r"]
        res = elems_of(value.fields[0])
        ops = [mop_index(o) for o in elems_of(value.fields[1])]
        n, m = len(l), len(r)
        conds = []
        i = j = 0
        k = -1
        ok = True
        for op in ops:
            if op == 0:
                k += 1
                if i >= n or k >= len(res):
                    ok = False
                    break
                conds.append((f"TakeLeft copies left[{i}]", binop("Eq", res[k], l[i])))
                i += 1
            elif op == 1:
                k += 1
                if j >= m or k >= len(res):
                    ok = False
                    break
                conds.append((f"TakeRight copies right[{j}]", binop("Eq", res[k], r[j])))
                j += 1
            else:
                if j >= m or k < 0:
                    ok = False
                    break
                conds.append((f"MergeRight only when right[{j}] equals the last output key", binop("Eq", res[k], r[j])))
                j += 1
        conds.append(("ops consume both inputs completely and produce every output row", B(ok and i == n and j == m and k + 1 == len(res))))
        for a, b in zip(res, res[1:]):
            conds.append(("group keys strictly increasing (each distinct key exactly once)", order.before(a, b)))
        return conds

    def random_inputs(self, rng, inst, shape):
        n, m = shape
        desc = inst["C"] == "CmpGreaterThan"
        return {"l": rnd_sorted(rng, inst["T"], n, desc, strict=True), "r": rnd_sorted(rng, inst["T"], m, desc, strict=True)}

    def native(self, inst, shape, inp):
        if inp is None:
            return (inst["nat"], [])
        return (inst["nat"], [fmt_ints(inp["l"]), fmt_ints(inp["r"])])

    def parse_native(self, inst, shape, toks):
        return Agg("tuple", [VecObj(parse_ints(toks[0], inst["T"])), VecObj([mop(int(x)) for x in toks[1].strip("[]").split(",") if x])])

    def native_view(self, inst, shape, v, st):
        return v


def valid_ops_strings(maxlen):
    """ops strings merge_deduplicate can emit: MergeRight only directly after a Take*, never two in a row"""
    import itertools
    out = []
    for k in range(0, maxlen + 1):
        for ops in itertools.product((0, 1, 2), repeat=k):
            good = True
            for idx, o in enumerate(ops):
                if o == 2 and (idx == 0 or ops[idx - 1] == 2):
                    good = False
            if good:
                out.append(ops)
    return out


AGGS = [("SumI64", 0), ("Count", 2), ("MaxI64", 3), ("MinI64", 5)]


class MergeAggregateSpec(KernelSpec):
    """merge_aggregate(ops, accL, accR, agg): per output group the combine of the partial aggregates ops says belong to it"""
    fn_path = "engine::operators::merge_aggregate::merge_aggregate"
    diff_cases = 2

    def instantiations(self, tier):
        return [{"T": "i64", "agg": a, "nat": "merge_aggregate_i64"} for a, _ in AGGS]

    def shapes(self, tier, inst):
        return valid_ops_strings(3 if tier == "quick" else 5)

    def _counts(self, shape):
        return sum(1 for o in shape if o == 0), sum(1 for o in shape if o != 0)

    def sym_inputs(self, inst, shape):
        a, b = self._counts(shape)
        l = [sym("i64", f"l{i}") for i in range(a)]
        r = [sym("i64", f"r{i}") for i in range(b)]
        pre = []
        if inst["agg"] == "Count":
            # counts are non-negative row counts (0 <= c < 2^40): the kernel adds them unchecked
            for x in l + r:
                pre += [x.v >= 0, x.v < (1 << 40)]
        return {"l": l, "r": r}, pre

    def make_args(self, inst, shape, inp):
        return [slice_arg([mop(o) for o in shape]), slice_arg(inp["l"]), slice_arg(inp["r"]),
                Agg("enum", [], name="Aggregator", variant=inst["agg"])]

    def _ref(self, inst, shape, inp):
        """reference: list of (value I, overflow I(bool)) per output group; NULL = i64::MAX is neutral"""
        NULL = I("i64", 2**63 - 1)
        l, r = inp["l"], inp["r"]
        if not l:
            return [(x, B(False)) for x in r], None
        if not r:
            return [(x, B(False)) for x in l], None
        out = []
        i = j = 0
        for o in shape:
            if o == 0:
                out.append((l[i], B(False)))
                i += 1
            elif o == 1:
                out.append((r[j], B(False)))
                j += 1
            else:
                cur, ovf = out[-1]
                x = r[j]
                j += 1
                an, bn = binop("Eq", cur, NULL), binop("Eq", x, NULL)
                agg = inst["agg"]
                if agg in ("SumI64", "Count"):
                    s = binop("AddWithOverflow", cur, x)
                    comb, o2 = s.fields
                    if agg == "Count":
                        o2 = B(False)
                elif agg == "MaxI64":
                    comb, o2 = ite(binop("Ge", cur, x), cur, x), B(False)
                else:
                    comb, o2 = ite(binop("Le", cur, x), cur, x), B(False)
                val = ite(an, x, ite(bn, cur, comb))
                o2 = band(o2, bnot(an), bnot(bn))
                out[-1] = (val, bor(ovf, o2))
        return out, None

    def post(self, inst, shape, inp, value, state=None):
        ref, _ = self._ref(inst, shape, inp)
        anyovf = bor(*[o for _, o in ref]) if ref else B(False)
        if value.variant == "Err":
            return [("Err only when a partial sum overflows", anyovf)]
        out = elems_of(value.fields[0])
        conds = [("Ok only when no partial sum overflows", bnot(anyovf)), ("one aggregate per output group", B(len(out) == len(ref)))]
        if len(out) == len(ref):
            for k, (v, _) in enumerate(ref):
                conds.append((f"aggregate of group {k} == combine of its partials", binop("Eq", out[k], v)))
        return conds

    def random_inputs(self, rng, inst, shape):
        if rng.random() < 0.7 and len(shape) > 1:
            return None
        a, b = self._counts(shape)
        small = inst["agg"] == "Count"
        mk = lambda: I("i64", abs(rnd_int(rng, "i64", small=True)) if small else rnd_int(rng, "i64"))
        return {"l": [mk() for _ in range(a)], "r": [mk() for _ in range(b)]}

    def native(self, inst, shape, inp):
        if inp is None:
            return (inst["nat"], [])
        return (inst["nat"], ["[" + ",".join(str(o) for o in shape) + "]", fmt_ints(inp["l"]), fmt_ints(inp["r"]), dict(AGGS)[inst["agg"]]])

    def parse_native(self, inst, shape, toks):
        if toks[0] == "err":
            return Agg("enum", [Agg("enum", [], name="QueryError", variant=toks[1])], name="Result", variant="Err")
        return Agg("enum", [VecObj(parse_ints(toks[1], "i64"))], name="Result", variant="Ok")

    def native_view(self, inst, shape, v, st):
        if v.variant == "Err":
            e = v.fields[0]
            return Agg("enum", [Agg("enum", [], name="QueryError", variant=e.variant)], name="Result", variant="Err")
        return v


class MergeDropSpec(KernelSpec):
    """merge_drop(ops, l, r): secondary grouping columns follow the same MergeOps (the merged right row is dropped)"""
    fn_path = "engine::operators::merge_drop::merge_drop"
    diff_cases = 2

    def instantiations(self, tier):
        return [{"T": "i64", "nat": "merge_drop_i64"}]

    def shapes(self, tier, inst):
        return valid_ops_strings(3 if tier == "quick" else 5)

    def sym_inputs(self, inst, shape):
        a = sum(1 for o in shape if o == 0)
        b = len(shape) - a
        return {"l": [sym("i64", f"l{i}") for i in range(a)], "r": [sym("i64", f"r{i}") for i in range(b)]}, []

    def make_args(self, inst, shape, inp):
        return [slice_arg([mop(o) for o in shape]), slice_arg(inp["l"]), slice_arg(inp["r"])]

    def post(self, inst, shape, inp, value, state=None):
        out = elems_of(value)
        want = []
        i = j = 0
        for o in shape:
            if o == 0:
                want.append(inp["l"][i])
                i += 1
            elif o == 1:
                want.append(inp["r"][j])
                j += 1
            else:
                j += 1
        conds = [("one value per output group", B(len(out) == len(want)))]
        if len(out) == len(want):
            for k, w in enumerate(want):
                conds.append((f"group {k} keeps the value of the row that created it", binop("Eq", out[k], w)))
        return conds

    def random_inputs(self, rng, inst, shape):
        if rng.random() < 0.7 and len(shape) > 1:
            return None
        a = sum(1 for o in shape if o == 0)
        b = len(shape) - a
        return {"l": [I("i64", rnd_int(rng, "i64")) for _ in range(a)], "r": [I("i64", rnd_int(rng, "i64")) for _ in range(b)]}

    def native(self, inst, shape, inp):
        if inp is None:
            return (inst["nat"], [])
        return (inst["nat"], ["[" + ",".join(str(o) for o in shape) + "]", fmt_ints(inp["l"]), fmt_ints(inp["r"])])

    def parse_native(self, inst, shape, toks):
        return VecObj(parse_ints(toks[0], "i64"))


class MergeKeepNullableSpec(KernelSpec):
    """merge_keep_nullable: payload values and their NULL bits follow the interleaving"""
    fn_path = "engine::operators::merge_keep::merge_keep_nullable"
    diff_cases = 2

    def instantiations(self, tier):
        return [{"T": "i64", "nat": "merge_keep_nullable_i64"}]

    def shapes(self, tier, inst):
        import itertools
        out = []
        lens = (0, 1, 2, 3) if tier == "quick" else (0, 1, 2, 3, 4, 9)
        for k in lens:
            if k <= 4:
                for ops in itertools.product((0, 1), repeat=k):
                    out.append(ops)
            else:
                out += [tuple([1, 0] * 4 + [1]), tuple([0] * 8 + [1]), tuple([1] * 8 + [0])]
        return out

    def sym_inputs(self, inst, shape):
        a = sum(1 for o in shape if o == 1)
        b = len(shape) - a
        nb = lambda n: (n + 7) // 8
        # null maps may be shorter than the data (trailing rows absent = NULL): lengths 0..ceil(n/8)
        return {"l": [sym("i64", f"l{i}") for i in range(a)], "r": [sym("i64", f"r{i}") for i in range(b)],
                "lp": [sym("u8", f"lp{i}") for i in range(nb(a))], "rp": [sym("u8", f"rp{i}") for i in range(nb(b))]}, []

    def make_args(self, inst, shape, inp):
        return [slice_arg([I("u8", o) for o in shape]), slice_arg(inp["l"]), slice_arg(inp["r"]), slice_arg(inp["lp"]), slice_arg(inp["rp"])]

    @staticmethod
    def bit(bm, i):
        if i // 8 >= len(bm):
            return B(False)
        return binop("Ne", binop("BitAnd", bm[i // 8], I("u8", 1 << (i % 8))), I("u8", 0))

    def post(self, inst, shape, inp, value, state=None):
        out = elems_of(value.fields[0])
        pres = elems_of(value.fields[1])
        conds = [("one output per op", B(len(out) == len(shape)))]
        if len(out) != len(shape):
            return conds
        a = b = 0
        for k, o in enumerate(shape):
            if o == 1:
                src_v, src_p = inp["l"][a], self.bit(inp["lp"], a)
                a += 1
            else:
                src_v, src_p = inp["r"][b], self.bit(inp["rp"], b)
                b += 1
            conds.append((f"out[{k}] carries the source value", binop("Eq", out[k], src_v)))
            conds.append((f"NULL bit of out[{k}] equals the source row's", binop("Eq", self.bit(pres, k), src_p)))
        return conds

    def random_inputs(self, rng, inst, shape):
        if rng.random() < 0.7 and len(shape) > 1:
            return None
        a = sum(1 for o in shape if o == 1)
        b = len(shape) - a
        nb = lambda n: (n + 7) // 8
        return {"l": [I("i64", rnd_int(rng, "i64")) for _ in range(a)], "r": [I("i64", rnd_int(rng, "i64")) for _ in range(b)],
                "lp": [I("u8", rng.randint(0, 255)) for _ in range(nb(a))], "rp": [I("u8", rng.randint(0, 255)) for _ in range(nb(b))]}

    def native(self, inst, shape, inp):
        if inp is None:
            return (inst["nat"], [])
        return (inst["nat"], ["[" + ",".join(str(o) for o in shape) + "]", fmt_ints(inp["l"]), fmt_ints(inp["r"]), fmt_ints(inp["lp"]), fmt_ints(inp["rp"])])

    def parse_native(self, inst, shape, toks):
        return Agg("tuple", [VecObj(parse_ints(toks[0], "i64")), VecObj(parse_ints(toks[1], "u8"))])


# ----------------------------------------------------------------------------------------------------
# C02.c / C05.c : two-level (multi-column) merge: partition -> subpartition -> merge_partitioned
# ----------------------------------------------------------------------------------------------------
def premerge(l, r):
    return Agg("struct", [I("u32", l), I("u32", r)], name="Premerge")


def ref_runs(order, l, r):
    """reference run decomposition is path dependent (symbolic keys); instead the post-condition checks local properties"""
    return None


class PartitionSpec(KernelSpec):
    """partition::<T,C>(left, right, limit) on two runs sorted by C: consecutive Premerge{left,right} runs, each covering
    only equal keys, in strictly increasing key order, together covering a prefix of both inputs that is complete when
    limit >= |l|+|r| and covers at least `limit` elements otherwise"""
    fn_path = "engine::operators::partition::partition"
    diff_cases = 3

    def instantiations(self, tier):
        kt = [("i64", "CmpLessThan", "lt"), ("u8", "CmpGreaterThan", "gt")] if tier == "quick" else KEY_TYPES_THOROUGH
        return [{"T": t, "C": c, "nat": f"partition_{t}_{s}"} for t, c, s in kt]

    def shapes(self, tier, inst):
        if tier == "quick":
            return [(0, 0), (2, 0), (0, 2), (1, 2), (2, 2)]
        return [(a, b) for a in range(0, 4) for b in range(0, 4) if a + b <= 5]

    def sym_inputs(self, inst, shape):
        n, m = shape
        ty = inst["T"]
        order = Order(ty, inst["C"] == "CmpGreaterThan")
        l = [sym(ty, f"l{i}") for i in range(n)]
        r = [sym(ty, f"r{i}") for i in range(m)]
        return {"l": l, "r": r, "limit": sym("usize", "limit")}, sorted_pre(order, l) + sorted_pre(order, r)

    def make_args(self, inst, shape, inp):
        return [slice_arg(inp["l"]), slice_arg(inp["r"]), inp["limit"]]

    def runs(self, value):
        out = []
        for p in elems_of(value):
            out.append((p.fields[0], p.fields[1]))
        return out

    def post(self, inst, shape, inp, value, state=None):
        order = Order(inst["T"], inst["C"] == "CmpGreaterThan")
        l, r, limit = inp["l"], inp["r"], inp["limit"]
        n, m = len(l), len(r)
        runs = self.runs(value) if not isinstance(value, list) else value
        conds = []
        i = j = 0
        prev = None
        okshape = True
        for k, (a, b) in enumerate(runs):
            if not (a.concrete and b.concrete):
                return [("run lengths are determined", B(False))]
            a, b = a.v, b.v
            if a + b == 0 or i + a > n or j + b > m:
                okshape = False
                break
            elems = l[i:i + a] + r[j:j + b]
            for e in elems[1:]:
                conds.append((f"run {k} holds equal keys only", binop("Eq", e, elems[0])))
            if prev is not None:
                conds.append((f"run {k} starts a strictly later key than run {k-1}", order.before(prev, elems[0])))
            # maximality: the next unconsumed element on either side is not equal to this run's key
            if i + a < n:
                conds.append((f"run {k} takes every left row with its key", binop("Ne", l[i + a], elems[0])))
            if j + b < m:
                conds.append((f"run {k} takes every right row with its key", binop("Ne", r[j + b], elems[0])))
            # the run's key is the smallest unconsumed key
            if i + a < n:
                conds.append((f"run {k} key sorts before the remaining left rows", order.before(elems[0], l[i + a])))
            if j + b < m:
                conds.append((f"run {k} key sorts before the remaining right rows", order.before(elems[0], r[j + b])))
            prev = elems[0]
            i += a
            j += b
        conds.append(("runs are non-empty and stay inside both inputs", B(okshape)))
        if not okshape:
            return conds
        complete = (i == n and j == m)
        conds.append(("all rows are covered when the limit allows, otherwise at least `limit` rows",
                      B(True) if complete else binop("Ge", I("usize", i + j), limit)))
        return conds

    def random_inputs(self, rng, inst, shape):
        n, m = shape
        desc = inst["C"] == "CmpGreaterThan"
        pool = [rnd_int(rng, inst["T"], small=True) for _ in range(3)]
        mk = lambda k: [I(inst["T"], x) for x in sorted((rng.choice(pool) for _ in range(k)), reverse=desc)]
        return {"l": mk(n), "r": mk(m), "limit": I("usize", rng.choice([0, 1, 2, n + m, 10, 2**64 - 1]))}

    def native(self, inst, shape, inp):
        if inp is None:
            return (inst["nat"], [])
        return (inst["nat"], [fmt_ints(inp["l"]), fmt_ints(inp["r"]), inp["limit"].v])

    def parse_native(self, inst, shape, toks):
        out = []
        if toks[0] != "-":
            for ent in toks[0].split(";"):
                a, b = ent.split(":")
                out.append((I("u32", int(a)), I("u32", int(b))))
        return out

    def native_view(self, inst, shape, v, st):
        return self.runs(v)


GROUPINGS_QUICK = [((1, 1),), ((2, 1),), ((1, 2),), ((1, 0), (1, 1)), ((2, 2),), ((0, 1), (1, 1))]
GROUPINGS_THOROUGH = GROUPINGS_QUICK + [((3, 1),), ((2, 1), (1, 2)), ((1, 1), (1, 1), (1, 0)), ((0, 2), (2, 0)), ((2, 3),)]


class MergePartitionedSpec(KernelSpec):
    """merge_partitioned(partitioning, left, right, limit): inside every first-key run the second-key values of both sides
    (each sorted within the run) are merged stably - a left row before a right row on ties - and the 0/1 ops say which side
    each output row came from; output length == min(limit, total)"""
    fn_path = "engine::operators::merge_partitioned::merge_partitioned"
    diff_cases = 2

    def instantiations(self, tier):
        kt = [("i64", "CmpLessThan", "lt"), ("u8", "CmpGreaterThan", "gt")] if tier == "quick" else [("i64", "CmpLessThan", "lt"), ("i64", "CmpGreaterThan", "gt"), ("u8", "CmpGreaterThan", "gt"), ("u32", "CmpLessThan", "lt")]
        return [{"T": t, "C": c, "nat": f"merge_partitioned_{t}_{s}"} for t, c, s in kt]

    def shapes(self, tier, inst):
        return GROUPINGS_QUICK if tier == "quick" else GROUPINGS_THOROUGH

    def sym_inputs(self, inst, shape):
        ty = inst["T"]
        order = Order(ty, inst["C"] == "CmpGreaterThan")
        n = sum(a for a, b in shape)
        m = sum(b for a, b in shape)
        l = [sym(ty, f"l{i}") for i in range(n)]
        r = [sym(ty, f"r{i}") for i in range(m)]
        pre = []
        i = j = 0
        for a, b in shape:
            pre += sorted_pre(order, l[i:i + a]) + sorted_pre(order, r[j:j + b])
            i += a
            j += b
        return {"l": l, "r": r, "limit": sym("usize", "limit")}, pre

    def make_args(self, inst, shape, inp):
        return [slice_arg([premerge(a, b) for a, b in shape]), slice_arg(inp["l"]), slice_arg(inp["r"]), inp["limit"]]

    def post(self, inst, shape, inp, value, state=None):
        order = Order(inst["T"], inst["C"] == "CmpGreaterThan")
        l, r, limit = inp["l"], inp["r"], inp["limit"]
        out = elems_of(value.fields[0])
        ops = elems_of(value.fields[1])
        tot = len(l) + len(r)
        K = len(out)
        conds = [("ops has one entry per output row", B(len(ops) == K)),
                 # limit == 0 is outside the claim: the function then returns every row (its `i + j == limit` test runs after the
                 # first push) and the final LIMIT truncation happens in convert_to_output_format, so no result depends on it
                 ("output length == min(limit, total rows) for limit >= 1", bor(binop("Eq", limit, I("usize", 0)), binop("Eq", I("usize", K), ite(binop("Lt", limit, I("usize", tot)), limit, I("usize", tot)))))]
        if len(ops) != K:
            return conds
        i0 = j0 = 0
        k = 0
        ok = True
        for a, b in shape:
            i, j = i0, j0
            src = []
            while k < K and (i - i0) + (j - j0) < a + b:
                o = ops[k]
                if not o.concrete or o.v not in (0, 1):
                    ok = False
                    break
                if o.v == 1:
                    if i >= i0 + a:
                        ok = False
                        break
                    conds.append((f"out[{k}] is the next left row of its run", binop("Eq", out[k], l[i])))
                    src.append(("l", i))
                    i += 1
                else:
                    if j >= j0 + b:
                        ok = False
                        break
                    conds.append((f"out[{k}] is the next right row of its run", binop("Eq", out[k], r[j])))
                    src.append(("r", j))
                    j += 1
                k += 1
            if not ok:
                break
            base = k - len(src)
            for t in range(len(src) - 1):
                x, y = out[base + t], out[base + t + 1]
                if src[t][0] == "r" and src[t + 1][0] == "l":
                    conds.append(("stable: a right row precedes a left row of the same run only if it sorts strictly before it", order.before(x, y)))
                else:
                    conds.append(("rows of a run come out sorted", order.before_eq(x, y)))
            # rows left behind in this run (only when the limit cut it) do not sort before taken ones
            if i < i0 + a and (j - j0) > 0:
                conds.append(("an untaken left row does not sort before-or-equal the last taken right row", order.before(r[j - 1], l[i])))
            if j < j0 + b and (i - i0) > 0:
                conds.append(("an untaken right row does not sort strictly before the last taken left row", order.before_eq(l[i - 1], r[j])))
            i0 += a
            j0 += b
        conds.append(("ops are a valid interleaving run by run", B(ok)))
        return conds

    def random_inputs(self, rng, inst, shape):
        desc = inst["C"] == "CmpGreaterThan"
        ty = inst["T"]
        l, r = [], []
        pool = [rnd_int(rng, ty, small=True) for _ in range(3)]
        for a, b in shape:
            l += [I(ty, x) for x in sorted((rng.choice(pool) for _ in range(a)), reverse=desc)]
            r += [I(ty, x) for x in sorted((rng.choice(pool) for _ in range(b)), reverse=desc)]
        tot = len(l) + len(r)
        return {"l": l, "r": r, "limit": I("usize", rng.choice([tot, tot + 1, 1, 2, 2**64 - 1, max(tot - 1, 1)]))}

    def native(self, inst, shape, inp):
        if inp is None:
            return (inst["nat"], [])
        return (inst["nat"], [";".join(f"{a}:{b}" for a, b in shape), fmt_ints(inp["l"]), fmt_ints(inp["r"]), inp["limit"].v])

    def parse_native(self, inst, shape, toks):
        return Agg("tuple", [VecObj(parse_ints(toks[0], inst["T"])), VecObj(parse_ints(toks[1], "u8"))])


class SubpartitionOpSpec(KernelSpec):
    """subpartition(partitioning, left, right): every first-key run is refined into runs of equal second keys in merged
    order (the run structure partition() would give inside that run)"""
    fn_path = "engine::operators::subpartition::subpartition"
    diff_cases = 2

    def instantiations(self, tier):
        return [{"T": "i64", "C": "CmpLessThan", "nat": "subpartition_i64_lt"}] + ([] if tier == "quick" else [{"T": "u8", "C": "CmpGreaterThan", "nat": "subpartition_u8_gt"}])

    def shapes(self, tier, inst):
        return GROUPINGS_QUICK if tier == "quick" else GROUPINGS_THOROUGH

    sym_inputs = MergePartitionedSpec.sym_inputs

    def make_args(self, inst, shape, inp):
        return [slice_arg([premerge(a, b) for a, b in shape]), slice_arg(inp["l"]), slice_arg(inp["r"])]

    def post(self, inst, shape, inp, value, state=None):
        order = Order(inst["T"], inst["C"] == "CmpGreaterThan")
        l, r = inp["l"], inp["r"]
        runs = [(p.fields[0], p.fields[1]) for p in elems_of(value)] if not isinstance(value, list) else value
        conds = []
        ri = 0
        i0 = j0 = 0
        ok = True
        for a, b in shape:
            i, j = i0, j0
            prev = None
            while (i - i0) < a or (j - j0) < b:
                if ri >= len(runs):
                    ok = False
                    break
                x, y = runs[ri]
                ri += 1
                if not (x.concrete and y.concrete) or x.v + y.v == 0 or i + x.v > i0 + a or j + y.v > j0 + b:
                    ok = False
                    break
                elems = l[i:i + x.v] + r[j:j + y.v]
                for e in elems[1:]:
                    conds.append(("a sub-run holds equal second keys only", binop("Eq", e, elems[0])))
                if prev is not None:
                    conds.append(("sub-runs of one run have strictly increasing keys", order.before(prev, elems[0])))
                if i + x.v < i0 + a:
                    conds.append(("a sub-run takes every left row of its key", order.before(elems[0], l[i + x.v])))
                if j + y.v < j0 + b:
                    conds.append(("a sub-run takes every right row of its key", order.before(elems[0], r[j + y.v])))
                prev = elems[0]
                i += x.v
                j += y.v
            if not ok:
                break
            i0 += a
            j0 += b
        conds.append(("sub-runs tile every run exactly", B(ok and ri == len(runs))))
        return conds

    def random_inputs(self, rng, inst, shape):
        d = MergePartitionedSpec.random_inputs(self, rng, inst, shape)
        d.pop("limit")
        return d

    def native(self, inst, shape, inp):
        if inp is None:
            return (inst["nat"], [])
        return (inst["nat"], [";".join(f"{a}:{b}" for a, b in shape), fmt_ints(inp["l"]), fmt_ints(inp["r"])])

    parse_native = PartitionSpec.parse_native

    def native_view(self, inst, shape, v, st):
        return [(p.fields[0], p.fields[1]) for p in elems_of(v)]


class MergeDedupPartitionedSpec(MergeDedupSpec):
    """merge_deduplicate_partitioned(partitioning, l, r): inside every first-key run the (per-side strictly increasing)
    second group keys are merged into their strictly increasing union; ops replay as in merge_deduplicate; a key of one run
    is never merged with an equal second key of another run"""
    fn_path = "engine::operators::merge_deduplicate_partitioned::merge_deduplicate_partitioned"
    diff_cases = 2

    def instantiations(self, tier):
        kt = [("i64", "CmpLessThan", "lt")] if tier == "quick" else [("i64", "CmpLessThan", "lt"), ("u8", "CmpLessThan", "lt"), ("u32", "CmpLessThan", "lt")]
        return [{"T": t, "C": c, "nat": f"merge_dedup_part_{t}_{s}"} for t, c, s in kt]

    def shapes(self, tier, inst):
        return GROUPINGS_QUICK + [((1, 1), (1, 1))] if tier == "quick" else GROUPINGS_THOROUGH

    def sym_inputs(self, inst, shape):
        ty = inst["T"]
        order = Order(ty, inst["C"] == "CmpGreaterThan")
        n = sum(a for a, b in shape)
        m = sum(b for a, b in shape)
        l = [sym(ty, f"l{i}") for i in range(n)]
        r = [sym(ty, f"r{i}") for i in range(m)]
        pre = []
        i = j = 0
        for a, b in shape:
            pre += sorted_pre(order, l[i:i + a], strict=True) + sorted_pre(order, r[j:j + b], strict=True)
            i += a
            j += b
        return {"l": l, "r": r}, pre

    def make_args(self, inst, shape, inp):
        return [slice_arg([premerge(a, b) for a, b in shape]), slice_arg(inp["l"]), slice_arg(inp["r"])]

    def post(self, inst, shape, inp, value, state=None):
        order = Order(inst["T"], inst["C"] == "CmpGreaterThan")
        l, r = inp["l"], inp["r"]
        res = elems_of(value.fields[0])
        ops = [mop_index(o) for o in elems_of(value.fields[1])]
        conds = []
        ok = len(ops) == len(l) + len(r)
        i0 = j0 = 0
        k = -1
        p = 0
        for a, b in shape:
            if not ok:
                break
            i, j = i0, j0
            first_k = k + 1
            for op in ops[p:p + a + b]:
                if op == 0:
                    k += 1
                    if i >= i0 + a or k >= len(res):
                        ok = False
                        break
                    conds.append((f"TakeLeft copies left[{i}]", binop("Eq", res[k], l[i])))
                    i += 1
                elif op == 1:
                    k += 1
                    if j >= j0 + b or k >= len(res):
                        ok = False
                        break
                    conds.append((f"TakeRight copies right[{j}]", binop("Eq", res[k], r[j])))
                    j += 1
                else:
                    if j >= j0 + b or k < first_k:
                        ok = False          # MergeRight into a row of the previous run (or nothing)
                        break
                    conds.append((f"MergeRight only when right[{j}] equals the last output key of the same run", binop("Eq", res[k], r[j])))
                    j += 1
            if ok and not (i == i0 + a and j == j0 + b):
                ok = False
            for x, y in zip(res[first_k:k + 1], res[first_k + 1:k + 1]):
                conds.append(("second group keys strictly increasing inside a run (each distinct key exactly once)", order.before(x, y)))
            p += a + b
            i0 += a
            j0 += b
        conds.append(("ops consume every run of both inputs completely and produce every output row", B(ok and k + 1 == len(res))))
        return conds

    def random_inputs(self, rng, inst, shape):
        desc = inst["C"] == "CmpGreaterThan"
        l, r = [], []
        for a, b in shape:
            l += rnd_sorted(rng, inst["T"], a, desc, strict=True)
            r += rnd_sorted(rng, inst["T"], b, desc, strict=True)
        return {"l": l, "r": r}

    def native(self, inst, shape, inp):
        if inp is None:
            return (inst["nat"], [])
        return (inst["nat"], [";".join(f"{a}:{b}" for a, b in shape), fmt_ints(inp["l"]), fmt_ints(inp["r"])])
