"""C02.a / C05.c / C02.b / C04.d : cross-partition merge kernels (operators/merge*.rs)"""
import z3

from .common import *

KEY_TYPES_QUICK = [("i64", "CmpLessThan", "lt"), ("i64", "CmpGreaterThan", "gt"), ("u8", "CmpLessThan", "lt")]
KEY_TYPES_THOROUGH = KEY_TYPES_QUICK + [("u32", "CmpGreaterThan", "gt"), ("u16", "CmpLessThan", "lt"), ("u64", "CmpLessThan", "lt"), ("u8", "CmpGreaterThan", "gt")]


def sorted_pre(order, xs, strict=False):
    out = []
    for a, b in zip(xs, xs[1:]):
        c = order.before(a, b) if strict else order.before_eq(a, b)
        out.append(c.z())
    return out


def rnd_sorted(rng, ty, n, desc, strict=False):
    xs = [rnd_int(rng, ty, small=rng.random() < 0.6) for _ in range(n)]
    if strict:
        xs = list(set(xs))
        while len(xs) < n:
            xs.append(rnd_int(rng, ty))
            xs = list(set(xs))
        xs = xs[:n]
    xs.sort(reverse=desc)
    return [I(ty, x) for x in xs]


class MergeSpec(KernelSpec):
    """merge::<T,C>(left, right, limit): stable merge of two sorted runs, truncated to `limit`"""
    fn_pattern = r"merge::merge"
    diff_cases = 4

    def instantiations(self, tier):
        kt = KEY_TYPES_QUICK if tier == "quick" else KEY_TYPES_THOROUGH
        return [{"T": t, "C": c, "nat": f"merge_{t}_{s}"} for t, c, s in kt]

    def shapes(self, tier, inst):
        if tier == "quick":
            return [(0, 2), (2, 0), (1, 1), (2, 2), (3, 1)]
        return [(a, b) for a in range(0, 5) for b in range(0, 5) if a + b <= 8 and (inst["T"] == "i64" or a + b <= 5)]

    def sym_inputs(self, inst, shape):
        n, m = shape
        ty = inst["T"]
        order = Order(ty, inst["C"] == "CmpGreaterThan")
        l = [sym(ty, f"l{i}") for i in range(n)]
        r = [sym(ty, f"r{i}") for i in range(m)]
        limit = sym("usize", "limit")
        pre = sorted_pre(order, l) + sorted_pre(order, r)
        return {"l": l, "r": r, "limit": limit}, pre

    def make_args(self, inst, shape, inp):
        return [slice_arg(inp["l"]), slice_arg(inp["r"]), inp["limit"]]

    def post(self, inst, shape, inp, value, state=None):
        ty = inst["T"]
        order = Order(ty, inst["C"] == "CmpGreaterThan")
        l, r, limit = inp["l"], inp["r"], inp["limit"]
        out = elems_of(value.fields[0])
        ops = elems_of(value.fields[1])
        n, m = len(l), len(r)
        conds = []
        K = len(out)
        conds.append(("ops has one entry per output row", B(len(ops) == K)))
        if len(ops) != K:
            return conds
        # |out| = min(limit, n+m)
        tot = I("usize", n + m)
        want = ite(binop("Lt", limit, tot), limit, tot)
        conds.append(("output length == min(limit, |l|+|r|)", binop("Eq", I("usize", K), want)))
        # ops replay: 1 = next of left, 0 = next of right
        a = b = 0
        src = []
        okops = True
        for k in range(K):
            o = ops[k]
            if not o.concrete or o.v not in (0, 1):
                okops = False
                break
            if o.v == 1:
                if a >= n:
                    okops = False
                    break
                src.append(("l", a))
                conds.append((f"out[{k}] is the next left element", binop("Eq", out[k], l[a])))
                a += 1
            else:
                if b >= m:
                    okops = False
                    break
                src.append(("r", b))
                conds.append((f"out[{k}] is the next right element", binop("Eq", out[k], r[b])))
                b += 1
        conds.append(("ops is a valid interleaving of prefixes of left and right", B(okops)))
        if not okops:
            return conds
        for k in range(K - 1):
            if src[k][0] == "r" and src[k + 1][0] == "l":
                conds.append((f"stable order at {k}: right element only before a strictly later left element", order.before(out[k], out[k + 1])))
            else:
                conds.append((f"sorted at {k}", order.before_eq(out[k], out[k + 1])))
        # nothing left behind sorts before something taken
        if a < n and b > 0:
            conds.append(("last taken right element sorts strictly before first untaken left element", order.before(r[b - 1], l[a])))
        if b < m and a > 0:
            conds.append(("last taken left element sorts before-or-equal first untaken right element", order.before_eq(l[a - 1], r[b])))
        return conds

    def random_inputs(self, rng, inst, shape):
        n, m = shape
        ty = inst["T"]
        desc = inst["C"] == "CmpGreaterThan"
        return {"l": rnd_sorted(rng, ty, n, desc), "r": rnd_sorted(rng, ty, m, desc),
                "limit": I("usize", rng.choice([0, 1, 2, 3, n + m, n + m + 1, 2**64 - 1, rng.randint(0, n + m + 2)]))}

    def native(self, inst, shape, inp):
        if inp is None:
            return (inst["nat"], [])
        return (inst["nat"], [fmt_ints(inp["l"]), fmt_ints(inp["r"]), inp["limit"].v])

    def parse_native(self, inst, shape, toks):
        return Agg("tuple", [VecObj(parse_ints(toks[0], inst["T"])), VecObj(parse_ints(toks[1], "u8"))])


class MergeKeepSpec(KernelSpec):
    """merge_keep(ops, left, right): carry a payload column through the permutation recorded by merge"""
    fn_pattern = r"merge_keep::merge_keep"
    diff_cases = 3

    def instantiations(self, tier):
        return [{"T": "i64", "nat": "merge_keep_i64"}] + ([] if tier == "quick" else [{"T": "u8", "nat": "merge_keep_u8"}])

    def shapes(self, tier, inst):
        # every concrete ops string up to a length; payload symbolic
        import itertools
        maxk = 3 if tier == "quick" else 5
        out = []
        for k in range(0, maxk + 1):
            for ops in itertools.product((0, 1), repeat=k):
                out.append(ops)
        return out

    def sym_inputs(self, inst, shape):
        a = sum(1 for o in shape if o == 1)
        b = len(shape) - a
        ty = inst["T"]
        return {"ops": [I("u8", o) for o in shape], "l": [sym(ty, f"l{i}") for i in range(a)], "r": [sym(ty, f"r{i}") for i in range(b)]}, []

    def make_args(self, inst, shape, inp):
        return [slice_arg(inp["ops"]), slice_arg(inp["l"]), slice_arg(inp["r"])]

    def post(self, inst, shape, inp, value, state=None):
        out = elems_of(value)
        conds = [("one output per op", B(len(out) == len(shape)))]
        if len(out) != len(shape):
            return conds
        a = b = 0
        for k, o in enumerate(shape):
            if o == 1:
                conds.append((f"out[{k}] == left[{a}]", binop("Eq", out[k], inp["l"][a])))
                a += 1
            else:
                conds.append((f"out[{k}] == right[{b}]", binop("Eq", out[k], inp["r"][b])))
                b += 1
        return conds

    def random_inputs(self, rng, inst, shape):
        if rng.random() < 0.6 and len(shape) > 0:
            return None
        a = sum(1 for o in shape if o == 1)
        b = len(shape) - a
        ty = inst["T"]
        return {"ops": [I("u8", o) for o in shape], "l": [I(ty, rnd_int(rng, ty)) for _ in range(a)], "r": [I(ty, rnd_int(rng, ty)) for _ in range(b)]}

    def native(self, inst, shape, inp):
        if inp is None:
            return (inst["nat"], [])
        return (inst["nat"], [fmt_ints(inp["ops"]), fmt_ints(inp["l"]), fmt_ints(inp["r"])])

    def parse_native(self, inst, shape, toks):
        return VecObj(parse_ints(toks[0], inst["T"]))
