"""C14.c / C16.e : ingestion message / log segment codec.  EventBuffer::serialize followed by EventBuffer::deserialize (both from
the MIR of locustdb-serialization) reproduce every table (name, row count) and every column in each of its representations
(dense f64, sparse f64, dense i64, sparse i64, strings, empty, mixed).  capnp runtime + generated accessors: environment model
(vlib/mirsym/capnp_model.py) driven by schemas/wal_segment.capnp; HashMap<String,_>: association list."""
import z3

from .common import *
from ..mirsym import interp
from ..mirsym.models import hashmap_new, hashmap_entries, seq_of
from ..pyengine import run_sequence


def rstr(bs):
    return VecObj(list(bs), "u8", is_str=True)


def cstr(b):
    return VecObj([I("u8", x) for x in b], "u8", is_str=True)


# table shapes: {table name: [(column name, kind, n)]}; within a table every non-empty column has the same number of entries
SHAPES = {
    "dense": {"t": [("a", "Dense", 2), ("c", "I64", 2)]},
    "sparse": {"t": [("b", "Sparse", 2), ("d", "SparseI64", 2)]},
    "strings": {"t": [("e", "String", 2), ("f", "Empty", 0)]},
    "mixed": {"m": [("g", "Mixed", "ifsn")]},
    "empty_table": {"z": []},
    "two_tables": {"t": [("a", "Dense", 1)], "u": [("c", "I64", 1), ("d", "SparseI64", 1)]},
    "mixed_more": {"m": [("g", "Mixed", "nsfi"), ("h", "Mixed", "ssnn")]},
}
QUICK = ["dense", "sparse", "strings", "mixed", "empty_table", "two_tables"]


def table_len(cols):
    ns = [len(n) if isinstance(n, str) else n for _, k, n in cols if k != "Empty"]
    return max(ns) if ns else 0


class EventBufferCodecSpec(KernelSpec):
    dumps = ("ser",)
    diff_cases = 1

    def get_fn(self, ctx, inst):
        return None

    def instantiations(self, tier):
        return [{"nat": "event_buffer_roundtrip"}]

    def shapes(self, tier, inst):
        return QUICK if tier == "quick" else list(SHAPES)

    def sym_inputs(self, inst, shape):
        inp = {}
        for t, cols in SHAPES[shape].items():
            for c, kind, n in cols:
                k = f"{t}.{c}"
                if kind == "Dense":
                    inp[k] = [sym("f64", f"{k}_{i}") for i in range(n)]
                elif kind == "I64":
                    inp[k] = [sym("i64", f"{k}_{i}") for i in range(n)]
                elif kind == "Sparse":
                    inp[k] = [(sym("u64", f"{k}_i{i}"), sym("f64", f"{k}_{i}")) for i in range(n)]
                elif kind == "SparseI64":
                    inp[k] = [(sym("u64", f"{k}_i{i}"), sym("i64", f"{k}_{i}")) for i in range(n)]
                elif kind == "String":
                    inp[k] = [[sym("u8", f"{k}_{i}_{j}") for j in range(i + 1)] for i in range(n)]
                elif kind == "Mixed":
                    vals = []
                    for i, ch in enumerate(n):
                        vals.append(sym("i64", f"{k}_{i}") if ch == "i" else sym("f64", f"{k}_{i}") if ch == "f" else [sym("u8", f"{k}_{i}_0")] if ch == "s" else None)
                    inp[k] = vals
        return inp, []

    def column_data(self, kind, n, vals):
        if kind == "Empty":
            return Agg("enum", [], name="ColumnData", variant="Empty")
        if kind in ("Dense", "I64"):
            return Agg("enum", [VecObj(list(vals), "f64" if kind == "Dense" else "i64")], name="ColumnData", variant=kind)
        if kind in ("Sparse", "SparseI64"):
            return Agg("enum", [VecObj([Agg("tuple", [i, v]) for i, v in vals])], name="ColumnData", variant=kind)
        if kind == "String":
            return Agg("enum", [VecObj([rstr(s) for s in vals])], name="ColumnData", variant="String")
        xs = []
        for ch, v in zip(n, vals):
            if ch == "i":
                xs.append(Agg("enum", [v], name="AnyVal", variant="Int"))
            elif ch == "f":
                xs.append(Agg("enum", [v], name="AnyVal", variant="Float"))
            elif ch == "s":
                xs.append(Agg("enum", [rstr(v)], name="AnyVal", variant="Str"))
            else:
                xs.append(Agg("enum", [], name="AnyVal", variant="Null"))
        return Agg("enum", [VecObj(xs)], name="ColumnData", variant="Mixed")

    def explore(self, ctx, ex, fn, inst, shape, inp, pre):
        src = ctx.src()
        tfs = src.struct_fields("TableBuffer")
        if tfs is None or set(tfs) != {"len", "columns"}:
            raise interp.Unsupported("TableBuffer{len, columns} not found in the current source")
        tables = []
        for t, cols in SHAPES[shape].items():
            cmap = hashmap_new([(cstr(c.encode()), Agg("struct", [self.column_data(kind, n, inp.get(f"{t}.{c}"))], name="ColumnBuffer")) for c, kind, n in cols])
            named = {"len": I("u64", table_len(cols)), "columns": cmap}
            tables.append((cstr(t.encode()), Agg("struct", [named[f] for f in tfs], name="TableBuffer")))
        eb = Agg("struct", [hashmap_new(tables)], name="EventBuffer")
        ser = [e for e in ex.impl_index().get("serialize", []) if e["hdr"]["self"].split("::")[-1] == "EventBuffer"]
        de = [e for e in ex.impl_index().get("deserialize", []) if e["hdr"]["self"].split("::")[-1] == "EventBuffer"]
        if len(ser) != 1 or len(de) != 1:
            raise interp.Unsupported("EventBuffer::{serialize,deserialize} not found uniquely")
        self._tfs = tfs
        calls = [(ser[0]["fn"], lambda env: [Ref(Cell(eb))], {}, "bytes"),
                 (de[0]["fn"], lambda env: [Ref(env["bytes"], (), (0, len(env["bytes"].v.elems)))], {})]
        return run_sequence(ex, pre, {}, calls)

    # ---- views ---------------------------------------------------------------------------------------------------------
    def view(self, value):
        """Result<EventBuffer> -> {table: (len I, {column: (kind, payload)})}"""
        if isinstance(value, dict) or value is None:
            return value
        if value.variant != "Ok":
            return None
        out = {}
        for te in hashmap_entries(value.fields[0].fields[0]):
            tname = bytes(e.v for e in te.fields[0].elems).decode()
            tb = te.fields[1]
            cols = {}
            for ce in hashmap_entries(tb.fields[self._tfs.index("columns")]):
                cname = bytes(e.v for e in ce.fields[0].elems).decode()
                d = ce.fields[1].fields[0]
                k = d.variant
                if k == "Empty":
                    pl = []
                elif k in ("Dense", "I64"):
                    pl = list(d.fields[0].elems)
                elif k in ("Sparse", "SparseI64"):
                    pl = [(p.fields[0], p.fields[1]) for p in d.fields[0].elems]
                elif k == "String":
                    pl = [list(s.elems) for s in d.fields[0].elems]
                else:
                    pl = []
                    for a in d.fields[0].elems:
                        pl.append(("n", None) if a.variant == "Null" else ("i", a.fields[0]) if a.variant == "Int" else ("f", a.fields[0]) if a.variant == "Float" else ("s", list(a.fields[0].elems)))
                cols[cname] = (k, pl)
            out[tname] = (tb.fields[self._tfs.index("len")], cols)
        return out

    def post(self, inst, shape, inp, value, state=None):
        got = self.view(value)
        if got is None:
            return [("deserialize(serialize(buffer)) is Ok", B(False))]
        want = SHAPES[shape]
        conds = [("same set of tables", B(set(got) == set(want)))]
        if set(got) != set(want):
            return conds

        def eqbits(a, b):
            return binop("Eq", I("u64", a.v) if a.ty == "f64" else a, I("u64", b.v) if b.ty == "f64" else b)

        def eqbytes(a, b):
            return band(B(len(a) == len(b)), *[binop("Eq", x, y) for x, y in zip(a, b)])
        for t, cols in want.items():
            glen, gcols = got[t]
            conds.append((f"table {t}: row count preserved", binop("Eq", glen, I("u64", table_len(cols)))))
            conds.append((f"table {t}: same set of columns", B(set(gcols) == {c for c, _, _ in cols})))
            if set(gcols) != {c for c, _, _ in cols}:
                continue
            for c, kind, n in cols:
                gk, gp = gcols[c]
                vals = inp.get(f"{t}.{c}")
                conds.append((f"column {t}.{c}: representation {kind} preserved", B(gk == kind)))
                if gk != kind or kind == "Empty":
                    continue
                conds.append((f"column {t}.{c}: number of entries preserved", B(len(gp) == len(vals))))
                if len(gp) != len(vals):
                    continue
                for i, (g, w) in enumerate(zip(gp, vals)):
                    if kind in ("Dense", "I64"):
                        conds.append((f"column {t}.{c} entry {i}: value preserved", eqbits(g, w)))
                    elif kind in ("Sparse", "SparseI64"):
                        conds.append((f"column {t}.{c} entry {i}: row index preserved", binop("Eq", g[0], w[0])))
                        conds.append((f"column {t}.{c} entry {i}: value preserved", eqbits(g[1], w[1])))
                    elif kind == "String":
                        conds.append((f"column {t}.{c} entry {i}: string preserved", eqbytes(g, w)))
                    else:
                        ch = n[i]
                        if g[0] != ch:
                            conds.append((f"column {t}.{c} entry {i}: kind preserved", B(False)))
                        elif ch in "if":
                            conds.append((f"column {t}.{c} entry {i}: value preserved", eqbits(g[1], w)))
                        elif ch == "s":
                            conds.append((f"column {t}.{c} entry {i}: string preserved", eqbytes(g[1], w)))
        return conds

    def panic_ok(self, inst, shape, inp, msg):
        return B(False)

    def random_inputs(self, rng, inst, shape):
        inp, _ = self.sym_inputs(inst, shape)

        def conc(v):
            if v is None:
                return None
            if isinstance(v, tuple):
                return tuple(conc(x) for x in v)
            if isinstance(v, list):
                return [conc(x) for x in v]
            if v.ty == "u8":
                return I("u8", rng.randint(0x61, 0x7a))
            if v.ty == "f64":
                return I("f64", rng.choice([0, 1 << 63, 0x3ff0000000000000, 0x7ff0000000000000, rng.getrandbits(62)]))
            if v.ty == "u64":
                return I("u64", rng.randint(0, 50))
            return I(v.ty, rnd_int(rng, v.ty))
        return {k: conc(v) for k, v in inp.items()}

    def native(self, inst, shape, inp):
        if inp is None:
            return ("event_buffer_roundtrip", [])
        toks = []
        for t, cols in SHAPES[shape].items():
            parts = []
            for c, kind, n in cols:
                vals = inp.get(f"{t}.{c}")
                if kind == "Empty":
                    parts.append(f"{c}:Empty")
                elif kind in ("Dense", "I64"):
                    parts.append(f"{c}:{kind}:{fmt_ints(vals)}")
                elif kind in ("Sparse", "SparseI64"):
                    parts.append(f"{c}:{kind}:{fmt_ints([i for i, _ in vals])}:{fmt_ints([v for _, v in vals])}")
                elif kind == "String":
                    parts.append(f"{c}:String:" + ",".join(bytes(b.v for b in s).hex() for s in vals))
                else:
                    parts.append(f"{c}:Mixed:" + ",".join("n" if ch == "n" else (ch + (bytes(b.v for b in v).hex() if ch == "s" else str(v.v))) for ch, v in zip(n, vals)))
            toks.append(t + "=" + (";".join(parts) or "-"))
        return ("event_buffer_roundtrip", toks)

    def parse_native(self, inst, shape, toks):
        out = {}
        for tok in toks:
            t, rest = tok.split("=", 1)
            ln, rest = rest.split("@", 1)
            cols = {}
            if rest != "-":
                for part in rest.split(";"):
                    p = part.split(":")
                    c, kind = p[0], p[1]
                    if kind == "Empty":
                        cols[c] = ("Empty", [])
                    elif kind in ("Dense", "I64"):
                        cols[c] = (kind, parse_ints(p[2], "f64" if kind == "Dense" else "i64"))
                    elif kind in ("Sparse", "SparseI64"):
                        cols[c] = (kind, list(zip(parse_ints(p[2], "u64"), parse_ints(p[3], "f64" if kind == "Sparse" else "i64"))))
                    elif kind == "String":
                        cols[c] = (kind, [[I("u8", b) for b in bytes.fromhex(h)] for h in p[2].split(",")] if p[2] else [])
                    else:
                        pl = []
                        for x in (p[2].split(",") if p[2] else []):
                            if x == "n":
                                pl.append(("n", None))
                            elif x[0] == "s":
                                pl.append(("s", [I("u8", b) for b in bytes.fromhex(x[1:])]))
                            else:
                                pl.append((x[0], I("i64" if x[0] == "i" else "f64", int(x[1:]))))
                        cols[c] = (kind, pl)
            out[t] = (I("u64", int(ln)), cols)
        return out

    def native_view(self, inst, shape, v, st):
        return self.view(v)


class WalSegmentCodecSpec(EventBufferCodecSpec):
    """disk_store::wal_segment::WalSegment::serialize -> deserialize: the segment id and the whole event buffer come back"""
    dumps = ("main", "ser")

    def instantiations(self, tier):
        return [{"nat": "wal_segment_roundtrip"}]

    def shapes(self, tier, inst):
        return ["dense", "sparse", "mixed", "two_tables"] if tier == "quick" else list(SHAPES)

    def sym_inputs(self, inst, shape):
        inp, pre = EventBufferCodecSpec.sym_inputs(self, inst, shape)
        inp["id"] = sym("u64", "segment_id")
        return inp, pre

    def explore(self, ctx, ex, fn, inst, shape, inp, pre):
        src = ctx.src()
        tfs = src.struct_fields("TableBuffer")
        wfs = src.struct_fields("WalSegment")
        if tfs is None or set(tfs) != {"len", "columns"} or wfs is None or set(wfs) != {"id", "data"}:
            raise interp.Unsupported("TableBuffer{len, columns} / WalSegment{id, data} not found in the current source")
        self._tfs = tfs
        self._wfs = wfs
        tables = []
        for t, cols in SHAPES[shape].items():
            cmap = hashmap_new([(cstr(c.encode()), Agg("struct", [self.column_data(kind, n, inp.get(f"{t}.{c}"))], name="ColumnBuffer")) for c, kind, n in cols])
            named = {"len": I("u64", table_len(cols)), "columns": cmap}
            tables.append((cstr(t.encode()), Agg("struct", [named[f] for f in tfs], name="TableBuffer")))
        eb = Agg("struct", [hashmap_new(tables)], name="EventBuffer")
        named = {"id": inp["id"], "data": Agg("enum", [Ref(Cell(eb))], name="Cow", variant="Borrowed")}
        ws = Agg("struct", [named[f] for f in wfs], name="WalSegment")
        ser = ex.resolve_method("WalSegment", None, "serialize")
        de = ex.resolve_method("WalSegment", None, "deserialize")
        if ser is None or de is None:
            raise interp.Unsupported("WalSegment::{serialize,deserialize} not found")
        calls = [(ser[0], lambda env: [Ref(Cell(ws))], {}, "bytes"),
                 (de[0], lambda env: [Ref(env["bytes"], (), (0, len(env["bytes"].v.elems)))], {})]
        return run_sequence(ex, pre, {}, calls)

    def view(self, value):
        if isinstance(value, dict) or value is None:
            return value
        if value.variant != "Ok":
            return None
        ws = value.fields[0]
        data = ws.fields[self._wfs.index("data")]
        eb = data.fields[0]
        from ..mirsym.models import deref_val
        while isinstance(eb, Ref):
            eb = deref_val(eb)
        d = EventBufferCodecSpec.view(self, Agg("enum", [eb], name="Result", variant="Ok"))
        d = dict(d)
        d["#id"] = ws.fields[self._wfs.index("id")]
        return d

    def post(self, inst, shape, inp, value, state=None):
        got = self.view(value)
        if got is None:
            return [("deserialize(serialize(segment)) is Ok", B(False))]
        got = dict(got)
        gid = got.pop("#id")
        return [("the segment id is preserved", binop("Eq", gid, inp["id"]))] + EventBufferCodecSpec.post(self, inst, shape, inp, got, state)

    def native(self, inst, shape, inp):
        if inp is None:
            return ("wal_segment_roundtrip", [])
        k, toks = EventBufferCodecSpec.native(self, inst, shape, inp)
        return ("wal_segment_roundtrip", [inp["id"].v] + toks)

    def parse_native(self, inst, shape, toks):
        d = EventBufferCodecSpec.parse_native(self, inst, shape, toks[1:])
        d["#id"] = I("u64", int(toks[0]))
        return d

    def random_inputs(self, rng, inst, shape):
        d = EventBufferCodecSpec.random_inputs(self, rng, inst, shape)
        d["id"] = I("u64", rng.randint(0, 1 << 40))
        return d
