"""C16.c : client row API -> wire column -> server column.  event_buffer::ColumnBuffer::push (the client-side builder, from the
MIR of locustdb-serialization) is called row by row as TableBuffer::push_row_and_timestamp does, then the server's
InputColumn::from_column_data (main crate) converts the wire column for ingestion.  Decides: every row's value (ints coerced
to floats once the column has seen a float - the documented degradation) or NULL arrives in its own row."""
import z3

from .common import *
from ..mirsym import interp
from ..pyengine import run_sequence
from ..mirsym.values import cast_int_to_float, Opaque


def rstr(bs):
    return VecObj(list(bs), "u8", is_str=True)


class EventBufferSpec(KernelSpec):
    """shape = row kinds: a string over i (Int), f (Float), n (Null/absent), s (Str)"""
    dumps = ("main", "ser")
    diff_cases = 2

    def get_fn(self, ctx, inst):
        return None

    def instantiations(self, tier):
        return [{"nat": "event_buffer_column"}]

    def shapes(self, tier, inst):
        import itertools
        out = [""]
        n = 3 if tier == "quick" else 4
        for k in range(1, n + 1):
            for seq in itertools.product("ifn", repeat=k):
                out.append("".join(seq))
        out += ["s", "ss", "sss"]
        # wire-built mixed columns (ColumnData::Mixed is never produced by push, but it is part of the wire format)
        out += ["W:ifsn", "W:", "W:nn"] + (["W:sfin", "W:iiff"] if tier == "thorough" else [])
        if tier == "quick":
            out += ["iinf", "nnii", "fnni", "innn"]
        else:
            out += ["iinfi", "nnnni", "ifnif", "fffnn", "iiiii"]
        return out

    def sym_inputs(self, inst, shape):
        vals = []
        for i, k in enumerate(shape[2:] if shape.startswith("W:") else shape):
            if k == "i":
                vals.append(sym("i64", f"i{i}"))
            elif k == "f":
                vals.append(sym("f64", f"f{i}"))
            elif k == "s":
                vals.append([sym("u8", f"s{i}")])
            else:
                vals.append(None)
        return {"vals": vals}, []

    def anyval(self, k, v):
        if k == "i":
            return Agg("enum", [v], name="AnyVal", variant="Int")
        if k == "f":
            return Agg("enum", [v], name="AnyVal", variant="Float")
        if k == "s":
            return Agg("enum", [rstr(v)], name="AnyVal", variant="Str")
        return Agg("enum", [], name="AnyVal", variant="Null")

    def explore(self, ctx, ex, fn, inst, shape, inp, pre):
        push = [e for e in ex.impl_index().get("push", []) if e["key"] == "ser" and e["hdr"]["self"].split("::")[-1] == "ColumnBuffer"]
        if len(push) != 1:
            raise interp.Unsupported(f"event_buffer::ColumnBuffer::push: {len(push)} candidates in the MIR of locustdb-serialization")
        push = push[0]["fn"]
        fcd = ex.resolve_method("InputColumn", None, "from_column_data")
        if fcd is None:
            raise interp.Unsupported("InputColumn::from_column_data not found")
        fcd = fcd[0]
        wire = shape.startswith("W:")
        kinds = shape[2:] if wire else shape
        data0 = Agg("enum", [VecObj([self.anyval(k, v) for k, v in zip(kinds, inp["vals"])])], name="ColumnData", variant="Mixed") if wire else Agg("enum", [], name="ColumnData", variant="Empty")
        cb = Agg("struct", [data0], name="ColumnBuffer")
        env = {"cb": Cell(cb)}
        calls = []
        if not wire:
            for i, k in enumerate(kinds):
                calls.append((push, lambda env, i=i, k=k: [Ref(env["cb"], (), None, False, True), self.anyval(k, inp["vals"][i]), I("u64", i)], {}))
        n = len(kinds)
        calls.append((fcd, lambda env: [env["cb"].v.fields[0], I("u64", n)], {}))
        return run_sequence(ex, pre, env, calls)

    def view(self, value):
        if isinstance(value, tuple):
            return value
        var = value.variant
        f = value.fields
        if var in ("Int", "Float"):
            return (var, list(f[0].elems))
        if var == "Str":
            return ("Str", [list(s.elems) for s in f[0].elems])
        if var == "Null":
            return ("Null", f[0])
        if var in ("NullableInt", "NullableFloat"):
            return (var, f[0], [(p.fields[0], p.fields[1]) for p in f[1].elems])
        if var == "Mixed":
            out = []
            for a in f[0].elems:
                if a.variant == "Null":
                    out.append(("n", None))
                elif a.variant == "Int":
                    out.append(("i", a.fields[0]))
                elif a.variant == "Float":
                    x = a.fields[0]
                    out.append(("f", x.fields[0] if isinstance(x, Agg) else x))
                else:
                    out.append(("s", list(a.fields[0].elems)))
            return ("Mixed", out)
        return (var, None)

    def post(self, inst, shape, inp, value, state=None):
        v = self.view(value)
        var = v[0]
        vals = inp["vals"]
        if shape.startswith("W:"):
            kinds = shape[2:]
            conds = [("a wire-built mixed column arrives as Mixed with one cell per row", B(var == "Mixed" and len(v[1]) == len(kinds)))]
            if var == "Mixed" and len(v[1]) == len(kinds):
                for i, (k, (gk, gv)) in enumerate(zip(kinds, v[1])):
                    if gk != k:
                        conds.append((f"row {i}: kind preserved", B(False)))
                    elif k == "i":
                        conds.append((f"row {i}: integer preserved", binop("Eq", gv, vals[i])))
                    elif k == "f":
                        conds.append((f"row {i}: float bits preserved", binop("Eq", I("u64", gv.v), I("u64", vals[i].v))))
                    elif k == "s":
                        conds.append((f"row {i}: string preserved", band(B(len(gv) == len(vals[i])), *[binop("Eq", a, b) for a, b in zip(gv, vals[i])])))
            return conds
        n = len(shape)
        kinds = set(shape)
        nonnull = [i for i, k in enumerate(shape) if k != "n"]
        is_float = "f" in kinds

        def same(got, i):
            k = shape[i]
            want = vals[i]
            if is_float:
                if k == "i":
                    want = cast_int_to_float(want, "f64")
                return binop("Eq", I("u64", got.v), I("u64", want.v))
            return binop("Eq", got, want)
        conds = []
        if not nonnull:
            return [("a column without values arrives as Null(rows)", B(var == "Null") if var != "Null" else binop("Eq", v[1], I("usize", n)))]
        if kinds <= set("s"):
            ok = var == "Str" and len(v[1]) == n
            conds.append(("a string column arrives as Str with one entry per row", B(ok)))
            if ok:
                for i in range(n):
                    conds.append((f"row {i}: string preserved", band(B(len(v[1][i]) == len(vals[i])), *[binop("Eq", a, b) for a, b in zip(v[1][i], vals[i])])))
            return conds
        want_dense = "Float" if is_float else "Int"
        want_sparse = "NullableFloat" if is_float else "NullableInt"
        if var == want_dense:
            conds.append(("a dense column has one value per row and no row was NULL", B(len(v[1]) == n and len(nonnull) == n)))
            if len(v[1]) == n and len(nonnull) == n:
                for i in range(n):
                    conds.append((f"row {i}: value preserved" + (" (ints coerced to float)" if is_float else ""), same(v[1][i], i)))
        elif var == want_sparse:
            rows, pairs = v[1], v[2]
            conds.append(("the sparse column covers all rows", binop("Eq", rows, I("u64", n))))
            conds.append(("one (index, value) pair per non-NULL row", B(len(pairs) == len(nonnull))))
            if len(pairs) == len(nonnull):
                for (idx, val), i in zip(pairs, nonnull):
                    conds.append((f"row {i}: listed under its own index (strictly increasing indices)", binop("Eq", idx, I("u64", i))))
                    conds.append((f"row {i}: value preserved" + (" (ints coerced to float)" if is_float else ""), same(val, i)))
        else:
            conds.append((f"the column arrives as {want_dense} or {want_sparse}", B(False)))
        return conds

    def panic_ok(self, inst, shape, inp, msg):
        return B(False)

    def random_inputs(self, rng, inst, shape):
        vals = []
        for k in (shape[2:] if shape.startswith("W:") else shape):
            if k == "i":
                vals.append(I("i64", rnd_int(rng, "i64")))
            elif k == "f":
                vals.append(I("f64", rng.choice([0, 1 << 63, 0x3ff0000000000000, 0x7ff0000000000000, 0xc008000000000000, rng.getrandbits(62)])))
            elif k == "s":
                vals.append([I("u8", rng.randint(0x61, 0x7a))])
            else:
                vals.append(None)
        return {"vals": vals}

    def native(self, inst, shape, inp):
        if inp is None:
            return ("event_buffer_column", [])
        toks = []
        for k, v in zip(shape[2:] if shape.startswith("W:") else shape, inp["vals"]):
            if k == "i":
                toks.append(f"i:{v.v}")
            elif k == "f":
                toks.append(f"f:{v.v}")
            elif k == "s":
                toks.append("s:" + bytes(x.v for x in v).hex())
            else:
                toks.append("n")
        return ("event_buffer_column", [("W:" if shape.startswith("W:") else "") + (",".join(toks) or "-")])

    def parse_native(self, inst, shape, toks):
        var = toks[0]
        if var == "Null":
            return ("Null", I("usize", int(toks[1])))
        if var == "Int":
            return ("Int", parse_ints(toks[1], "i64"))
        if var == "Float":
            return ("Float", parse_ints(toks[1], "f64"))
        if var == "Str":
            return ("Str", [] if toks[1] == "-" else [[I("u8", b) for b in bytes.fromhex(x)] for x in toks[1].split(",")])
        if var == "Mixed":
            out = []
            for x in ([] if toks[1] == "-" else toks[1].split(",")):
                out.append(("n", None) if x == "n" else ("i", I("i64", int(x[2:]))) if x.startswith("i:") else ("f", I("f64", int(x[2:]))) if x.startswith("f:") else ("s", [I("u8", b) for b in bytes.fromhex(x[2:])]))
            return ("Mixed", out)
        if var in ("NullableInt", "NullableFloat"):
            idx = parse_ints(toks[2], "u64")
            vs = parse_ints(toks[3], "i64" if var == "NullableInt" else "f64")
            return (var, I("u64", int(toks[1])), list(zip(idx, vs)))
        return (var, None)

    def native_view(self, inst, shape, v, st):
        return self.view(v)


# ----------------------------------------------------------------------------------------------------
# C16.g : the client's row API.  TableBuffer::push_row_and_timestamp row after row
# ----------------------------------------------------------------------------------------------------
import re as _re


class TableBufferRowsSpec(KernelSpec):
    """shape = tuple of rows, each a tuple of (column, kind) with kind in i/f/n/s.  After pushing the rows: TableBuffer.len == number
    of rows; every column mentioned holds, for every row, the value logged for it (ints coerced to float once the column has seen a
    float) or nothing (row did not mention the column / logged NULL); a `timestamp` column is added to rows that do not carry one.
    The wire column (dense / sparse / empty) is read back with the wire format's meaning: dense entry i = row i, sparse pair
    (r, v) = row r, everything else NULL."""
    dumps = ("ser",)
    diff_cases = 1

    def get_fn(self, ctx, inst):
        return None

    def instantiations(self, tier):
        return [{"nat": "table_buffer_rows"}]

    def shapes(self, tier, inst):
        out = [
            ((("a", "i"),), (("a", "i"), ("b", "f"))),                          # b first seen in row 1
            ((("a", "i"), ("b", "i")), (("a", "i"),), (("b", "f"),)),           # b skipped, then promoted to float
            ((("a", "n"),), (("a", "i"),)),                                      # explicit NULL first
            ((("a", "f"), ("timestamp", "f")), (("a", "i"),)),                   # explicit timestamp on one row only
            ((), (("a", "i"),)),                                                 # empty row
            ((("a", "s"),), (("a", "s"),)),
        ]
        if tier == "thorough":
            out += [((("a", "i"),), (), (("a", "f"),), (("a", "n"),)), ((("a", "i"), ("b", "n")), (("b", "n"),), (("b", "i"),)),
                    ((("timestamp", "i"),), (("timestamp", "f"),))]
        return out

    def sym_inputs(self, inst, shape):
        inp = {}
        for r, row in enumerate(shape):
            for c, k in row:
                key = f"{r}.{c}"
                inp[key] = sym("i64", "v" + key) if k == "i" else sym("f64", "v" + key) if k == "f" else [sym("u8", "v" + key)] if k == "s" else None
        return inp, []

    def anyval(self, k, v):
        return EventBufferSpec.anyval(None, k, v)

    def explore(self, ctx, ex, fn, inst, shape, inp, pre):
        tfs = ctx.src().struct_fields("TableBuffer")
        if tfs is None or set(tfs) != {"len", "columns"}:
            raise interp.Unsupported("TableBuffer{len, columns} not found")
        self._tfs = tfs
        from ..mirsym.models import hashmap_new
        named = {"len": I("u64", 0), "columns": hashmap_new()}
        tb = Agg("struct", [named[f] for f in tfs], name="TableBuffer")
        cand = [e for e in ex.impl_index().get("push_row_and_timestamp", []) if e["hdr"]["self"].split("::")[-1] == "TableBuffer"]
        if len(cand) != 1:
            raise interp.Unsupported("TableBuffer::push_row_and_timestamp not found")
        f = cand[0]["fn"]
        counter = [0]

        def now(ex_, st, fr, path, args, m):
            return Opaque("now")

        def since(ex_, st, fr, path, args, m):
            from ..mirsym.models import ok
            return ok(Opaque("duration"))

        def millis(ex_, st, fr, path, args, m):
            # the wall clock: concrete, whole seconds (the value is not the subject; keeps the f64 division exact)
            return I("u128", 5000)
        ex.stubs = [(_re.compile(r"SystemTime::now$"), now), (_re.compile(r"SystemTime::duration_since$"), since), (_re.compile(r"Duration::as_millis$"), millis)]
        env = {"tb": Cell(tb)}
        calls = []
        for r, row in enumerate(shape):
            def build(env, r=r, row=row):
                items = [Agg("tuple", [VecObj([I("u8", b) for b in c.encode()], "u8", is_str=True), self.anyval(k, inp[f"{r}.{c}"])]) for c, k in row]
                return [Ref(env["tb"], (), None, False, True), VecObj(items)]
            calls.append((f, build, {"Row": "std::vec::Vec<(std::string::String, AnyVal)>"}))
        return run_sequence(ex, pre, env, calls)

    def view(self, x):
        if isinstance(x, dict):
            return x
        from ..mirsym.models import hashmap_entries
        tb = x.env["tb"].v
        cols = {}
        for e in hashmap_entries(tb.fields[self._tfs.index("columns")]):
            name = bytes(b.v for b in e.fields[0].elems).decode()
            d = e.fields[1].fields[0]
            k = d.variant
            if k == "Empty":
                cols[name] = ("Empty", [])
            elif k in ("Dense", "I64"):
                cols[name] = (k, list(d.fields[0].elems))
            elif k in ("Sparse", "SparseI64"):
                cols[name] = (k, [(p.fields[0], p.fields[1]) for p in d.fields[0].elems])
            elif k == "String":
                cols[name] = (k, [list(s.elems) for s in d.fields[0].elems])
            else:
                cols[name] = (k, None)
        return {"len": tb.fields[self._tfs.index("len")], "cols": cols}

    def post(self, inst, shape, inp, value, state=None):
        v = self.view(state if state is not None else value)
        n = len(shape)
        conds = [("TableBuffer.len == number of rows pushed", binop("Eq", v["len"], I("u64", n)))]
        expected = {}
        for r, row in enumerate(shape):
            for c, k in row:
                expected.setdefault(c, [None] * n)
                expected[c][r] = None if k == "n" else (k, inp[f"{r}.{c}"])
            if not any(c == "timestamp" for c, _ in row):
                expected.setdefault("timestamp", [None] * n)
                expected["timestamp"][r] = ("f", I("f64", 0x4014000000000000))      # 5.0 seconds: the stubbed clock
        conds.append(("the buffer holds exactly the columns that were mentioned (plus timestamp)", B(set(v["cols"]) == set(expected))))
        if set(v["cols"]) != set(expected):
            return conds
        for c, rows in sorted(expected.items()):
            kind, pl = v["cols"][c]
            is_float = any(x is not None and x[0] == "f" for x in rows)
            is_str = any(x is not None and x[0] == "s" for x in rows)
            # wire meaning of the column: per-row cells
            cells = [None] * n
            ok_shape = True
            if kind in ("Dense", "I64", "String"):
                if len(pl) > n:
                    ok_shape = False
                for i, x in enumerate(pl[:n]):
                    cells[i] = x
            elif kind in ("Sparse", "SparseI64"):
                for idx, val in pl:
                    if not idx.concrete or idx.v >= n or cells[idx.v] is not None:
                        ok_shape = False
                    else:
                        cells[idx.v] = val
            elif kind != "Empty":
                ok_shape = False
            want_kinds = ("String",) if is_str else (("Dense", "Sparse") if is_float else ("I64", "SparseI64", "Empty") if not any(rows) else ("I64", "SparseI64"))
            if not any(x is not None for x in rows):
                want_kinds = ("Empty",)
            conds.append((f"column {c}: representation is one of {want_kinds} with in-range, distinct row indices", B(ok_shape and kind in want_kinds)))
            if not ok_shape or kind not in want_kinds:
                continue
            for r, x in enumerate(rows):
                if x is None:
                    conds.append((f"column {c} row {r}: nothing logged -> no cell", B(cells[r] is None)))
                    continue
                if cells[r] is None:
                    conds.append((f"column {c} row {r}: the logged value has a cell", B(False)))
                    continue
                k, val = x
                if k == "s":
                    conds.append((f"column {c} row {r}: string preserved", band(B(len(cells[r]) == len(val)), *[binop("Eq", a, b) for a, b in zip(cells[r], val)])))
                elif is_float:
                    w = cast_int_to_float(val, "f64") if k == "i" else val
                    conds.append((f"column {c} row {r}: value preserved (ints coerced to float)", binop("Eq", I("u64", cells[r].v), I("u64", w.v))))
                else:
                    conds.append((f"column {c} row {r}: value preserved", binop("Eq", cells[r], val)))
        return conds

    def panic_ok(self, inst, shape, inp, msg):
        return B(False)

    def random_inputs(self, rng, inst, shape):
        inp, _ = self.sym_inputs(inst, shape)
        out = {}
        for k, v in inp.items():
            if v is None:
                out[k] = None
            elif isinstance(v, list):
                out[k] = [I("u8", rng.randint(0x61, 0x7a))]
            elif v.ty == "f64":
                out[k] = I("f64", rng.choice([0, 0x3ff0000000000000, 0xc008000000000000, rng.getrandbits(62)]))
            else:
                out[k] = I("i64", rnd_int(rng, "i64"))
        return out

    def native(self, inst, shape, inp):
        if inp is None:
            return ("table_buffer_rows", [])
        toks = []
        for r, row in enumerate(shape):
            parts = []
            for c, k in row:
                v = inp[f"{r}.{c}"]
                parts.append(c + "=" + ("n" if k == "n" else f"i:{v.v}" if k == "i" else f"f:{v.v}" if k == "f" else "s:" + bytes(b.v for b in v).hex()))
            toks.append(",".join(parts) or "-")
        return ("table_buffer_rows", toks)

    def parse_native(self, inst, shape, toks):
        cols = {}
        for tok in toks[1:]:
            p = tok.split(":")
            c, kind = p[0], p[1]
            if kind == "Empty":
                cols[c] = ("Empty", [])
            elif kind in ("Dense", "I64"):
                cols[c] = (kind, parse_ints(p[2], "f64" if kind == "Dense" else "i64"))
            elif kind in ("Sparse", "SparseI64"):
                cols[c] = (kind, list(zip(parse_ints(p[2], "u64"), parse_ints(p[3], "f64" if kind == "Sparse" else "i64"))))
            elif kind == "String":
                cols[c] = (kind, [[I("u8", b) for b in bytes.fromhex(h)] for h in p[2].split(",")] if p[2] else [])
            else:
                cols[c] = (kind, None)
        # the real clock differs from the stub: the timestamp column is compared by representation and entry count only
        return self._blank_ts({"len": I("u64", int(toks[0])), "cols": cols})

    @staticmethod
    def _blank_ts(d):
        d = {"len": d["len"], "cols": dict(d["cols"])}
        if "timestamp" in d["cols"]:
            k, pl = d["cols"]["timestamp"]
            d["cols"]["timestamp"] = (k, len(pl) if pl is not None else None)
        return d

    def native_view(self, inst, shape, v, st):
        return self._blank_ts(self.view(st))
