"""C07.b / C01.d : the compaction decoder `mem_store::column::decode(codec, sections)` on the integer codec shapes the
column builder emits (IntegerColumn::create_col / new_boxed)."""
import re

import z3

from .common import *
from ..mirsym import interp
from ..mirsym.values import Havoc, Opaque, cast_int, UNIT
from ..mirsym.models import boxed, data_view

WT = {"u8": "U8", "u16": "U16", "u32": "U32"}


def enc(name):
    return Agg("enum", [], name="EncodingType", variant=name)


def op(variant, *fields):
    return Agg("enum", list(fields), name="CodecOp", variant=variant)


def codec_ops(t, offset_zero, delta, nullable, offset):
    """exactly the table in IntegerColumn::create_col / new_boxed"""
    if t == "i64":
        base = [op("Delta", enc("I64"))] if delta else []
        return base + ([op("PushDataSection", I("usize", 1)), op("Nullable")] if nullable else [])
    T = enc(WT[t])
    if nullable:
        if offset_zero and delta:
            return [op("Delta", T), op("PushDataSection", I("usize", 1)), op("Nullable")]
        if offset_zero:
            return [op("PushDataSection", I("usize", 1)), op("Nullable"), op("ToI64", T)]
        if delta:
            return [op("Add", T, offset), op("Delta", enc("I64")), op("PushDataSection", I("usize", 1)), op("Nullable")]
        return [op("PushDataSection", I("usize", 1)), op("Nullable"), op("Add", T, offset)]
    if offset_zero and delta:
        return [op("Delta", T)]
    if offset_zero:
        return [op("ToI64", T)]
    if delta:
        return [op("Add", T, offset), op("Delta", enc("I64"))]
    return [op("Add", T, offset)]


class DecodeIntSpec(KernelSpec):
    """shape = (T, offset_zero, delta, nullable, n)"""
    fn_path = "mem_store::column::decode"
    diff_cases = 1

    def instantiations(self, tier):
        return [{"nat": "column_decode_int"}]

    def shapes(self, tier, inst):
        out = []
        ns = (2,) if tier == "quick" else (0, 1, 3)
        for t in ("u8", "u16", "u32", "i64"):
            for oz in (True, False):
                if t == "i64" and not oz:
                    continue
                for delta in (False, True):
                    for nullable in (False, True):
                        for n in ns:
                            if tier == "quick" and t == "u16":
                                continue
                            out.append((t, oz, delta, nullable, n))
        if tier == "thorough":
            out += [("u8", False, False, True, 9), ("u16", True, False, True, 9)]
        return out

    def sym_inputs(self, inst, shape):
        t, oz, delta, nullable, n = shape
        inp = {"enc": [sym(t, f"e{i}") if i < 3 else I(t, i) for i in range(n)]}
        pre = []
        if not oz:
            inp["offset"] = sym("i64", "offset")
            # the builder only emits Add(t, offset) when every value fits: encoded + offset stays inside i64
            w = INT_W[t]
            pre += [inp["offset"].v != 0]
            for e in inp["enc"]:
                if not e.concrete:
                    s = binop("AddWithOverflow", cast_int(e, "i64"), inp["offset"])
                    pre.append(z3.Not(s.fields[1].z()))
        if delta:
            # delta-coded columns store differences: every prefix sum (+ offset) is a representable i64
            acc = I("i64", 0)
            for e in inp["enc"]:
                v = cast_int(e, "i64")
                if not oz:
                    v = binop("Add", v, inp["offset"])
                s = binop("AddWithOverflow", acc, v)
                if not s.fields[1].concrete:
                    pre.append(z3.Not(s.fields[1].z()))
                acc = s.fields[0]
        if nullable:
            inp["present"] = [sym("u8", f"p{i}") for i in range((n + 7) // 8)]
        return inp, pre

    def explore(self, ctx, ex, fn, inst, shape, inp, pre):
        t, oz, delta, nullable, n = shape
        ops = codec_ops(t, oz, delta, nullable, inp.get("offset"))
        ops_cell = Cell(Agg("array", ops))

        def codec_ops_stub(ex_, st, fr, path, args, m):
            return Ref(ops_cell, (), (0, len(ops)))
        ex.stubs = [(re.compile(r"(?:^|::)Codec::ops$"), codec_ops_stub)]
        secs = [Ref(Cell(VecObj(list(inp["enc"]), t)))]
        if nullable:
            secs.append(Ref(Cell(VecObj(list(inp["present"]), "u8"))))
        st = ex.start(fn, [Ref(Cell(Havoc("Codec", "codec"))), slice_arg(secs)], {}, pc=pre)
        return ex.explore(st)

    def reference(self, shape, inp):
        t, oz, delta, nullable, n = shape
        vals = []
        acc = I("i64", 0)
        for e in inp["enc"]:
            v = cast_int(e, "i64")
            if not oz:
                v = binop("Add", v, inp["offset"])
            if delta:
                acc = binop("Add", acc, v)
                v = acc
            vals.append(v)
        return vals

    def view(self, value):
        r, data, present, ty = data_view(value)
        return ty, list(data.elems), (list(present.elems) if present is not None else None)

    def post(self, inst, shape, inp, value, state=None):
        t, oz, delta, nullable, n = shape
        if isinstance(value, tuple):
            ty, data, present = value
        else:
            ty, data, present = self.view(value)
        want = self.reference(shape, inp)
        conds = [("decoded column is i64", B(ty == "i64")), ("one decoded value per row", B(len(data) == n))]
        if ty != "i64" or len(data) != n:
            return conds
        if nullable:
            conds.append(("a nullable column decodes to a nullable column (null map kept)", B(present is not None)))
        else:
            conds.append(("a non-nullable column decodes without a null map", B(present is None)))
        from .merge import MergeKeepNullableSpec
        bit = MergeKeepNullableSpec.bit
        for i in range(n):
            if nullable and present is not None:
                p = bit(inp["present"], i)
                conds.append((f"row {i}: NULL iff the stored null map says so", binop("Eq", bit(present, i), p)))
                conds.append((f"row {i}: decoded value", implies(p, binop("Eq", data[i], want[i]))))
            elif not nullable:
                conds.append((f"row {i}: decoded value", binop("Eq", data[i], want[i])))
        return conds

    def random_inputs(self, rng, inst, shape):
        t, oz, delta, nullable, n = shape
        w = INT_W[t]
        small = delta or not oz
        inp = {"enc": [I(t, rng.randint(0, 50) if small else rnd_int(rng, t)) for _ in range(n)]}
        if t == "i64" and delta:
            inp["enc"] = [I(t, rng.randint(-50, 50)) for _ in range(n)]
        if not oz:
            inp["offset"] = I("i64", rng.choice([-5, 7, -2**40, 2**40, 1]))
        if nullable:
            inp["present"] = [I("u8", rng.randint(0, 255)) for _ in range((n + 7) // 8)]
        return inp

    def native(self, inst, shape, inp):
        if inp is None:
            return ("column_decode_int", [])
        t, oz, delta, nullable, n = shape
        return ("column_decode_int", [t, int(oz), int(delta), int(nullable), inp["offset"].v if not oz else 0, fmt_ints(inp["enc"]),
                                      fmt_ints(inp["present"]) if nullable else "none"])

    def parse_native(self, inst, shape, toks):
        # <type> <data> <present|none>
        ty = {"I64": "i64", "NullableI64": "i64"}.get(toks[0], toks[0])
        return (ty, parse_ints(toks[1], "i64") if ty == "i64" else [], None if toks[2] == "none" else parse_ints(toks[2], "u8"))

    def native_view(self, inst, shape, v, st):
        return self.view(v)


def values_equal_hook(a, b):
    return None
