"""C07.b / C01.d : the compaction decoder `mem_store::column::decode(codec, sections)` on the integer codec shapes the
column builder emits (IntegerColumn::create_col / new_boxed)."""
import re

import z3

from .common import *
from ..mirsym import interp
from ..mirsym.values import Havoc, Opaque, cast_int, UNIT
from ..mirsym.models import boxed, data_view

WT = {"u8": "U8", "u16": "U16", "u32": "U32"}


def enc(name):
    return Agg("enum", [], name="EncodingType", variant=name)


def op(variant, *fields):
    return Agg("enum", list(fields), name="CodecOp", variant=variant)


def codec_ops(t, offset_zero, delta, nullable, offset):
    """exactly the table in IntegerColumn::create_col / new_boxed"""
    if t == "i64":
        base = [op("Delta", enc("I64"))] if delta else []
        return base + ([op("PushDataSection", I("usize", 1)), op("Nullable")] if nullable else [])
    T = enc(WT[t])
    if nullable:
        if offset_zero and delta:
            return [op("Delta", T), op("PushDataSection", I("usize", 1)), op("Nullable")]
        if offset_zero:
            return [op("PushDataSection", I("usize", 1)), op("Nullable"), op("ToI64", T)]
        if delta:
            return [op("Add", T, offset), op("Delta", enc("I64")), op("PushDataSection", I("usize", 1)), op("Nullable")]
        return [op("PushDataSection", I("usize", 1)), op("Nullable"), op("Add", T, offset)]
    if offset_zero and delta:
        return [op("Delta", T)]
    if offset_zero:
        return [op("ToI64", T)]
    if delta:
        return [op("Add", T, offset), op("Delta", enc("I64"))]
    return [op("Add", T, offset)]


class DecodeIntSpec(KernelSpec):
    """shape = (T, offset_zero, delta, nullable, n)"""
    fn_path = "mem_store::column::decode"
    diff_cases = 1

    def instantiations(self, tier):
        return [{"nat": "column_decode_int"}]

    def shapes(self, tier, inst):
        out = []
        ns = (2,) if tier == "quick" else (0, 1, 3)
        for t in ("u8", "u16", "u32", "i64"):
            for oz in (True, False):
                if t == "i64" and not oz:
                    continue
                for delta in (False, True):
                    for nullable in (False, True):
                        for n in ns:
                            if tier == "quick" and t == "u16":
                                continue
                            out.append((t, oz, delta, nullable, n))
        if tier == "thorough":
            out += [("u8", False, False, True, 9), ("u16", True, False, True, 9)]
        return out

    def sym_inputs(self, inst, shape):
        t, oz, delta, nullable, n = shape
        inp = {"enc": [sym(t, f"e{i}") if i < 3 else I(t, i) for i in range(n)]}
        pre = []
        if not oz:
            inp["offset"] = sym("i64", "offset")
            # the builder only emits Add(t, offset) when every value fits: encoded + offset stays inside i64
            w = INT_W[t]
            pre += [inp["offset"].v != 0]
            for e in inp["enc"]:
                if not e.concrete:
                    s = binop("AddWithOverflow", cast_int(e, "i64"), inp["offset"])
                    pre.append(z3.Not(s.fields[1].z()))
        if delta:
            # delta-coded columns store differences: every prefix sum (+ offset) is a representable i64
            acc = I("i64", 0)
            for e in inp["enc"]:
                v = cast_int(e, "i64")
                if not oz:
                    v = binop("Add", v, inp["offset"])
                s = binop("AddWithOverflow", acc, v)
                if not s.fields[1].concrete:
                    pre.append(z3.Not(s.fields[1].z()))
                acc = s.fields[0]
        if nullable:
            inp["present"] = [sym("u8", f"p{i}") for i in range((n + 7) // 8)]
        return inp, pre

    def explore(self, ctx, ex, fn, inst, shape, inp, pre):
        t, oz, delta, nullable, n = shape
        ops = codec_ops(t, oz, delta, nullable, inp.get("offset"))
        ops_cell = Cell(Agg("array", ops))

        def codec_ops_stub(ex_, st, fr, path, args, m):
            return Ref(ops_cell, (), (0, len(ops)))
        ex.stubs = [(re.compile(r"(?:^|::)Codec::ops$"), codec_ops_stub)]
        secs = [Ref(Cell(VecObj(list(inp["enc"]), t)))]
        if nullable:
            secs.append(Ref(Cell(VecObj(list(inp["present"]), "u8"))))
        st = ex.start(fn, [Ref(Cell(Havoc("Codec", "codec"))), slice_arg(secs)], {}, pc=pre)
        return ex.explore(st)

    def reference(self, shape, inp):
        t, oz, delta, nullable, n = shape
        vals = []
        acc = I("i64", 0)
        for e in inp["enc"]:
            v = cast_int(e, "i64")
            if not oz:
                v = binop("Add", v, inp["offset"])
            if delta:
                acc = binop("Add", acc, v)
                v = acc
            vals.append(v)
        return vals

    def view(self, value):
        r, data, present, ty = data_view(value)
        return ty, list(data.elems), (list(present.elems) if present is not None else None)

    def post(self, inst, shape, inp, value, state=None):
        t, oz, delta, nullable, n = shape
        if isinstance(value, tuple):
            ty, data, present = value
        else:
            ty, data, present = self.view(value)
        want = self.reference(shape, inp)
        conds = [("decoded column is i64", B(ty == "i64")), ("one decoded value per row", B(len(data) == n))]
        if ty != "i64" or len(data) != n:
            return conds
        if nullable:
            conds.append(("a nullable column decodes to a nullable column (null map kept)", B(present is not None)))
        else:
            conds.append(("a non-nullable column decodes without a null map", B(present is None)))
        from .merge import MergeKeepNullableSpec
        bit = MergeKeepNullableSpec.bit
        for i in range(n):
            if nullable and present is not None:
                p = bit(inp["present"], i)
                conds.append((f"row {i}: NULL iff the stored null map says so", binop("Eq", bit(present, i), p)))
                conds.append((f"row {i}: decoded value", implies(p, binop("Eq", data[i], want[i]))))
            elif not nullable:
                conds.append((f"row {i}: decoded value", binop("Eq", data[i], want[i])))
        return conds

    def random_inputs(self, rng, inst, shape):
        t, oz, delta, nullable, n = shape
        w = INT_W[t]
        small = delta or not oz
        inp = {"enc": [I(t, rng.randint(0, 50) if small else rnd_int(rng, t)) for _ in range(n)]}
        if t == "i64" and delta:
            inp["enc"] = [I(t, rng.randint(-50, 50)) for _ in range(n)]
        if not oz:
            inp["offset"] = I("i64", rng.choice([-5, 7, -2**40, 2**40, 1]))
        if nullable:
            inp["present"] = [I("u8", rng.randint(0, 255)) for _ in range((n + 7) // 8)]
        return inp

    def native(self, inst, shape, inp):
        if inp is None:
            return ("column_decode_int", [])
        t, oz, delta, nullable, n = shape
        return ("column_decode_int", [t, int(oz), int(delta), int(nullable), inp["offset"].v if not oz else 0, fmt_ints(inp["enc"]),
                                      fmt_ints(inp["present"]) if nullable else "none"])

    def parse_native(self, inst, shape, toks):
        # <type> <data> <present|none>
        ty = {"I64": "i64", "NullableI64": "i64"}.get(toks[0], toks[0])
        return (ty, parse_ints(toks[1], "i64") if ty == "i64" else [], None if toks[2] == "none" else parse_ints(toks[2], "u8"))

    def native_view(self, inst, shape, v, st):
        return self.view(v)


def values_equal_hook(a, b):
    return None


# ----------------------------------------------------------------------------------------------------
# string shapes
# ----------------------------------------------------------------------------------------------------
def pack_strings(strs):
    """PackedStrings byte format (list of I(u8)) for a list of byte lists"""
    out = []
    for s in strs:
        n = len(s)
        while n > 254:
            out.append(I("u8", 255))
            n -= 255
        out.append(I("u8", n))
        out += list(s)
    return out


DICT = [b"a", b"bc", b"", b"def"]


class DecodeStrSpec(KernelSpec):
    """shape = ('dict', idx_ty, nullable, n) | ('packed', nullable, lens) | ('lz4_packed', nullable, lens) | ('hexpacked',)"""
    fn_path = "mem_store::column::decode"
    diff_cases = 1

    def instantiations(self, tier):
        return [{"nat": "column_decode_str"}]

    def shapes(self, tier, inst):
        out = []
        for ty in (("u8", "u16") if tier == "quick" else ("u8", "u16", "u32")):
            for nullable in (False, True):
                out.append(("dict", ty, nullable, 2 if tier == "quick" else 3))
        for nullable in (False, True):
            out.append(("packed", nullable, (1, 0, 2)))
            out.append(("lz4_packed", nullable, (2, 1)))
        if tier == "thorough":
            out += [("packed", True, (254, 255)), ("packed", False, ()), ("dict", "u8", True, 9)]
        out.append(("hexpacked",))
        return out

    def sym_inputs(self, inst, shape):
        kind = shape[0]
        inp = {}
        pre = []
        if kind == "dict":
            _, ty, nullable, n = shape
            inp["idx"] = [sym(ty, f"i{k}") if k < 3 else I(ty, k % len(DICT)) for k in range(n)]
            for x in inp["idx"]:
                if not x.concrete:
                    pre.append(z3.ULT(x.v, len(DICT)))
            if nullable:
                inp["present"] = [sym("u8", f"p{k}") for k in range((n + 7) // 8)]
        elif kind in ("packed", "lz4_packed"):
            _, nullable, lens = shape
            from .stringpack import mk_bytes
            for k, ln in enumerate(lens):
                b, p = mk_bytes(f"s{k}", ln)
                inp[f"s{k}"] = b
                pre += p
            if nullable:
                inp["present"] = [sym("u8", f"p{k}") for k in range((len(lens) + 7) // 8)]
            if kind == "lz4_packed":
                # the stored (compressed) bytes are whatever lz4 produced: some byte string that is *not* the plain packing
                inp["compressed"] = [I("u8", 9), I("u8", 1), I("u8", 2), I("u8", 3)]
        return inp, pre

    def strings(self, shape, inp):
        if shape[0] in ("packed", "lz4_packed"):
            return [inp[f"s{k}"] for k in range(len(shape[2]))]
        return None

    def explore(self, ctx, ex, fn, inst, shape, inp, pre):
        kind = shape[0]
        stubs = []
        if kind == "dict":
            _, ty, nullable, n = shape
            T = enc({"u8": "U8", "u16": "U16", "u32": "U32"}[ty])
            ops = [op("PushDataSection", I("usize", 1)), op("PushDataSection", I("usize", 2)), op("DictLookup", T)]
            ranges = []
            backing = []
            for s in DICT:
                ranges.append(I("u64", (len(backing) << 24) + len(s)))
                backing += [I("u8", x) for x in s]
            secs = [Ref(Cell(VecObj(list(inp["idx"]), ty))), Ref(Cell(VecObj(ranges, "u64"))), Ref(Cell(VecObj(backing, "u8")))]
            if nullable:
                ops = [op("PushDataSection", I("usize", 3)), op("Nullable")] + ops
                secs.append(Ref(Cell(VecObj(list(inp["present"]), "u8"))))
        elif kind in ("packed", "lz4_packed"):
            _, nullable, lens = shape
            plain = pack_strings(self.strings(shape, inp))
            ops = [op("UnpackStrings")]
            if kind == "lz4_packed":
                ops = [op("LZ4", enc("U8"), I("usize", len(plain)))] + ops
                secs = [Ref(Cell(VecObj(list(inp["compressed"]), "u8")))]

                def lz4_decoder(ex_, st, fr, path, args, m):
                    return Opaque("lz4 frame decoder")

                def lz4_decode(ex_, st, fr, path, args, m):
                    from ..mirsym.models import seq_of
                    el, lo, hi = seq_of(args[1])
                    if hi - lo != len(plain):
                        raise interp.PanicExc("lz4 decode into a buffer of the wrong size")
                    for k in range(len(plain)):
                        el[lo + k] = plain[k]
                    return I("usize", len(plain))
                stubs += [(re.compile(r"(?:^|::)decoder$"), lz4_decoder), (re.compile(r"(?:^|::)lz4::decode::<u8>$"), lz4_decode)]
            else:
                secs = [Ref(Cell(VecObj(plain, "u8")))]
            if nullable:
                ops += [op("PushDataSection", I("usize", 1)), op("Nullable")]
                secs.append(Ref(Cell(VecObj(list(inp["present"]), "u8"))))
        else:
            ops = [op("UnhexpackStrings", I("bool", 0), I("usize", 12))]
            secs = [Ref(Cell(VecObj([I("u8", 2), I("u8", 0xab), I("u8", 0xcd)], "u8")))]
        ops_cell = Cell(Agg("array", ops))

        def codec_ops_stub(ex_, st, fr, path, args, m):
            return Ref(ops_cell, (), (0, len(ops)))
        ex.stubs = stubs + [(re.compile(r"(?:^|::)Codec::ops$"), codec_ops_stub)]
        st = ex.start(fn, [Ref(Cell(Havoc("Codec", "codec"))), slice_arg(secs)], {}, pc=pre)
        return ex.explore(st)

    def view(self, value):
        from ..mirsym.models import seq_of
        r, data, present, ty = data_view(value)
        strs = []
        for e in data.elems:
            if isinstance(e, Ref):
                el, lo, hi = seq_of(e)
                strs.append(list(el[lo:hi]))
            else:
                strs.append(None)
        return ty, strs, (list(present.elems) if present is not None else None)

    def post(self, inst, shape, inp, value, state=None):
        kind = shape[0]
        if isinstance(value, tuple):
            ty, strs, present = value
        else:
            ty, strs, present = self.view(value)
        if kind == "hexpacked":
            return [("hex-packed string columns can be decoded", B(ty == "str"))]
        nullable = shape[2] if kind == "dict" else shape[1]
        n = shape[3] if kind == "dict" else len(shape[2])
        conds = [("decoded column is a string column", B(ty == "str")), ("one string per row", B(len(strs) == n))]
        if ty != "str" or len(strs) != n:
            return conds
        conds.append(("nullability preserved (null map kept iff the column is nullable)", B((present is not None) == bool(nullable))))
        from .merge import MergeKeepNullableSpec
        bit = MergeKeepNullableSpec.bit
        for i in range(n):
            p = bit(inp["present"], i) if nullable else B(True)
            if nullable and present is not None:
                conds.append((f"row {i}: NULL iff the stored null map says so", binop("Eq", bit(present, i), p)))
            if kind == "dict":
                # strs[i] is concrete per path (the index was concretised): it must be DICT[idx]
                got = strs[i]
                ok = B(False)
                for k, d in enumerate(DICT):
                    same = got is not None and len(got) == len(d) and all(g.concrete and g.v == x for g, x in zip(got, d))
                    ok = bor(ok, band(binop("Eq", inp["idx"][i], I(inp["idx"][i].ty, k)), B(same)))
                conds.append((f"row {i}: dictionary entry of the stored index", implies(p, ok)))
            else:
                want = inp[f"s{i}"]
                got = strs[i]
                if got is None or len(got) != len(want):
                    conds.append((f"row {i}: string length preserved", implies(p, B(False))))
                else:
                    eqs = [binop("Eq", a, b) for a, b in zip(got, want)]
                    conds.append((f"row {i}: string bytes preserved", implies(p, band(*eqs) if eqs else B(True))))
        return conds

    def random_inputs(self, rng, inst, shape):
        inp, _ = self.sym_inputs(inst, shape)
        out = {}
        for k, v in inp.items():
            if k == "idx":
                out[k] = [x if x.concrete else I(x.ty, rng.randrange(len(DICT))) for x in v]
            elif k.startswith("s"):
                out[k] = [x if x.concrete else I("u8", rng.randint(33, 126)) for x in v]
            else:
                out[k] = [x if x.concrete else I("u8", rng.randint(0, 255)) for x in v]
        return out

    def native(self, inst, shape, inp):
        if inp is None:
            return ("column_decode_str", [])
        kind = shape[0]
        if kind == "dict":
            _, ty, nullable, n = shape
            return ("column_decode_str", ["dict", ty, fmt_ints(inp["idx"]), ",".join(d.hex() or "-" for d in DICT), fmt_ints(inp["present"]) if nullable else "none"])
        if kind in ("packed", "lz4_packed"):
            _, nullable, lens = shape
            strs = [bytes(x.v for x in inp[f"s{k}"]).hex() or "-" for k in range(len(lens))]
            return ("column_decode_str", [kind, ",".join(strs) if strs else "none", fmt_ints(inp["present"]) if nullable else "none"])
        return ("column_decode_str", ["hexpacked"])

    def parse_native(self, inst, shape, toks):
        # <Str|NullableStr|other> <hex,hex,..|none> <present|none>
        ty = "str" if toks[0] in ("Str", "NullableStr") else toks[0]
        strs = [] if toks[1] == "none" else [[I("u8", x) for x in (bytes.fromhex(h) if h != "-" else b"")] for h in toks[1].split(",")]
        return (ty, strs, None if toks[2] == "none" else parse_ints(toks[2], "u8"))

    def native_view(self, inst, shape, v, st):
        return self.view(v)
