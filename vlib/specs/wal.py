"""C08 : WAL cursor state machine of disk_store::meta_store::MetaStore and its (de)serialisation data flow"""
import re

import z3

from .common import *
from ..pyengine import run_sequence
from ..mirsym import interp
from ..mirsym.values import Havoc, Opaque, UNINIT
from .. import replay


def metastore(ctx, nxt, earliest):
    fs = ctx.src().struct_fields("MetaStore")
    if fs is None or "next_wal_id" not in fs or "earliest_unflushed_wal_id" not in fs:
        raise interp.Unsupported("MetaStore no longer has next_wal_id / earliest_unflushed_wal_id fields")
    vals = []
    for f in fs:
        if f == "next_wal_id":
            vals.append(nxt)
        elif f == "earliest_unflushed_wal_id":
            vals.append(earliest)
        else:
            vals.append(Havoc("HashMap", f))
    return Agg("struct", vals, name="MetaStore"), fs


class WalCursorSpec(KernelSpec):
    """scenario (k1, k2, k3, k4): k1 ingests; flush captures the unflushed range; k2 ingests while the flush runs; the flush
    persists range.end as the new cursor; clean restart (both fields := persisted cursor, surviving WAL files re-registered
    or deleted by the rule of Storage::recover); k3 ingests; optionally a second flush+restart; k4 ingests."""
    diff_cases = 2

    def get_fn(self, ctx, inst):
        return None

    def instantiations(self, tier):
        return [{"nat": "walcursor"}]

    def shapes(self, tier, inst):
        r = (0, 1, 2) if tier == "quick" else (0, 1, 2, 3)
        return [(a, b, c) for a in r for b in r for c in r]

    def sym_inputs(self, inst, shape):
        n, e = sym("u64", "next"), sym("u64", "earliest")
        # representation invariant of a reachable MetaStore; ids below 2^63 (2^63 WAL segments are outside the claim)
        return {"next": n, "earliest": e}, [z3.ULE(e.v, n.v), z3.ULT(n.v, z3.BitVecVal(1 << 63, 64))]

    def explore(self, ctx, ex, fn, inst, shape, inp, pre):
        k1, k2, k3 = shape
        ms, fs = metastore(ctx, inp["next"], inp["earliest"])
        env = {"ms": Cell(ms), "ids1": Cell(VecObj([])), "ids2": Cell(VecObj([])), "ids3": Cell(VecObj([]))}
        m = lambda name: ex.resolve_method("MetaStore", None, name)[0]
        selfref = lambda env, mut=True: Ref(env["ms"], (), None, False, mut)
        calls = []
        for i in range(k1):
            calls.append((m("add_wal_segment"), lambda env: [selfref(env)], {}, f"a{i}"))
        calls.append((m("unflushed_wal_ids"), lambda env: [selfref(env, False)], {}, "range"))
        for i in range(k2):
            calls.append((m("add_wal_segment"), lambda env: [selfref(env)], {}, f"b{i}"))
        calls.append((m("advance_earliest_unflushed_wal_id"), lambda env: [selfref(env), env["range"].v.fields[1]], {}))
        calls.append((m("earliest_uncommited_wal_id"), lambda env: [selfref(env, False)], {}, "persisted"))
        outs = run_sequence(ex, pre, env, calls)
        final = []
        for o in outs:
            if o.kind != "return":
                final.append(o)
                continue
            st = o.st
            env = st.env
            persisted = env["persisted"].v
            # clean restart: MetaStore::deserialize initialises both cursors from the persisted value (obligation C08.b)
            ms2, _ = metastore(ctx, persisted, persisted)
            env["ms"] = Cell(ms2)
            # surviving WAL files: ids handed out after the flush captured its range (the captured ones were deleted);
            # Storage::recover: id < earliest_uncommited -> delete, else register_wal_segment(id) and replay
            survivors = [env[f"b{i}"].v for i in range(k2)]
            env["replayed"] = Cell(VecObj([]))
            env["deleted"] = Cell(VecObj([]))
            calls2 = []
            states = [st]
            for sid in survivors:
                nxt = []
                for s in states:
                    lt = binop("Lt", sid, persisted)
                    try:
                        dec = ex.decide(s, lt)
                        branches = [(s, dec)]
                    except interp.Fork as fk:
                        s2 = s.clone()
                        s.pc.append(fk.cond.v)
                        s2.pc.append(z3.Not(fk.cond.v))
                        branches = [(s, True), (s2, False)]
                    for sb, d in branches:
                        if d:
                            sb.env["deleted"].v.elems.append(sid)
                            nxt.append(sb)
                        else:
                            sb.env["replayed"].v.elems.append(sid)
                            ex.enter(sb, m("register_wal_segment"), [Ref(sb.env["ms"], (), None, False, True), sid], {})
                            for o2 in ex.explore(sb):
                                if o2.kind == "return":
                                    nxt.append(o2.st)
                                else:
                                    final.append(o2)
                states = nxt
            for s in states:
                sub = run_sequence(ex, s.pc, s.env, [(m("add_wal_segment"), lambda env: [Ref(env["ms"], (), None, False, True)], {}, f"c{i}") for i in range(k3)])
                final.extend(sub)
        return final

    def post(self, inst, shape, inp, value, state=None):
        k1, k2, k3 = shape
        view = self.native_view(inst, shape, value, state) if state is not None else value
        a, b, c, rng, pers, deleted, replayed = view
        persisted = pers[0]
        n, e = inp["next"], inp["earliest"]
        conds = []
        for i, x in enumerate(a):
            conds.append((f"ingest {i} before the flush gets id next+{i}", binop("Eq", x, binop("Add", n, I("u64", i)))))
        conds.append(("flush captures [earliest, next) including every id handed out so far",
                      band(binop("Eq", rng[0], e), binop("Eq", rng[1], binop("Add", n, I("u64", k1))))))
        conds.append(("persisted cursor == end of the flushed range", binop("Eq", persisted, rng[1])))
        for x in a:
            conds.append(("a segment covered by the flush is below the persisted cursor (not replayed again)", binop("Lt", x, persisted)))
        for x in b:
            conds.append(("a segment written during the flush is at/after the persisted cursor (replayed after restart)", binop("Ge", x, persisted)))
        conds.append(("recovery deletes no surviving segment", B(len(deleted) == 0)))
        conds.append(("recovery replays every surviving segment", B(len(replayed) == k2)))
        allprev = a + b
        for i, x in enumerate(c):
            for y in allprev + c[:i]:
                conds.append(("an id handed out after the restart is larger than every earlier id (never reused)", binop("Gt", x, y)))
        return conds

    # ---- native: the same scenario on the real MetaStore -----------------------------------
    def random_inputs(self, rng, inst, shape):
        nx = rng.choice([0, 1, 5, 2**40, 2**62])
        return {"next": I("u64", nx), "earliest": I("u64", rng.choice([0, nx, max(0, nx - 1), nx // 2]))}

    def native(self, inst, shape, inp):
        if inp is None:
            return ("walcursor", [])
        return ("walcursor", [inp["next"].v, inp["earliest"].v] + list(shape))

    def parse_native(self, inst, shape, toks):
        # a-ids b-ids c-ids range.start range.end persisted deleted replayed
        return [parse_ints(t, "u64") for t in toks]

    def native_view(self, inst, shape, v, st):
        k1, k2, k3 = shape
        env = st.env
        rng = env["range"].v
        return [[env[f"a{i}"].v for i in range(k1)], [env[f"b{i}"].v for i in range(k2)], [env[f"c{i}"].v for i in range(k3)],
                [rng.fields[0], rng.fields[1]], [env["persisted"].v], list(env["deleted"].v.elems), list(env["replayed"].v.elems)]


def api_restart_check():
    """on-disk database: batch A, flush, batch B (WAL only), clean restart, batch C, restart: every row exactly once"""
    spec = {"on_disk": True, "options": {"threads": 2}, "steps": [
        {"ingest": {"t": {"id": {"I64": [0, 1, 2]}}}}, {"flush": True},
        {"ingest": {"t": {"id": {"I64": [3, 4, 5]}}}}, {"restart": True},
        {"query": "SELECT id FROM t ORDER BY id"},
        {"ingest": {"t": {"id": {"I64": [6, 7, 8]}}}}, {"restart": True},
        {"query": "SELECT id FROM t ORDER BY id"}]}
    steps, out = replay.api_replay(spec)
    if steps is None:
        return None, "API replay did not run: " + out[-300:], spec
    q1, q2 = steps[4], steps[7]
    w1 = [[f"i:{i}"] for i in range(6)]
    w2 = [[f"i:{i}"] for i in range(9)]
    if q1.get("rows") == w1 and q2.get("rows") == w2:
        return False, "restart scenario answered correctly", spec
    return True, f"after restart: {q1.get('outcome')} {q1.get('rows')} (expected ids 0..5); after second restart: {q2.get('outcome')} {q2.get('rows')} (expected 0..8)", spec


class SerializeCursorSpec(KernelSpec):
    """MetaStore::serialize persists earliest_unflushed_wal_id as the cursor (slice up to the set_next_wal_id call)"""
    method = ("MetaStore", None, "serialize")
    diff_cases = 0

    def native(self, inst, shape, inp):
        return None

    def random_inputs(self, rng, inst, shape):
        return None

    def sym_inputs(self, inst, shape):
        n, e = sym("u64", "next"), sym("u64", "earliest")
        return {"next": n, "earliest": e}, [z3.ULE(e.v, n.v)]

    def explore(self, ctx, ex, fn, inst, shape, inp, pre):
        def setter(ex_, st, fr, path, args, m):
            raise interp.StopSlice(args[1])
        ex.stubs = [(re.compile(r"d_b_meta::Builder::<.*>::set_next_wal_id|d_b_meta::Builder::set_next_wal_id"), setter)]
        ex.havoc_unknown_calls = True
        ex.prune_unreachable = True
        ms, _ = metastore(ctx, inp["next"], inp["earliest"])
        st = ex.start(fn, [Ref(Cell(ms)), Ref(Cell(Havoc("SimpleTracer", "tracer")), (), None, False, True)], {}, pc=pre)
        outs = ex.explore(st)
        if not any(o.kind == "stop" for o in outs):
            raise interp.Unsupported("serialize never reaches set_next_wal_id")
        return outs

    def post_stop(self, inst, shape, inp, o):
        v = o.value
        if not isinstance(v, I):
            return [("cursor written to the file is a u64", B(False))]
        return [("the persisted cursor is earliest_unflushed_wal_id (segments at/after it are replayed on restart)", binop("Eq", v, inp["earliest"]))]

    def post(self, inst, shape, inp, value, state=None):
        if isinstance(value, tuple) and value[0] == "roundtrip":
            return [("after serialize -> deserialize the replay cursor equals earliest_unflushed_wal_id", binop("Eq", value[2], inp["earliest"]))]
        return [("serialize writes the cursor before returning", B(False))]

    # Counterexamples are replayed on the real serialize -> deserialize pair (native driver).  The pre-state
    # (earliest <= next) is reachable through the public API: k ingests without a flush give next = earliest + k.
    def native(self, inst, shape, inp):
        if inp is None:
            return None
        if "persisted" in inp:
            return ("metastore_roundtrip", [inp["persisted"].v, inp["persisted"].v])
        return ("metastore_roundtrip", [inp["next"].v, inp["earliest"].v])

    def parse_native(self, inst, shape, toks):
        return ("roundtrip", I("u64", int(toks[0])), I("u64", int(toks[1])))


class DeserializeCursorSpec(SerializeCursorSpec):
    """MetaStore::deserialize initialises *both* cursors from the persisted value (two-point dataflow slice: the block that
    reads get_next_wal_id and the block that builds the MetaStore value)"""
    method = ("MetaStore", None, "deserialize")

    def sym_inputs(self, inst, shape):
        return {"persisted": sym("u64", "persisted")}, []

    def explore(self, ctx, ex, fn, inst, shape, inp, pre):
        blocks = ex.find_call_block(fn, r"d_b_meta::Reader::<.*>::get_next_wal_id|d_b_meta::Reader::get_next_wal_id")
        if len(blocks) != 1:
            raise interp.Unsupported(f"deserialize: expected one get_next_wal_id call, found {len(blocks)}")
        dest = blocks[0][1].a["dest"]
        if dest.proj:
            raise interp.Unsupported("get_next_wal_id result stored through a projection")
        L = dest.local
        # L must not be written anywhere else (then the two-point slice is a faithful dataflow slice)
        writes = 0
        build = None
        for b in fn.blocks.values():
            for s in b.stmts:
                if s.kind == "assign" and s.place.local == L:
                    writes += 1
                if s.kind == "assign" and s.rvalue.kind == "adt" and s.rvalue.extra[0].split("::")[-1] == "MetaStore":
                    build = b.name
            if b.term is not None and b.term.kind == "call" and b.term.a["dest"].local == L:
                writes += 1
        if writes != 1 or build is None:
            raise interp.Unsupported(f"deserialize: cursor local written {writes} times / MetaStore construction not found")
        ex.havoc_unknown_calls = True
        ex.prune_unreachable = True
        st = ex.start_at(fn, build, {L: inp["persisted"]}, {}, pc=pre)
        return ex.explore(st)

    def post(self, inst, shape, inp, value, state=None):
        if isinstance(value, tuple) and value[0] == "roundtrip":
            return [("after a restart both cursors equal the persisted value",
                     band(binop("Eq", value[1], inp["persisted"]), binop("Eq", value[2], inp["persisted"])))]
        if not (isinstance(value, Agg) and value.variant == "Ok"):
            return [("deserialize of a well-formed file returns Ok", B(False))]
        ms = value.fields[0]
        conds = []
        got = [f for f in ms.fields if isinstance(f, I)]
        conds.append(("both WAL cursors are initialised from the persisted value", B(len(got) == 2)))
        for f in got:
            conds.append(("cursor == persisted value", binop("Eq", f, inp["persisted"])))
        return conds


class RecoverSliceSpec(KernelSpec):
    """Storage::recover, the per-segment decision: a WAL segment found on disk is replayed (registered with the MetaStore and
    kept) iff its id is at or after the persisted cursor; only segments strictly before the cursor are deleted/skipped, and a
    read-only open never deletes.  Slice: starts at the block that compares the segment id with the cursor (the prefix - file
    listing, thread pool, channel - is skipped and its state is havoc'd); register_wal_segment is executed for real on a
    MetaStore in its just-deserialized state; the slice ends at the first of: push onto the kept-segments vector, BlobWriter::
    delete, a logging call."""
    method = ("Storage", None, "recover")
    diff_cases = 0

    def native(self, inst, shape, inp):
        return None

    def random_inputs(self, rng, inst, shape):
        return None

    def sym_inputs(self, inst, shape):
        p, i = sym("u64", "persisted"), sym("u64", "segment_id")
        # ids are handed out by add_wal_segment (next_wal_id += 1 from 0): below 2^63 in any reachable history
        return {"persisted": p, "segment_id": i, "readonly": sym("bool", "readonly"), "size": sym("u64", "size")}, \
            [z3.ULT(p.v, z3.BitVecVal(1 << 63, 64)), z3.ULT(i.v, z3.BitVecVal(1 << 63, 64))]

    def explore(self, ctx, ex, fn, inst, shape, inp, pre):
        fn.parse()
        dbg = {name: local for local, name in fn.debug.items()}
        for need in ("earliest_uncommited_wal_id", "wal_segment", "readonly", "meta_store", "wal_size", "size"):
            if need not in dbg:
                raise interp.Unsupported(f"recover: no local named {need} in the current source")
        E, W = dbg["earliest_uncommited_wal_id"], dbg["wal_segment"]
        # the comparison block: exactly one comparison mentions the cursor local
        cmp_blocks = []
        for b in fn.blocks.values():
            for s in b.stmts:
                if s.kind == "assign" and s.rvalue.kind == "binop" and s.rvalue.extra in ("Lt", "Le", "Gt", "Ge", "Eq", "Ne"):
                    if any(a.place is not None and a.place.local == E and not a.place.proj for a in s.rvalue.args):
                        cmp_blocks.append(b)
        if len(cmp_blocks) != 1:
            raise interp.Unsupported(f"recover: expected exactly one comparison against the cursor, found {len(cmp_blocks)}")
        blk = cmp_blocks[0]
        # the local the segment is moved out of at the start of that block (the channel item)
        src = None
        for s in blk.stmts:
            if s.kind == "assign" and s.place.local == W and not s.place.proj and s.rvalue.kind == "use" and s.rvalue.args[0].place is not None:
                src = s.rvalue.args[0].place
        if src is None or not any(p[0] == "downcast" for p in src.proj):
            raise interp.Unsupported("recover: segment is not taken from the channel item in the comparison block")
        fs = ctx.src().struct_fields("WalSegment", having="id")
        if fs is None:
            raise interp.Unsupported("WalSegment has no id field")
        seg = Agg("struct", [inp["segment_id"] if f == "id" else Havoc("EventBuffer", f) for f in fs], name="WalSegment")
        item = Agg("enum", [Agg("tuple", [Opaque("PathBuf"), seg, inp["size"]])], name="Option", variant="Some")
        ms, _ = metastore(ctx, inp["persisted"], inp["persisted"])

        self._fs = metastore(ctx, inp["persisted"], inp["persisted"])[1]

        def stop(kind):
            def f(ex_, st, fr, path, args, m):
                raise interp.StopSlice((kind, st.frames[0].locals[dbg["meta_store"]].v))
            return f
        ex.stubs = [(re.compile(r"Vec::<WalSegment.*>::push|Vec<WalSegment.*>::push"), stop("kept")),
                    (re.compile(r"BlobWriter>::delete|BlobWriter::delete"), stop("deleted")),
                    (re.compile(r"log::|max_level|PartialOrd<LevelFilter>"), stop("skipped"))]
        ex.prune_unreachable = True
        ex.havoc_unknown_calls = True
        ex.inline_in_slices = lambda f: f.name.endswith("::register_wal_segment")
        init = {src.local: item, E: inp["persisted"], dbg["readonly"]: inp["readonly"], dbg["meta_store"]: ms,
                dbg["wal_size"]: I("u64", 0)}
        st = ex.start_at(fn, blk.name, init, {}, pc=pre)
        outs = ex.explore(st)
        if not any(o.kind == "stop" and o.value[0] == "kept" for o in outs) or not any(o.kind == "stop" and o.value[0] != "kept" for o in outs):
            raise interp.Unsupported("recover slice: both the keep and the discard branch must be reachable")
        return outs

    def post_stop(self, inst, shape, inp, o):
        kind, ms = o.value
        p, i = inp["persisted"], inp["segment_id"]
        at_or_after = binop("Ge", i, p)
        conds = []
        if kind == "kept":
            conds.append(("only segments at/after the persisted cursor are replayed (earlier ones are already in partitions)", at_or_after))
            nxt = ms.fields[self._fs.index("next_wal_id")]
            conds.append(("a replayed segment's id is never handed out again: next_wal_id > id afterwards",
                          binop("Gt", nxt, i) if isinstance(nxt, I) else B(False)))
        else:
            conds.append(("a segment at/after the persisted cursor is never deleted or skipped (its rows exist nowhere else)", bnot(at_or_after)))
            if kind == "deleted":
                conds.append(("a read-only open deletes nothing", bnot(inp["readonly"])))
        return conds

    def post(self, inst, shape, inp, value, state=None):
        return [("the slice ends at keep/delete/skip", B(False))]

    # under-constrained slice: a counterexample counts only if the fixed restart scenario misbehaves through the public API
    def api_check(self, inst, shape, conc, label):
        bad, what, spec = api_restart_check()
        self._last_api = spec
        if bad is None:
            return False, what
        return bad, what

    def api_spec(self, inst, shape, conc):
        return getattr(self, "_last_api", {})

    def panic_ok(self, inst, shape, inp, msg):
        return B(False)
