"""C01.j : the hex-packing decision of string columns.  StringColBuffer::push keeps `lhex` / `uhex` = "every string so far is
an even-length string over [0-9a-f] / [0-9A-F]"; fast_build_string_column hex-packs the column under that flag and the decoder
re-creates the strings in that one case.  A flag that is true for a string outside its alphabet loses the string's case."""
import z3

from .common import *
from ..mirsym import interp
from .routing import str_ref

LOWER = b"0123456789abcdef"
UPPER = b"0123456789ABCDEF"


class HexFlagSpec(KernelSpec):
    """shape = (length, number of leading symbolic bytes); the remaining bytes are fixed digits of the alphabet"""
    diff_cases = 3

    def instantiations(self, tier):
        return [{"which": "lower", "nat": "hex_flag"}, {"which": "upper", "nat": "hex_flag"}]

    def get_fn(self, ctx, inst):
        self.fn_path = "mem_store::column_buffer::is_lowercase_hex" if inst["which"] == "lower" else "mem_store::column_buffer::is_uppercase_hex"
        return KernelSpec.get_fn(self, ctx, inst)

    def shapes(self, tier, inst):
        out = [(0, 0), (1, 1), (2, 2), (3, 1), (4, 2)]
        if tier == "thorough":
            out += [(3, 3), (4, 3), (6, 2)]
        return out

    def sym_inputs(self, inst, shape):
        n, k = shape
        alpha = LOWER if inst["which"] == "lower" else UPPER
        s = [sym("u8", f"b{i}") if i < k else I("u8", alpha[(7 * i + 10) % 16]) for i in range(n)]
        return {"s": s}, [z3.ULT(b.v, 128) for b in s if not b.concrete]

    def explore(self, ctx, ex, fn, inst, shape, inp, pre):
        st = ex.start(fn, [str_ref(inp["s"])], {}, pc=pre)
        return ex.explore(st)

    def post(self, inst, shape, inp, value, state=None):
        alpha = LOWER if inst["which"] == "lower" else UPPER
        ok = B(len(inp["s"]) % 2 == 0)
        for b in inp["s"]:
            ok = band(ok, bor(*[binop("Eq", b, I("u8", a)) for a in alpha]))
        name = "[0-9a-f]" if inst["which"] == "lower" else "[0-9A-F]"
        return [(f"flag == (even length and every character in {name})", binop("Eq", value, ok))]

    def random_inputs(self, rng, inst, shape):
        inp, _ = self.sym_inputs(inst, shape)
        pool = b"0123456789abcdefABCDEFgG/:@`"
        return {"s": [b if b.concrete else I("u8", rng.choice(pool)) for b in inp["s"]]}

    def native(self, inst, shape, inp):
        if inp is None:
            return ("hex_flag", [])
        return ("hex_flag", [inst["which"], bytes(b.v for b in inp["s"]).hex() or "-"])

    def parse_native(self, inst, shape, toks):
        return I("bool", toks[0] == "true")
