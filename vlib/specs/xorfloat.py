"""C16.b : XOR float stream codec (locustdb-compression-utils::xor_float::double::{encode, decode}).
bitbuffer's BitWriteStream/BitReadStream are modelled as one LSB-first bit FIFO (assumption: write_int(v, n) followed by
read_int(n') is bit-FIFO consistent); everything else - masks, leading/trailing zero windows, regret, the window-reuse
branch - is executed from the crate's own MIR."""
import re

import z3

from .common import *
from ..pyengine import run_sequence
from ..mirsym import interp
from ..mirsym.values import Havoc, Opaque, UNIT, INT_W, cast_int


def bit_of(x, i):
    """bit i of I as I(bool)-like 1-bit I('u8')"""
    if x.concrete:
        return I("u8", (x.v >> i) & 1)
    return I("u8", z3.ZeroExt(7, z3.Extract(i, i, x.z())))


def assemble(bits, ty):
    w = INT_W[ty]
    if all(b.concrete for b in bits):
        v = 0
        for i, b in enumerate(bits):
            v |= (b.v & 1) << i
        return I(ty, v)
    acc = None
    parts = []
    for b in reversed(bits):                      # MSB first for Concat
        parts.append(z3.Extract(0, 0, b.z()))
    z = z3.Concat(*parts) if len(parts) > 1 else parts[0]
    n = len(bits)
    if n < w:
        z = z3.ZeroExt(w - n, z)
    elif n > w:
        z = z3.Extract(w - 1, 0, z)
    return I(ty, z)


def stream_stubs():
    def w_new(ex, st, fr, path, args, m):
        st.env["bits"] = []
        return Opaque("BitWriteStream")

    def w_int(ex, st, fr, path, args, m):
        v, n = args[1], args[2]
        k = ex.concretize(st, n, bound=70, what="bit count")
        if k > 64:
            raise interp.PanicExc(f"write_int with {k} bits")
        if k > INT_W[v.ty]:
            return Agg("enum", [Opaque("BitError: too many bits for the type")], name="Result", variant="Err")
        st.env["bits"].extend(bit_of(v, i) for i in range(k))
        return Agg("enum", [UNIT], name="Result", variant="Ok")

    def r_buf(ex, st, fr, path, args, m):
        return Opaque("BitReadBuffer")

    def r_new(ex, st, fr, path, args, m):
        st.env["rpos"] = 0
        return Opaque("BitReadStream")

    def r_int(ex, st, fr, path, args, m):
        ty = m.group(1)
        k = ex.concretize(st, args[1], bound=70, what="bit count")
        bits = st.env["bits"]
        pos = st.env["rpos"]
        if k > INT_W[ty] or pos + k > len(bits):
            return Agg("enum", [Opaque("BitError")], name="Result", variant="Err")
        st.env["rpos"] = pos + k
        return Agg("enum", [assemble(bits[pos:pos + k], ty)], name="Result", variant="Ok")
    return [(re.compile(r"BitWriteStream(?:::<.*>)?::new$"), w_new), (re.compile(r"BitWriteStream(?:::<.*>)?::write_int::<(\w+)>$"), w_int),
            (re.compile(r"BitReadBuffer(?:::<.*>)?::new$"), r_buf), (re.compile(r"BitReadStream(?:::<.*>)?::new$"), r_new),
            (re.compile(r"BitReadStream(?:::<.*>)?::read_int::<(\w+)>$"), r_int)]


class XorFloatSpec(KernelSpec):
    """shape = (n floats, number of leading concrete floats, mantissa or None, max_regret)"""
    dumps = ("cu",)
    diff_cases = 3
    max_paths = 60000

    def get_fn(self, ctx, inst):
        return None

    def instantiations(self, tier):
        return [{"nat": "xor_roundtrip"}]

    def shapes(self, tier, inst):
        if tier == "quick":
            return [(0, 0, None, 100), (1, 0, None, 100), (2, 0, None, 100), (2, 0, 0, 100), (2, 0, 23, 0), (3, 2, None, 100), (3, 2, 52, 0)]
        out = [(0, 0, None, 100), (1, 0, 5, 0), (3, 0, None, 100), (3, 1, None, 0), (3, 1, 10, 1000)]
        out += [(2, 0, m, 100) for m in (None, 0, 1, 11, 23, 30, 51, 52)]
        out += [(3, 2, m, r) for m in (None, 0, 23, 52) for r in (0, 100)]
        out += [(4, 3, None, 100), (4, 3, 23, 0)]
        return out

    CONCRETE = [0x3ff0000000000000, 0x3ff8000000000000, 0x3ff4000000000000, 0x4000000000000000]

    def sym_inputs(self, inst, shape):
        n, nconc, mantissa, regret = shape
        fl = [I("f64", self.CONCRETE[i]) if i < nconc else sym("f64", f"f{i}") for i in range(n)]
        return {"floats": fl}, []

    def explore(self, ctx, ex, fn, inst, shape, inp, pre):
        n, nconc, mantissa, regret = shape
        ex.stubs = stream_stubs()
        enc = [f for k, f in ex.lookup_fn("xor_float::double::encode") if f.kind == "fn"]
        dec = [f for k, f in ex.lookup_fn("xor_float::double::decode") if f.kind == "fn" and "Vec<f64>" in f.header]
        if len(enc) != 1 or len(dec) != 1:
            raise interp.Unsupported(f"xor_float::double::encode/decode not found ({len(enc)}/{len(dec)} candidates)")
        mant = Agg("enum", [I("u32", mantissa)], name="Option", variant="Some") if mantissa is not None else Agg("enum", [], name="Option", variant="None")
        calls = [(enc[0], lambda env: [slice_arg(inp["floats"]), I("u32", regret), mant], {}, "encoded"),
                 (dec[0], lambda env: [slice_arg([])], {}, "decoded")]
        return run_sequence(ex, pre, {}, calls)

    def post(self, inst, shape, inp, value, state=None):
        n, nconc, mantissa, regret = shape
        if isinstance(value, tuple) and value[0] == "native":
            ok, got = value[1], value[2]
        else:
            ok = isinstance(value, Agg) and value.variant == "Ok"
            got = [x for x in elems_of(value.fields[0])] if ok else []
        conds = [("decode accepts what encode produced", B(ok))]
        if not ok:
            return conds
        conds.append(("same number of values", B(len(got) == n)))
        if len(got) != n:
            return conds
        mask = (2**64 - 1) - ((1 << (52 - mantissa)) - 1) if mantissa is not None else 2**64 - 1
        for i in range(n):
            g = I("u64", got[i].v)
            f = I("u64", inp["floats"][i].v)
            if i == 0 or mantissa is None:
                conds.append((f"value {i} is bit-exact", binop("Eq", g, f)))
            else:
                conds.append((f"value {i} keeps sign, exponent and the {mantissa} leading mantissa bits",
                              binop("Eq", binop("BitAnd", binop("BitXor", g, f), I("u64", mask)), I("u64", 0))))
        return conds

    def random_inputs(self, rng, inst, shape):
        n, nconc, mantissa, regret = shape
        vals = []
        for i in range(n):
            if i < nconc:
                vals.append(self.CONCRETE[i])
            else:
                r = rng.random()
                base = vals[-1] if vals and r < 0.5 else rng.getrandbits(64)
                vals.append(base ^ (rng.getrandbits(rng.choice([1, 8, 20, 52, 64])) << rng.choice([0, 0, 4, 12, 30])) & (2**64 - 1))
        return {"floats": [I("f64", v & (2**64 - 1)) for v in vals]}

    def native(self, inst, shape, inp):
        if inp is None:
            return ("xor_roundtrip", [])
        n, nconc, mantissa, regret = shape
        return ("xor_roundtrip", ["[" + ",".join(str(x.v) for x in inp["floats"]) + "]", regret, "none" if mantissa is None else mantissa])

    def parse_native(self, inst, shape, toks):
        if toks[0] == "err":
            return ("native", False, [])
        return ("native", True, parse_ints(toks[1], "u64"))

    def native_view(self, inst, shape, v, st):
        ok = isinstance(v, Agg) and v.variant == "Ok"
        return ("native", ok, [I("u64", x.v) for x in elems_of(v.fields[0])] if ok else [])
