"""Vectorised operator `execute` loops (C03.c/d/e, C04.c, C06.b): the real VecOperator::execute bodies are run from
their MIR with the scratchpad accessors as environment stubs over obligation-owned buffers."""
import re

import z3

from .common import *
from ..mirsym import interp
from ..mirsym.values import Havoc, Opaque, UNIT, cast_int
from ..mirsym.models import seq_of
from .merge import MergeKeepNullableSpec
from .routing import str_ref

bit = MergeKeepNullableSpec.bit


def nbytes(n):
    return (n + 7) // 8


class Buffers:
    """obligation-owned scratchpad contents: idx -> dict(data=Cell(VecObj), present=Cell(VecObj)|None, scalar=value)"""

    def __init__(self):
        self.b = {}

    def vec(self, i, elems, ty):
        self.b[i] = {"data": Cell(VecObj(list(elems), ty)), "present": None}

    def nullable(self, i, elems, ty, present):
        self.b[i] = {"data": Cell(VecObj(list(elems), ty)), "present": Cell(VecObj(list(present), "u8"))}

    def scalar(self, i, v):
        self.b[i] = {"scalar": v}


def scratch_stubs(env_key="bufs"):
    """stubs for Scratchpad accessors; the BufferRef argument carries the concrete index in its field `i` (field 0)"""
    def idx(ex, bufref):
        v = bufref
        if isinstance(v, Ref):
            v = interp.navigate(v.cell.v, v.path)
        i = v.fields[0]
        return i.v

    def bufs(st):
        return st.env[env_key].b

    def get(ex, st, fr, path, args, m):
        b = bufs(st)[idx(ex, args[1])]
        v = b["data"].v
        return Ref(b["data"], (), (0, len(v.elems)))

    def get_mut(ex, st, fr, path, args, m):
        b = bufs(st)[idx(ex, args[1])]
        return Ref(b["data"], (), None, False, True)

    def get_scalar(ex, st, fr, path, args, m):
        return bufs(st)[idx(ex, args[1])]["scalar"]

    def get_null_map(ex, st, fr, path, args, m):
        b = bufs(st)[idx(ex, args[1])]
        if b.get("present") is None:
            raise interp.PanicExc("get_null_map on a buffer without null map")
        return Ref(b["present"], (), (0, len(b["present"].v.elems)))

    def get_nullable(ex, st, fr, path, args, m):
        return Agg("tuple", [get(ex, st, fr, path, args, m), get_null_map(ex, st, fr, path, args, m)])

    def get_mut_nullable(ex, st, fr, path, args, m):
        b = bufs(st)[idx(ex, args[1])]
        return Agg("tuple", [Ref(b["data"], (), None, False, True), Ref(b["present"], (), None, False, True)])

    def get_any_len(ex, st, fr, path, args, m):
        b = bufs(st)[idx(ex, args[1])]
        return Ref(b["data"], (), None)

    def set_const(ex, st, fr, path, args, m):
        bufs(st)[idx(ex, args[1])] = {"scalar": args[2]}
        return UNIT

    def set_vec(ex, st, fr, path, args, m):
        bufs(st)[idx(ex, args[1])] = {"data": Cell(args[2]), "present": None}
        return UNIT

    def is_alias(ex, st, fr, path, args, m):
        return I("bool", idx(ex, args[1]) == idx(ex, args[2]))
    S = r"(?:^|::)Scratchpad::"
    return [(re.compile(S + r"get::<"), get), (re.compile(S + r"get_mut::<"), get_mut), (re.compile(S + r"get_data_mut::<"), get_mut),
            (re.compile(S + r"get_scalar::<"), get_scalar), (re.compile(S + r"get_null_map$"), get_null_map),
            (re.compile(S + r"get_nullable::<"), get_nullable), (re.compile(S + r"get_mut_nullable::<"), get_mut_nullable),
            (re.compile(S + r"get_any$"), get_any_len), (re.compile(S + r"set_const::<"), set_const), (re.compile(S + r"set::<"), set_vec),
            (re.compile(S + r"is_alias::<"), is_alias),
            (re.compile(r"BufferRef::<.*>::(any|nullable_any|cast_non_nullable|cast_nullable_any)$|BufferRef::<.*>::transmute"), lambda ex, st, fr, path, args, m: args[0] if not isinstance(args[0], Ref) else interp.navigate(args[0].cell.v, args[0].path))]


def bufref(ctx, i):
    fs = ctx.src().struct_fields("BufferRef")
    vals = []
    for f in fs:
        if f == "i":
            vals.append(I("usize", i))
        elif f == "name":
            vals.append(str_ref([I("u8", 98)]))
        else:
            vals.append(Agg("struct", [], name="PhantomData"))
    if fs[0] != "i":
        raise interp.Unsupported("BufferRef.i is no longer the first field")
    return Agg("struct", vals, name="BufferRef")


class OpExecSpec(KernelSpec):
    """base: subclasses define op_type(inst), op_fields(ctx, inst) -> {field: value}, buffers(inst, shape, inp) -> Buffers"""
    diff_cases = 2
    trait = "VecOperator"

    def get_fn(self, ctx, inst):
        ex = ctx.executor(self.dumps)
        r = ex.resolve_method(self.op_type(inst), self.trait, "execute")
        if r is None:
            raise interp.Unsupported(f"<{self.op_type(inst)} as VecOperator>::execute not found in the MIR of the current tree")
        self._binding = r[1]
        return r[0].parse()

    def tymap(self, inst):
        return dict(self._binding)

    def struct_name(self, inst):
        return self.op_type(inst).split("<")[0]

    def explore(self, ctx, ex, fn, inst, shape, inp, pre):
        ex.stubs = scratch_stubs() + (self.extra_stubs(inst, shape, inp) if hasattr(self, "extra_stubs") else [])
        fs = ctx.src().struct_fields(self.struct_name(inst))
        vals = self.op_fields(ctx, inst)
        missing = [f for f in fs if f not in vals]
        if missing:
            raise interp.Unsupported(f"operator {self.struct_name(inst)} has fields the obligation does not know: {missing}")
        op = Agg("struct", [vals[f] for f in fs], name=self.struct_name(inst))
        env = {"bufs": self.buffers(inst, shape, inp), "op": Cell(op)}
        stream = I("bool", 0)
        st = ex.start(fn, [Ref(env["op"], (), None, False, True), stream, Ref(Cell(Opaque("scratchpad")), (), None, False, True)],
                      self.tymap(inst), pc=pre, env=env)
        return ex.explore(st)

    # ---- helpers for views
    @staticmethod
    def out_vec(state, i):
        return list(state.env["bufs"].b[i]["data"].v.elems)

    @staticmethod
    def out_present(state, i):
        p = state.env["bufs"].b[i].get("present")
        return list(p.v.elems) if p is not None else None

    @staticmethod
    def result_is_err(value):
        return isinstance(value, Agg) and value.variant == "Err"

    def native_view(self, inst, shape, v, st):
        return self.view(inst, shape, v, st)


# ----------------------------------------------------------------------------------------------------
# C03.e  Filter / FilterNullable
# ----------------------------------------------------------------------------------------------------
class FilterSpec(OpExecSpec):
    nullable = False

    def instantiations(self, tier):
        return [{"T": "i64", "nat": "op_filter" + ("_nullable" if self.nullable else "")}]

    def op_type(self, inst):
        return ("FilterNullable" if self.nullable else "Filter") + f"<{inst['T']}>"

    def shapes(self, tier, inst):
        return [0, 1, 3] if tier == "quick" else [0, 1, 2, 3, 4, 9]

    def sym_inputs(self, inst, shape):
        n = shape
        inp = {"data": [sym(inst["T"], f"d{i}") if i < 4 else I(inst["T"], i) for i in range(n)], "filter": [sym("u8", f"f{i}") for i in range(n)]}
        if self.nullable:
            inp["present"] = [sym("u8", f"p{i}") for i in range(nbytes(n))]
        return inp, []

    def op_fields(self, ctx, inst):
        return {"input": bufref(ctx, 0), "filter": bufref(ctx, 1), "output": bufref(ctx, 2)}

    def buffers(self, inst, shape, inp):
        b = Buffers()
        if self.nullable:
            b.nullable(0, inp["data"], inst["T"], inp["present"])
            b.nullable(2, [], inst["T"], [])
        else:
            b.vec(0, inp["data"], inst["T"])
            b.vec(2, [], inst["T"])
        b.vec(1, inp["filter"], "u8")
        return b

    def view(self, inst, shape, value, state):
        return {"err": self.result_is_err(value), "out": self.out_vec(state, 2), "present": self.out_present(state, 2) if self.nullable else None}

    def post(self, inst, shape, inp, value, state=None):
        v = self.view(inst, shape, value, state) if state is not None else value
        n = shape
        conds = [("filter never fails", B(not v["err"]))]
        # the output is concrete-length per path: it must be exactly the selected rows in order
        sel = [binop("Gt", f, I("u8", 0)) for f in inp["filter"]]
        out = v["out"]
        # count of selected rows == len(out): expressed per path via prefix positions
        # position of row i in the output = number of selected rows before it
        k = I("usize", 0)
        for i in range(n):
            for pos in range(len(out) + 1):
                here = band(sel[i], binop("Eq", k, I("usize", pos)))
                if pos < len(out):
                    conds.append((f"row {i}, if selected as output row {pos}, is copied unchanged", implies(here, binop("Eq", out[pos], inp["data"][i]))))
                    if self.nullable and v["present"] is not None:
                        conds.append((f"row {i}: NULL bit travels with the row", implies(here, binop("Eq", bit(v["present"], pos), bit(inp["present"], i)))))
                else:
                    conds.append((f"row {i}: every selected row is in the output", bnot(here)))
            k = ite(sel[i], binop("Add", k, I("usize", 1)), k)
        conds.append(("output has exactly one row per non-zero filter byte", binop("Eq", k, I("usize", len(out)))))
        return conds

    def random_inputs(self, rng, inst, shape):
        n = shape
        inp = {"data": [I(inst["T"], rnd_int(rng, inst["T"])) for _ in range(n)], "filter": [I("u8", rng.choice([0, 0, 1, 1, 2, 255])) for _ in range(n)]}
        if self.nullable:
            inp["present"] = [I("u8", rng.randint(0, 255)) for _ in range(nbytes(n))]
        return inp

    def native(self, inst, shape, inp):
        if inp is None:
            return (inst["nat"], [])
        t = [fmt_ints(inp["data"]), fmt_ints(inp["filter"])]
        if self.nullable:
            t.append(fmt_ints(inp["present"]))
        return (inst["nat"], t)

    def parse_native(self, inst, shape, toks):
        return {"err": toks[0] == "err", "out": parse_ints(toks[1], inst["T"]), "present": parse_ints(toks[2], "u8") if self.nullable else None}

    def native_view(self, inst, shape, v, st):
        d = self.view(inst, shape, v, st)
        if self.nullable and d["present"] is not None:
            # the real buffer may carry trailing zero bytes; compare only the meaningful prefix
            d["present"] = d["present"][:nbytes(len(d["out"]))] if len(d["present"]) > nbytes(len(d["out"])) else d["present"]
        return d


class FilterNullableSpec(FilterSpec):
    nullable = True


# ----------------------------------------------------------------------------------------------------
# C06.b  NullableChecked* operator loops
# ----------------------------------------------------------------------------------------------------
OPS = {"add": ("Addition", "AddWithOverflow"), "sub": ("Subtraction", "SubWithOverflow"), "mul": ("Multiplication", "MulWithOverflow")}


class NullableCheckedSpec(OpExecSpec):
    """NullableCheckedBinary{,VS,SV}Operator<i64,i64,i64,Op>: Err(Overflow) iff some *present* row overflows; NULL rows never raise;
    present rows carry the exact result"""

    def instantiations(self, tier):
        out = []
        for form in ("VV", "VS", "SV"):
            for op in (("add", "sub") if tier == "quick" else ("add", "sub", "mul")):
                if form == "SV" and op == "add":
                    continue      # addition with a scalar on the left is planned as VS with swapped operands
                out.append({"form": form, "op": op, "nat": f"op_nullable_checked_{form}_{op}"})
        return out

    def op_type(self, inst):
        k = OPS[inst["op"]][0]
        kern = f"{k}<i64, i64>" if inst["op"] != "mul" else f"{k}<i64, i64, i64>"
        name = {"VV": "NullableCheckedBinaryOperator", "VS": "NullableCheckedBinaryVSOperator", "SV": "NullableCheckedBinarySVOperator"}[inst["form"]]
        return f"{name}<i64, i64, i64, {kern}>"

    def shapes(self, tier, inst):
        return [1, 2] if tier == "quick" else [0, 1, 2, 3, 9]

    def sym_inputs(self, inst, shape):
        n = shape
        mk = lambda nm: [sym("i64", f"{nm}{i}") if i < 3 else I("i64", i) for i in range(n)]
        inp = {"present": [sym("u8", f"p{i}") for i in range(nbytes(n))]}
        if inst["form"] == "VV":
            inp["l"], inp["r"] = mk("l"), mk("r")
        elif inst["form"] == "VS":
            inp["l"], inp["r"] = mk("l"), [sym("i64", "rs")]
        else:
            inp["l"], inp["r"] = [sym("i64", "ls")], mk("r")
        return inp, []

    def op_fields(self, ctx, inst):
        return {"lhs": bufref(ctx, 0), "rhs": bufref(ctx, 1), "present": bufref(ctx, 2), "output": bufref(ctx, 3), "op": Agg("struct", [], name="PhantomData")}

    def buffers(self, inst, shape, inp):
        b = Buffers()
        if inst["form"] == "SV":
            b.scalar(0, inp["l"][0])
        else:
            b.vec(0, inp["l"], "i64")
        if inst["form"] == "VS":
            b.scalar(1, inp["r"][0])
        else:
            b.vec(1, inp["r"], "i64")
        b.vec(2, inp["present"], "u8")
        b.nullable(3, [], "i64", inp["present"])
        return b

    def view(self, inst, shape, value, state):
        return {"err": self.result_is_err(value), "out": self.out_vec(state, 3)}

    def rows(self, inst, shape, inp):
        n = shape
        for i in range(n):
            l = inp["l"][0] if inst["form"] == "SV" else inp["l"][i]
            r = inp["r"][0] if inst["form"] == "VS" else inp["r"][i]
            yield i, l, r

    def post(self, inst, shape, inp, value, state=None):
        v = self.view(inst, shape, value, state) if state is not None else value
        n = shape
        anyovf = B(False)
        conds = []
        for i, l, r in self.rows(inst, shape, inp):
            res = binop(OPS[inst["op"]][1], l, r)
            p = bit(inp["present"], i)
            anyovf = bor(anyovf, band(p, res.fields[1]))
            if not v["err"] and len(v["out"]) == n:
                conds.append((f"row {i}: a present row carries the exact result", implies(p, binop("Eq", v["out"][i], res.fields[0]))))
        if v["err"]:
            conds.append(("Err(Overflow) only when a present (non-NULL) row overflows", anyovf))
        else:
            conds.append(("Ok only when no present row overflows (never a silently wrapped value)", bnot(anyovf)))
            conds.append(("one output per row", B(len(v["out"]) == n)))
        return conds

    def random_inputs(self, rng, inst, shape):
        inp, _ = self.sym_inputs(inst, shape)
        return {k: [x if x.concrete else I(x.ty, rnd_int(rng, x.ty) if x.ty != "u8" else rng.randint(0, 255)) for x in v] for k, v in inp.items()}

    def native(self, inst, shape, inp):
        if inp is None:
            return (inst["nat"], [])
        return (inst["nat"], [fmt_ints(inp["l"]), fmt_ints(inp["r"]), fmt_ints(inp["present"])])

    def parse_native(self, inst, shape, toks):
        return {"err": toks[0] == "err", "out": parse_ints(toks[1], "i64")}


# ----------------------------------------------------------------------------------------------------
# C03.c  InverseDictLookup: translation of a string constant into the dictionary-index domain
# ----------------------------------------------------------------------------------------------------
DICTS = [[b"b"], [b"b", b"d"], [b"a", b"c", b"e"], [b"ab", b"b"]]


class InverseDictLookupSpec(OpExecSpec):
    """the scalar r written by InverseDictLookup must make comparisons on dictionary indices equivalent to comparisons on
    strings: for every dictionary entry i and every operator OP in {=,<>,<,<=,>,>=}: dict[i] OP const <=> i OP r"""
    diff_cases = 2

    def instantiations(self, tier):
        return [{"nat": "op_inverse_dict_lookup"}]

    def op_type(self, inst):
        return "InverseDictLookup"

    def shapes(self, tier, inst):
        out = []
        for d in range(len(DICTS) if tier == "thorough" else 3):
            for clen in ((1,) if tier == "quick" else (0, 1, 2)):
                out.append((d, clen))
        return out

    def sym_inputs(self, inst, shape):
        d, clen = shape
        return {"const": [sym("u8", f"c{i}") for i in range(clen)]}, []

    def op_fields(self, ctx, inst):
        return {"dict_indices": bufref(ctx, 0), "dict_data": bufref(ctx, 1), "constant": bufref(ctx, 2), "output": bufref(ctx, 3)}

    def buffers(self, inst, shape, inp):
        d, clen = shape
        b = Buffers()
        ranges, backing = [], []
        for s in DICTS[d]:
            ranges.append(I("u64", (len(backing) << 24) + len(s)))
            backing += [I("u8", x) for x in s]
        b.vec(0, ranges, "u64")
        b.vec(1, backing, "u8")
        b.scalar(2, str_ref(inp["const"]))
        b.scalar(3, I("i64", 0))
        return b

    def view(self, inst, shape, value, state):
        return {"err": self.result_is_err(value), "r": state.env["bufs"].b[3]["scalar"]}

    def post(self, inst, shape, inp, value, state=None):
        from .routing import cmp_bytes_ref
        v = self.view(inst, shape, value, state) if state is not None else value
        d, clen = shape
        r = v["r"]
        conds = [("lookup never fails", B(not v["err"]))]
        for i, s in enumerate(DICTS[d]):
            c_lt, c_eq = cmp_bytes_ref(inp["const"], s)       # const < s, const == s
            s_lt = band(bnot(c_lt), bnot(c_eq))                 # s < const
            idx = I("i64", i)
            for name, on_str, on_idx in (("=", c_eq, binop("Eq", idx, r)), ("<", s_lt, binop("Lt", idx, r)), ("<=", bor(s_lt, c_eq), binop("Le", idx, r)),
                                         (">", c_lt, binop("Gt", idx, r)), (">=", bor(c_lt, c_eq), binop("Ge", idx, r))):
                conds.append((f"dictionary entry OP constant <=> index OP translated constant, for OP '{name}'", binop("Eq", on_str, on_idx)))
        return conds

    def random_inputs(self, rng, inst, shape):
        d, clen = shape
        return {"const": [I("u8", rng.choice([0x61, 0x62, 0x63, 0x64, 0x65, 0x66, 0x60])) for _ in range(clen)]}

    def native(self, inst, shape, inp):
        if inp is None:
            return (inst["nat"], [])
        d, clen = shape
        return (inst["nat"], [",".join(x.hex() for x in DICTS[d]), bytes(x.v for x in inp["const"]).hex() or "-"])

    def parse_native(self, inst, shape, toks):
        return {"err": toks[0] == "err", "r": I("i64", int(toks[1]))}


class DictLookupSpec(OpExecSpec):
    """DictLookup<T>::execute (query-side decoding of dictionary-coded string columns): row j of the output is the dictionary
    entry number indices[j], byte for byte"""
    diff_cases = 2

    def instantiations(self, tier):
        return [{"T": "u8", "nat": "op_dict_lookup_u8"}] + ([{"T": "u16", "nat": "op_dict_lookup_u16"}] if tier == "thorough" else [])

    def op_type(self, inst):
        return f"DictLookup<{inst['T']}>"

    def extra_stubs(self, inst, shape, inp):
        from .operators3 import extra_scratch_stubs
        return extra_scratch_stubs()

    def shapes(self, tier, inst):
        out = []
        for d in range(len(DICTS) if tier == "thorough" else 3):
            for n in ((0, 2) if tier == "quick" else (0, 1, 3)):
                out.append((d, n))
        return out

    def sym_inputs(self, inst, shape):
        d, n = shape
        idx = [sym(inst["T"], f"i{k}") for k in range(n)]
        return {"idx": idx}, [z3.ULT(x.v, len(DICTS[d])) for x in idx]

    def op_fields(self, ctx, inst):
        return {"indices": bufref(ctx, 0), "dict_indices": bufref(ctx, 1), "dict_data": bufref(ctx, 2), "output": bufref(ctx, 3)}

    def buffers(self, inst, shape, inp):
        d, n = shape
        b = Buffers()
        ranges, backing = [], []
        for s in DICTS[d]:
            ranges.append(I("u64", (len(backing) << 24) + len(s)))
            backing += [I("u8", x) for x in s]
        b.vec(0, list(inp["idx"]), inst["T"])
        b.vec(1, ranges, "u64")
        b.vec(2, backing, "u8")
        b.vec(3, [], "&str")
        return b

    def view(self, inst, shape, value, state):
        out = []
        for r in self.out_vec(state, 3):
            el, lo, hi = seq_of(r)
            out.append(bytes(e.v for e in el[lo:hi]))
        return {"err": self.result_is_err(value), "out": out}

    def post(self, inst, shape, inp, value, state=None):
        v = self.view(inst, shape, value, state) if state is not None else value
        d, n = shape
        conds = [("lookup never fails", B(not v["err"])), ("one string per row", B(len(v["out"]) == n))]
        if len(v["out"]) != n:
            return conds
        for j in range(n):
            for k, s in enumerate(DICTS[d]):
                conds.append((f"row {j}: index {k} decodes to dictionary entry {k}", implies(binop("Eq", inp["idx"][j], I(inst["T"], k)), B(v["out"][j] == s))))
        return conds

    def random_inputs(self, rng, inst, shape):
        d, n = shape
        return {"idx": [I(inst["T"], rng.randrange(len(DICTS[d]))) for _ in range(n)]}

    def native(self, inst, shape, inp):
        if inp is None:
            return (inst["nat"], [])
        d, n = shape
        return (inst["nat"], [",".join(x.hex() for x in DICTS[d]), fmt_ints(inp["idx"])])

    def parse_native(self, inst, shape, toks):
        return {"err": toks[0] == "err", "out": [] if toks[1] == "-" else [bytes.fromhex(h) if h != "_" else b"" for h in toks[1].split(",")]}


# ----------------------------------------------------------------------------------------------------
# C03.b  constant translated into the encoding domain: Codec::encode_int
# ----------------------------------------------------------------------------------------------------
class EncodeIntSpec(KernelSpec):
    """For a column stored as e: T with codec [Add(T, y)] (decoded value e + y) or [ToI64(T)]: comparing the encoded value with
    Codec::encode_int(c) must be equivalent to comparing the decoded value with c, for all six operators, and the
    translation must not panic for any constant."""
    method = ("Codec", None, "encode_int")
    diff_cases = 4

    def instantiations(self, tier):
        return [{"T": t, "kind": k, "nat": "codec_encode_int"} for t in (("u8", "u32") if tier == "quick" else ("u8", "u16", "u32")) for k in ("Add", "ToI64")]

    def sym_inputs(self, inst, shape):
        t = inst["T"]
        inp = {"e": sym(t, "e"), "c": sym("i64", "c")}
        pre = []
        if inst["kind"] == "Add":
            inp["y"] = sym("i64", "y")
            # the builder only emits Add(T, y) with every decoded value e + y representable (y = column minimum)
            s = binop("AddWithOverflow", cast_int(inp["e"], "i64"), inp["y"])
            pre.append(z3.Not(s.fields[1].z()))
            pre.append(inp["y"].v != 0)
        return inp, pre

    def explore(self, ctx, ex, fn, inst, shape, inp, pre):
        T = Agg("enum", [], name="EncodingType", variant=inst["T"].upper())
        op = Agg("enum", [T, inp["y"]], name="CodecOp", variant="Add") if inst["kind"] == "Add" else Agg("enum", [T], name="CodecOp", variant="ToI64")
        fs = ctx.src().struct_fields("Codec")
        vals = [VecObj([op]) if f == "ops" else Havoc("?", f) for f in fs]
        st = ex.start(fn, [Ref(Cell(Agg("struct", vals, name="Codec"))), inp["c"]], {}, pc=pre)
        return ex.explore(st)

    def post(self, inst, shape, inp, value, state=None):
        enc_c = value
        e64 = cast_int(inp["e"], "i64")
        dec = binop("Add", e64, inp["y"]) if inst["kind"] == "Add" else e64
        conds = []
        for name, opn in (("=", "Eq"), ("<", "Lt"), ("<=", "Le"), (">", "Gt"), (">=", "Ge"), ("<>", "Ne")):
            conds.append((f"decoded {name} constant <=> encoded {name} translated constant", binop("Eq", binop(opn, dec, inp["c"]), binop(opn, e64, enc_c))))
        return conds

    def random_inputs(self, rng, inst, shape):
        t = inst["T"]
        e = I(t, rnd_int(rng, t))
        inp = {"e": e, "c": I("i64", rnd_int(rng, "i64"))}
        if inst["kind"] == "Add":
            y = rng.choice([-5, 1000, -2**62, 2**40, -2**63])
            if y + e.v > 2**63 - 1:
                y = -y
            inp["y"] = I("i64", y)
            if rng.random() < 0.5:
                inp["c"] = I("i64", max(-2**63, min(2**63 - 1, y + rng.randint(-3, 300))))
        return inp

    def native(self, inst, shape, inp):
        if inp is None:
            return ("codec_encode_int", [])
        return ("codec_encode_int", [inst["kind"], inst["T"], inp["y"].v if inst["kind"] == "Add" else 0, inp["c"].v])

    def parse_native(self, inst, shape, toks):
        return I("i64", int(toks[0]))


def exact_cmp(opn, iv, fv):
    """mathematically exact comparison of an i64 value with a (non-NaN) f64 constant"""
    if iv.concrete and fv.concrete:
        from fractions import Fraction
        import struct
        f = struct.unpack("<d", struct.pack("<Q", fv.v & ((1 << 64) - 1)))[0]
        import math
        if math.isnan(f):
            return I("bool", opn == "Ne")
        if math.isinf(f):
            a, b = Fraction(0), Fraction(1 if f > 0 else -1)
        else:
            a, b = Fraction(iv.v), Fraction(f)
        return I("bool", {"Eq": a == b, "Ne": a != b, "Lt": a < b, "Le": a <= b, "Gt": a > b, "Ge": a >= b}[opn])
    # symbolic: v vs c with f64-sort operations only.  vf = RNE(v) as f64.  Rounding is monotone, so if vf != c then
    # cmp(v, c) == cmp(vf, c).  If vf == c, c is an integer: c >= 2^63 means v < c (v <= i64::MAX), otherwise c converts to
    # i64 exactly and the integers are compared.
    F = z3.Float64()
    vf = z3.fpSignedToFP(z3.RNE(), iv.z(), F)
    c = z3.fpBVToFP(fv.z(), F)
    big = z3.fpGEQ(c, z3.FPVal(2.0 ** 63, F))
    ci = z3.fpToSBV(z3.RTZ(), c, z3.BitVecSort(64))
    same = z3.fpEQ(vf, c)
    lt = z3.If(same, z3.Or(big, iv.z() < ci), z3.fpLT(vf, c))
    eq = z3.And(same, z3.Not(big), iv.z() == ci)
    r = {"Eq": eq, "Ne": z3.Not(eq), "Lt": lt, "Le": z3.Or(lt, eq), "Gt": z3.Not(z3.Or(lt, eq)), "Ge": z3.Not(lt)}[opn]
    return I("bool", r)


class EncodeFloatSpec(KernelSpec):
    """Codec::encode_float(c): the float WHERE-constant translated into the encoding domain of an integer column stored as
    e: T with codec [Add(T, y)] / [ToI64(T)].  The kernels then compare `e as f64 OP encode_float(c)`.  Oracle: the mathematically exact
    comparison of the decoded integer e + y with the constant c (exact_cmp).
    Two modes: 'grid' = constants k / 2^f with few bits and small offsets (GRID), where every f64 operation involved is exact;
    'full' = every non-NaN f64 constant and every offset the builder can emit."""
    method = ("Codec", None, "encode_float")
    diff_cases = 4
    OPS = (("=", "Eq"), ("<", "Lt"), ("<=", "Le"), (">", "Gt"), (">=", "Ge"), ("<>", "Ne"))

    # (bits of k, fractional bits, bits of the offset): f64 unsat proofs cost 15-45 s each whatever the domain, so the grid is small
    GRID = {"quick": (12, 1, 8), "thorough": (16, 2, 10)}

    def instantiations(self, tier):
        ts = ("u8",) if tier == "quick" else ("u8", "u16", "u32")
        return [{"T": t, "kind": k, "mode": m, "tier": tier, "nat": "codec_encode_float"} for t in ts for k in ("Add", "ToI64") for m in ("grid", "full")
                if not (m == "full" and t != "u8")]

    def sym_inputs(self, inst, shape):
        t = inst["T"]
        inp = {"e": sym(t, "e")}
        pre = []
        if inst["mode"] == "grid":
            k = sym("i64", "k")
            inp["k"] = k
            kb, fb, yb = self.GRID[inst["tier"]]
            pre += [k.v > -(1 << kb), k.v < (1 << kb)]
            kf = z3.fpSignedToFP(z3.RNE(), k.v, z3.Float64())
            c = z3.fpMul(z3.RNE(), kf, z3.FPVal(2.0 ** -fb, z3.Float64()))
            inp["c"] = I("f64", z3.fpToIEEEBV(c))
        else:
            c = sym("f64", "c")
            inp["c"] = c
            pre.append(z3.Not(z3.fpIsNaN(z3.fpBVToFP(c.v, z3.Float64()))))
        if inst["kind"] == "Add":
            inp["y"] = sym("i64", "y")
            s = binop("AddWithOverflow", cast_int(inp["e"], "i64"), inp["y"])
            pre.append(z3.Not(s.fields[1].z()))
            pre.append(inp["y"].v != 0)
            if inst["mode"] == "grid":
                yb = self.GRID[inst["tier"]][2]
                pre += [inp["y"].v > -(1 << yb), inp["y"].v < (1 << yb)]
        return inp, pre

    def explore(self, ctx, ex, fn, inst, shape, inp, pre):
        T = Agg("enum", [], name="EncodingType", variant=inst["T"].upper())
        op = Agg("enum", [T, inp["y"]], name="CodecOp", variant="Add") if inst["kind"] == "Add" else Agg("enum", [T], name="CodecOp", variant="ToI64")
        fs = ctx.src().struct_fields("Codec")
        vals = [VecObj([op]) if f == "ops" else Havoc("?", f) for f in fs]
        st = ex.start(fn, [Ref(Cell(Agg("struct", vals, name="Codec"))), inp["c"]], {}, pc=pre)
        return ex.explore(st)

    FULL_LABEL = "decoded OP constant <=> encoded OP translated constant for all six operators (all non-NaN f64 constants, all offsets: includes constants whose translation x - offset rounds)"

    def label(self, inst, name):
        return f"decoded {name} constant <=> encoded {name} translated constant (constants with few fractional bits and small offsets: every f64 operation exact)"

    def post(self, inst, shape, inp, value, state=None):
        from ..mirsym.values import cast_int_to_float
        enc_c = value
        e64 = cast_int(inp["e"], "i64")
        dec = binop("Add", e64, inp["y"]) if inst["kind"] == "Add" else e64
        e_f = cast_int_to_float(inp["e"], "f64")
        conds = []
        for name, opn in self.OPS:
            conds.append((self.label(inst, name), binop("Eq", exact_cmp(opn, dec, inp["c"]), binop(opn, e_f, enc_c))))
        if inst["mode"] == "full":
            # one label for the whole f64 domain: outside the exact grid a failure is a rounding effect of `x - y as f64`
            return [(self.FULL_LABEL, band(*[c for _, c in conds]))]
        return conds

    def random_inputs(self, rng, inst, shape):
        import struct
        t = inst["T"]
        e = I(t, rnd_int(rng, t))
        inp = {"e": e}
        y = 0
        if inst["kind"] == "Add":
            y = rng.choice([-5, 100, -200, 77, 1])
            inp["y"] = I("i64", y)
        fb = self.GRID[inst["tier"]][1]
        k = (y + e.v + rng.randint(-3, 3)) * (1 << fb) + rng.choice([0, 1, -1])
        c = k / float(1 << fb)
        if inst["mode"] == "grid":
            inp["k"] = I("i64", k)
        inp["c"] = I("f64", struct.unpack("<Q", struct.pack("<d", c))[0])
        return inp

    def native(self, inst, shape, inp):
        if inp is None:
            return ("codec_encode_float", [])
        return ("codec_encode_float", [inst["kind"], inst["T"], inp["y"].v if inst["kind"] == "Add" else 0, inp["c"].v])

    def parse_native(self, inst, shape, toks):
        return I("f64", int(toks[0]))


# ----------------------------------------------------------------------------------------------------
# C04.c  array aggregation loops
# ----------------------------------------------------------------------------------------------------
AGG_KINDS = {
    # name: (struct, A type, V type, reference fold)
    "max": ("MaxI64", "i64"), "min": ("MinI64", "i64"), "count": ("Count", "u32"), "sum": ("SumI64", "i64"),
}
MAXG = 2      # group keys 0..=2


class AggregateSpec(OpExecSpec):
    """Aggregate / AggregateNullable / CheckedAggregate / CheckedAggregateNullable ::execute on rows (key, value):
    accumulator[k] == aggregate of the (present) rows with key k, starting from the aggregator's unit; the nullable variants
    mark exactly the groups that received a present row; checked SUM fails iff an accumulation overflows"""
    diff_cases = 2

    def instantiations(self, tier):
        out = []
        for agg in ("max", "min", "count", "sum"):
            for nullable in (False, True):
                if agg == "count" and nullable:
                    continue
                out.append({"agg": agg, "nullable": nullable, "nat": f"op_aggregate_{agg}" + ("_nullable" if nullable else "")})
        return out

    def op_type(self, inst):
        a, v = AGG_KINDS[inst["agg"]]
        if inst["agg"] == "sum":
            return ("CheckedAggregateNullable" if inst["nullable"] else "CheckedAggregate") + f"<i64, u8, {v}, {a}>"
        return ("AggregateNullable" if inst["nullable"] else "Aggregate") + f"<i64, u8, {v}, {a}>"

    def shapes(self, tier, inst):
        return [0, 2] if tier == "quick" else [0, 1, 2, 3]

    def sym_inputs(self, inst, shape):
        n = shape
        inp = {"vals": [sym("i64", f"v{i}") for i in range(n)], "keys": [sym("u8", f"k{i}") for i in range(n)]}
        pre = [z3.ULE(k.v, MAXG) for k in inp["keys"]]
        if inst["nullable"]:
            inp["present"] = [sym("u8", f"p{i}") for i in range(nbytes(n))]
        return inp, pre

    def op_fields(self, ctx, inst):
        return {"input": bufref(ctx, 0), "grouping": bufref(ctx, 1), "output": bufref(ctx, 2), "max_index": bufref(ctx, 3), "a": Agg("struct", [], name="PhantomData")}

    def buffers(self, inst, shape, inp):
        b = Buffers()
        if inst["nullable"]:
            b.nullable(0, inp["vals"], "i64", inp["present"])
            b.nullable(2, [], AGG_KINDS[inst["agg"]][1], [])
        else:
            b.vec(0, inp["vals"], "i64")
            b.vec(2, [], AGG_KINDS[inst["agg"]][1])
        b.vec(1, inp["keys"], "u8")
        b.scalar(3, I("i64", MAXG))
        return b

    def view(self, inst, shape, value, state):
        return {"err": self.result_is_err(value), "acc": self.out_vec(state, 2), "present": self.out_present(state, 2) if inst["nullable"] else None}

    def post(self, inst, shape, inp, value, state=None):
        v = self.view(inst, shape, value, state) if state is not None else value
        n = shape
        agg = inst["agg"]
        vty = AGG_KINDS[agg][1]
        unit = {"max": I("i64", -2**63), "min": I("i64", 2**63 - 1), "count": I("u32", 0), "sum": I("i64", 0)}[agg]
        conds = []
        anyovf = B(False)
        accs = []
        seen = []
        for g in range(MAXG + 1):
            acc = unit
            s = B(False)
            for i in range(n):
                mine = binop("Eq", inp["keys"][i], I("u8", g))
                if inst["nullable"]:
                    mine = band(mine, bit(inp["present"], i))
                x = inp["vals"][i]
                if agg == "max":
                    nxt = ite(binop("Gt", x, acc), x, acc)
                elif agg == "min":
                    nxt = ite(binop("Lt", x, acc), x, acc)
                elif agg == "count":
                    nxt = binop("Add", acc, I("u32", 1))
                else:
                    r = binop("AddWithOverflow", acc, x)
                    anyovf = bor(anyovf, band(mine, r.fields[1]))
                    nxt = r.fields[0]
                acc = ite(mine, nxt, acc)
                s = bor(s, mine)
            accs.append(acc)
            seen.append(s)
        if v["err"]:
            return [("Err(Overflow) only when a checked accumulation overflows", anyovf if agg == "sum" else B(False))]
        if agg == "sum":
            conds.append(("Ok only when no accumulation overflows", bnot(anyovf)))
        conds.append(("one accumulator per group id 0..=max_index", B(len(v["acc"]) == MAXG + 1)))
        if len(v["acc"]) != MAXG + 1:
            return conds
        for g in range(MAXG + 1):
            conds.append((f"accumulator of group {g} == aggregate over exactly its rows", binop("Eq", v["acc"][g], accs[g])))
            if inst["nullable"] and v["present"] is not None:
                conds.append((f"group {g} is marked present iff it received a non-NULL row", binop("Eq", bit(v["present"], g), seen[g])))
        return conds

    def random_inputs(self, rng, inst, shape):
        n = shape
        inp = {"vals": [I("i64", rnd_int(rng, "i64")) for _ in range(n)], "keys": [I("u8", rng.randint(0, MAXG)) for _ in range(n)]}
        if inst["nullable"]:
            inp["present"] = [I("u8", rng.randint(0, 255)) for _ in range(nbytes(n))]
        return inp

    def native(self, inst, shape, inp):
        if inp is None:
            return (inst["nat"], [])
        t = [fmt_ints(inp["vals"]), fmt_ints(inp["keys"]), MAXG]
        if inst["nullable"]:
            t.append(fmt_ints(inp["present"]))
        return (inst["nat"], t)

    def parse_native(self, inst, shape, toks):
        vty = AGG_KINDS[inst["agg"]][1]
        return {"err": toks[0] == "err", "acc": parse_ints(toks[1], vty), "present": parse_ints(toks[2], "u8") if inst["nullable"] else None}

    def native_view(self, inst, shape, v, st):
        d = self.view(inst, shape, v, st)
        if d["present"] is not None:
            d["present"] = d["present"][:nbytes(MAXG + 1)]
        return d
