"""C16.d : server::encode_column - the query-response column handed to the wire encoder represents, row for row, the
column the engine produced (type-signature dispatch of mixed columns: all strings / all ints / all NULL / floats with NULLs
as the reserved NaN / genuinely mixed)."""
import re
import z3

from .common import *
from ..mirsym import interp
from ..mirsym.values import Havoc, Opaque
from ..mirsym.models import seq_of

NULL_BITS = 0x7ffa_aaaa_aaaa_aaaa
KINDS = "ISNF"      # Int, Str, Null, Float


def rstr(bs):
    return VecObj(list(bs), "u8", is_str=True)


class EncodeColumnSpec(KernelSpec):
    """shape = (column kind, row kinds, xor): column kind in {'Int','Float','String','Null','Mixed'}; row kinds is a string over
    ISNF for Mixed columns / a length otherwise; xor = whether XOR float compression is requested (the codec itself is decided
    by C16.b: here xor_float::double::encode is a recorder stub and the floats handed to it are checked)"""
    fn_path = "server::encode_column"
    dumps = ("main", "cu")
    diff_cases = 2

    def instantiations(self, tier):
        return [{"nat": "encode_column"}]

    def shapes(self, tier, inst):
        out = [("Int", 2, False), ("Float", 2, False), ("Float", 2, True), ("String", 2, False), ("Null", 0, False)]
        n = 2 if tier == "quick" else 3
        import itertools
        for k in range(0, n + 1):
            for seq in itertools.product(KINDS, repeat=k):
                s = "".join(seq)
                out.append(("Mixed", s, False))
                if set(s) <= set("NF") and "F" in s:
                    out.append(("Mixed", s, True))
        if tier == "quick":
            out += [("Mixed", "NFN", False), ("Mixed", "INS", False), ("Mixed", "NNN", False), ("Mixed", "FNI", False), ("Mixed", "SSS", False)]
        return out

    def sym_inputs(self, inst, shape):
        kind, rows, xor = shape
        inp = {}
        if kind == "Null":
            inp["n"] = sym("usize", "n")
            return inp, []
        if kind != "Mixed":
            rows = {"Int": "I", "Float": "F", "String": "S"}[kind] * rows
        vals = []
        pre = []
        for i, k in enumerate(rows):
            if k == "I":
                vals.append(sym("i64", f"i{i}"))
            elif k == "F":
                f = sym("f64", f"f{i}")
                vals.append(f)
            elif k == "S":
                vals.append([sym("u8", f"s{i}")])
            else:
                vals.append(None)
        inp["vals"] = vals
        return inp, pre

    def rows_of(self, shape):
        kind, rows, xor = shape
        if kind == "Mixed":
            return rows
        if kind == "Null":
            return ""
        return {"Int": "I", "Float": "F", "String": "S"}[kind] * rows

    def explore(self, ctx, ex, fn, inst, shape, inp, pre):
        kind, rows, xor = shape
        rk = self.rows_of(shape)
        if kind == "Null":
            col = Agg("enum", [inp["n"]], name="BasicTypeColumn", variant="Null")
        elif kind == "Int":
            col = Agg("enum", [VecObj(list(inp["vals"]), "i64")], name="BasicTypeColumn", variant="Int")
        elif kind == "Float":
            col = Agg("enum", [VecObj(list(inp["vals"]), "f64")], name="BasicTypeColumn", variant="Float")
        elif kind == "String":
            col = Agg("enum", [VecObj([rstr(v) for v in inp["vals"]])], name="BasicTypeColumn", variant="String")
        else:
            xs = []
            for k, v in zip(rk, inp["vals"]):
                if k == "I":
                    xs.append(Agg("enum", [v], name="RawVal", variant="Int"))
                elif k == "F":
                    xs.append(Agg("enum", [Agg("struct", [v], name="OrderedFloat")], name="RawVal", variant="Float"))
                elif k == "S":
                    xs.append(Agg("enum", [rstr(v)], name="RawVal", variant="Str"))
                else:
                    xs.append(Agg("enum", [], name="RawVal", variant="Null"))
            col = Agg("enum", [VecObj(xs)], name="BasicTypeColumn", variant="Mixed")
        ofs = ctx.src().struct_fields("EncodingOpts")
        if ofs is None or "xor_float_compression" not in ofs:
            raise interp.Unsupported("EncodingOpts.xor_float_compression not found in the current source")
        opts = Agg("struct", [I("bool", 1 if xor else 0) if f == "xor_float_compression"
                              else (Agg("enum", [], name="Option", variant="None") if f == "mantissa" else Havoc("?", f)) for f in ofs],
                   name="EncodingOpts")

        def xor_encode(ex_, st, fr, path, args, m):
            el, lo, hi = seq_of(args[0])
            return VecObj([Opaque("xor")] + list(el[lo:hi]), "u8")
        ex.stubs = [(re.compile(r"xor_float::double::encode$"), xor_encode)]
        st = ex.start(fn, [col, Ref(Cell(opts))], {}, pc=pre)
        return ex.explore(st)

    # ---- views -----------------------------------------------------------------------------------------------------
    def view(self, value):
        """api::Column -> (variant, payload) with payload lists of I / byte lists / ('I'|'F'|'S'|'N', v)"""
        if isinstance(value, tuple):
            return value
        var = value.variant
        if var == "Null":
            return ("Null", value.fields[0])
        v = value.fields[0]
        if var == "Xor":
            els = list(v.elems)
            if els and isinstance(els[0], Opaque):
                return ("Xor", els[1:])
            return ("XorBytes", els)
        if var in ("Int", "Float"):
            return (var, list(v.elems))
        if var == "String":
            return ("String", [list(s.elems) for s in v.elems])
        if var == "Mixed":
            out = []
            for a in v.elems:
                if a.variant == "Int":
                    out.append(("I", a.fields[0]))
                elif a.variant == "Float":
                    out.append(("F", a.fields[0]))
                elif a.variant == "Str":
                    out.append(("S", list(a.fields[0].elems)))
                else:
                    out.append(("N", None))
            return ("Mixed", out)
        return (var, None)

    def post(self, inst, shape, inp, value, state=None):
        kind, rows, xor = shape
        rk = self.rows_of(shape)
        var, pl = self.view(value)
        if kind == "Null":
            return [("an all-NULL column is sent as Null(n)", B(var == "Null") if var != "Null" else binop("Eq", pl, inp["n"]))]
        vals = inp["vals"]
        n = len(rk)
        conds = []

        def same_bytes(a, b):
            if len(a) != len(b):
                return B(False)
            return band(*[binop("Eq", x, y) for x, y in zip(a, b)]) if a else B(True)
        if var in ("Float", "Xor"):
            conds.append(("XOR compression is used exactly when requested", B((var == "Xor") == bool(xor))))
            conds.append(("one cell per row", B(len(pl) == n)))
            conds.append(("a float column is only chosen when every row is a float or NULL", B(set(rk) <= set("FN"))))
            if len(pl) == n and set(rk) <= set("FN"):
                for i, k in enumerate(rk):
                    want = vals[i] if k == "F" else I("f64", NULL_BITS)
                    conds.append((f"row {i}: float bits preserved / NULL sent as the reserved NaN", binop("Eq", cast_bits(pl[i]), cast_bits(want))))
        elif var == "Int":
            conds.append(("an integer column is only chosen when every row is an integer", B(set(rk) <= set("I") and len(pl) == n)))
            if set(rk) <= set("I") and len(pl) == n:
                for i in range(n):
                    conds.append((f"row {i}: integer preserved", binop("Eq", pl[i], vals[i])))
        elif var == "String":
            conds.append(("a string column is only chosen when every row is a string", B(set(rk) <= set("S") and len(pl) == n)))
            if set(rk) <= set("S") and len(pl) == n:
                for i in range(n):
                    conds.append((f"row {i}: string preserved", same_bytes(pl[i], vals[i])))
        elif var == "Null":
            conds.append(("Null(n) is only chosen when every row is NULL, with n == number of rows",
                          band(B(set(rk) <= set("N")), binop("Eq", pl, I("usize", n)))))
        elif var == "Mixed":
            conds.append(("one cell per row", B(len(pl) == n)))
            if len(pl) == n:
                for i, k in enumerate(rk):
                    gk, gv = pl[i]
                    if gk != k:
                        conds.append((f"row {i}: kind preserved ({k})", B(False)))
                    elif k in "IF":
                        conds.append((f"row {i}: value preserved", binop("Eq", cast_bits(gv), cast_bits(vals[i]))))
                    elif k == "S":
                        conds.append((f"row {i}: string preserved", same_bytes(gv, vals[i])))
        else:
            conds.append(("result is one of the api::Column representations", B(False)))
        return conds

    def panic_ok(self, inst, shape, inp, msg):
        return B(False)

    def random_inputs(self, rng, inst, shape):
        kind, rows, xor = shape
        if kind == "Null":
            return {"n": I("usize", rng.randint(0, 5))}
        vals = []
        for k in self.rows_of(shape):
            if k == "I":
                vals.append(I("i64", rnd_int(rng, "i64")))
            elif k == "F":
                vals.append(I("f64", rng.choice([0, 1 << 63, 0x3ff0000000000000, 0x7ff0000000000000, 0xc008000000000000, rng.getrandbits(62)])))
            elif k == "S":
                vals.append([I("u8", rng.randint(0x61, 0x7a))])
            else:
                vals.append(None)
        return {"vals": vals}

    def native(self, inst, shape, inp):
        if inp is None:
            return ("encode_column", [])
        kind, rows, xor = shape
        if kind == "Null":
            return ("encode_column", ["Null", inp["n"].v, 0])
        toks = []
        for k, v in zip(self.rows_of(shape), inp["vals"]):
            if k == "I":
                toks.append(f"i:{v.v}")
            elif k == "F":
                toks.append(f"f:{v.v}")
            elif k == "S":
                toks.append("s:" + bytes(x.v for x in v).hex())
            else:
                toks.append("n")
        return ("encode_column", [kind, ",".join(toks) or "-", 1 if xor else 0])

    def parse_native(self, inst, shape, toks):
        var = toks[0]
        if var == "Null":
            return ("Null", I("usize", int(toks[1])))
        items = [] if toks[1] == "-" else toks[1].split(",")
        if var in ("Float", "Xor"):
            return (var, [I("f64", int(x)) for x in items])
        if var == "Int":
            return ("Int", [I("i64", int(x)) for x in items])
        if var == "String":
            return ("String", [[I("u8", b) for b in bytes.fromhex(x[2:])] for x in items])
        out = []
        for x in items:
            if x.startswith("i:"):
                out.append(("I", I("i64", int(x[2:]))))
            elif x.startswith("f:"):
                out.append(("F", I("f64", int(x[2:]))))
            elif x.startswith("s:"):
                out.append(("S", [I("u8", b) for b in bytes.fromhex(x[2:])]))
            else:
                out.append(("N", None))
        return ("Mixed", out)

    def native_view(self, inst, shape, v, st):
        return self.view(v)


def cast_bits(x):
    """compare floats by bit pattern"""
    if isinstance(x, I) and x.ty == "f64":
        return I("u64", x.v)
    return x
