"""C15 : routing a column name to the sub-partition file that holds it"""
import z3

from .common import *
from ..mirsym import interp
from ..mirsym.values import Havoc, Opaque
from ..mirsym.models import btree_new, some


def rstr(b):
    """String value from python bytes"""
    return VecObj([I("u8", x) for x in b], "u8", is_str=True)


def str_ref(bs):
    cell = Cell(Agg("array", list(bs)))
    return Ref(cell, (), (0, len(bs)), is_str=True)


def cmp_bytes_ref(name, const):
    """I(bool) pair (name < const, name == const) for symbolic byte list `name` vs python bytes `const`"""
    lt = B(False)
    eq_prefix = B(True)
    for i in range(min(len(name), len(const))):
        c = I("u8", const[i])
        lt = bor(lt, band(eq_prefix, binop("Lt", name[i], c)))
        eq_prefix = band(eq_prefix, binop("Eq", name[i], c))
    if len(name) < len(const):
        lt = bor(lt, eq_prefix)
        eq = B(False)
    elif len(name) == len(const):
        eq = eq_prefix
    else:
        eq = B(False)
    return lt, eq


GROUPSETS_QUICK = [[b"b"], [b"b", b"d"], [b"ab", b"b", b"ba"], [b"col_b", b"col_d"]]
GROUPSETS_THOROUGH = GROUPSETS_QUICK + [[b"a", b"aa", b"ab", b"b"], [b"m"], [b"\x7f", b"\xc3\xa9"], [b"b", b"c", b"d", b"e"]]


class SubpartitionKeySpec(KernelSpec):
    """PartitionMetadata::subpartition_key(name): the key of the first sub-partition whose last column is >= name
    (sub-partitions hold contiguous runs of the sorted column names), None beyond the last one"""
    method = ("PartitionMetadata", None, "subpartition_key")
    diff_cases = 3

    def instantiations(self, tier):
        return [{"nat": "subpartition_key"}]

    def shapes(self, tier, inst):
        gs = GROUPSETS_QUICK if tier == "quick" else GROUPSETS_THOROUGH
        out = []
        for g in range(len(gs)):
            for nlen in ((1, 2) if tier == "quick" else (0, 1, 2, 3)):
                if max(len(x) for x in gs[g]) > 3 and nlen < 2:
                    continue
                out.append((g, nlen))
        return out

    def groups(self, tier_or_shape):
        return (GROUPSETS_THOROUGH)[tier_or_shape]

    def sym_inputs(self, inst, shape):
        g, nlen = shape
        lasts = GROUPSETS_THOROUGH[g]
        name = [sym("u8", f"n{i}") for i in range(nlen)]
        if max(len(x) for x in lasts) > 3:
            # long common prefix: only the tail of the name is symbolic
            pre = lasts[0][:4]
            name = [I("u8", x) for x in pre] + name
        return {"name": name}, []

    def build_pm(self, ctx, shape):
        g, nlen = shape
        lasts = GROUPSETS_THOROUGH[g]
        fs = ctx.src().struct_fields("PartitionMetadata")
        sfs = ctx.src().struct_fields("SubpartitionMetadata")
        if fs is None or sfs is None:
            raise interp.Unsupported("PartitionMetadata / SubpartitionMetadata definitions not found")
        subs = []
        bt = btree_new()
        for k, last in enumerate(lasts):
            vals = []
            for f in sfs:
                if f == "subpartition_key":
                    vals.append(rstr(b"key%d" % k))
                elif f == "last_column":
                    vals.append(rstr(last))
                elif f == "size_bytes":
                    vals.append(I("u64", 1))
                elif f == "loaded":
                    vals.append(Ref(Cell(Agg("struct", [I("bool", k % 2)], name="Atomic"))))
                else:
                    vals.append(Havoc("?", f))
            subs.append(Agg("struct", vals, name="SubpartitionMetadata"))
            bt.fields[0].elems.append(Agg("tuple", [rstr(last), I("usize", k)]))
        vals = []
        for f in fs:
            if f == "subpartitions":
                vals.append(VecObj(subs))
            elif f == "subpartitions_by_last_column":
                vals.append(bt)
            else:
                vals.append(Havoc("?", f))
        return Agg("struct", vals, name="PartitionMetadata")

    def explore(self, ctx, ex, fn, inst, shape, inp, pre):
        pm = self.build_pm(ctx, shape)
        st = ex.start(fn, [Ref(Cell(pm)), str_ref(inp["name"])], {}, pc=pre)
        return ex.explore(st)

    def post(self, inst, shape, inp, value, state=None):
        g, nlen = shape
        lasts = GROUPSETS_THOROUGH[g]
        name = inp["name"]
        conds = []
        prev_gt = B(True)      # name > last_{k-1}
        anyhit = B(False)
        got_none = B(isinstance(value, Agg) and value.variant == "None")
        got_key = None
        if isinstance(value, Agg) and value.variant == "Some":
            got_key = bytes(e.v for e in value.fields[0].elems)
        for k, last in enumerate(lasts):
            lt, eq = cmp_bytes_ref(name, last)
            le = bor(lt, eq)
            here = band(prev_gt, le)
            conds.append((f"a name in ({'-inf' if k == 0 else lasts[k-1]!r}, {last!r}] is routed to sub-partition {k}",
                          implies(here, B(got_key == b"key%d" % k))))
            anyhit = bor(anyhit, here)
            prev_gt = bnot(le)
        conds.append(("a name beyond the last stored column has no sub-partition (absent column)", implies(bnot(anyhit), got_none)))
        return conds

    def random_inputs(self, rng, inst, shape):
        g, nlen = shape
        inp, _ = self.sym_inputs(inst, shape)
        return {"name": [x if x.concrete else I("u8", rng.choice([0x61, 0x62, 0x63, 0x64, 0x65, 0x7a, 0x41, 0x5f, rng.randint(0x20, 0x7e)])) for x in inp["name"]]}

    def native(self, inst, shape, inp):
        if inp is None:
            return ("subpartition_key", [])
        g, nlen = shape
        lasts = GROUPSETS_THOROUGH[g]
        return ("subpartition_key", [",".join(x.hex() for x in lasts), bytes(x.v for x in inp["name"]).hex() or "-"])

    def parse_native(self, inst, shape, toks):
        if toks[0] == "none":
            return Agg("enum", [], name="Option", variant="None")
        return Agg("enum", [rstr(bytes.fromhex(toks[1]))], name="Option", variant="Some")
