"""C15 : routing a column name to the sub-partition file that holds it"""
import z3

from .common import *
from ..mirsym import interp
from ..mirsym.values import Havoc, Opaque
from ..mirsym.models import btree_new, some


def rstr(b):
    """String value from python bytes"""
    return VecObj([I("u8", x) for x in b], "u8", is_str=True)


def str_ref(bs):
    cell = Cell(Agg("array", list(bs)))
    return Ref(cell, (), (0, len(bs)), is_str=True)


def cmp_bytes_ref(name, const):
    """I(bool) pair (name < const, name == const) for symbolic byte list `name` vs python bytes `const`"""
    lt = B(False)
    eq_prefix = B(True)
    for i in range(min(len(name), len(const))):
        c = I("u8", const[i])
        lt = bor(lt, band(eq_prefix, binop("Lt", name[i], c)))
        eq_prefix = band(eq_prefix, binop("Eq", name[i], c))
    if len(name) < len(const):
        lt = bor(lt, eq_prefix)
        eq = B(False)
    elif len(name) == len(const):
        eq = eq_prefix
    else:
        eq = B(False)
    return lt, eq


GROUPSETS_QUICK = [[b"b"], [b"b", b"d"], [b"ab", b"b", b"ba"], [b"col_b", b"col_d"]]
GROUPSETS_THOROUGH = GROUPSETS_QUICK + [[b"a", b"aa", b"ab", b"b"], [b"m"], [b"\x7f", b"\xc3\xa9"], [b"b", b"c", b"d", b"e"]]


class SubpartitionKeySpec(KernelSpec):
    """PartitionMetadata::subpartition_key(name): the key of the first sub-partition whose last column is >= name
    (sub-partitions hold contiguous runs of the sorted column names), None beyond the last one"""
    method = ("PartitionMetadata", None, "subpartition_key")
    diff_cases = 3

    def instantiations(self, tier):
        return [{"nat": "subpartition_key"}]

    def shapes(self, tier, inst):
        gs = GROUPSETS_QUICK if tier == "quick" else GROUPSETS_THOROUGH
        out = []
        for g in range(len(gs)):
            for nlen in ((1, 2) if tier == "quick" else (0, 1, 2, 3)):
                if max(len(x) for x in gs[g]) > 3 and nlen < 2:
                    continue
                out.append((g, nlen))
        return out

    def groups(self, tier_or_shape):
        return (GROUPSETS_THOROUGH)[tier_or_shape]

    def sym_inputs(self, inst, shape):
        g, nlen = shape
        lasts = GROUPSETS_THOROUGH[g]
        name = [sym("u8", f"n{i}") for i in range(nlen)]
        if max(len(x) for x in lasts) > 3:
            # long common prefix: only the tail of the name is symbolic
            pre = lasts[0][:4]
            name = [I("u8", x) for x in pre] + name
        return {"name": name}, []

    def build_pm(self, ctx, shape):
        g, nlen = shape
        lasts = GROUPSETS_THOROUGH[g]
        fs = ctx.src().struct_fields("PartitionMetadata")
        sfs = ctx.src().struct_fields("SubpartitionMetadata")
        if fs is None or sfs is None:
            raise interp.Unsupported("PartitionMetadata / SubpartitionMetadata definitions not found")
        subs = []
        bt = btree_new()
        for k, last in enumerate(lasts):
            vals = []
            for f in sfs:
                if f == "subpartition_key":
                    vals.append(rstr(b"key%d" % k))
                elif f == "last_column":
                    vals.append(rstr(last))
                elif f == "size_bytes":
                    vals.append(I("u64", 1))
                elif f == "loaded":
                    vals.append(Ref(Cell(Agg("struct", [I("bool", k % 2)], name="Atomic"))))
                else:
                    vals.append(Havoc("?", f))
            subs.append(Agg("struct", vals, name="SubpartitionMetadata"))
            bt.fields[0].elems.append(Agg("tuple", [rstr(last), I("usize", k)]))
        vals = []
        for f in fs:
            if f == "subpartitions":
                vals.append(VecObj(subs))
            elif f == "subpartitions_by_last_column":
                vals.append(bt)
            else:
                vals.append(Havoc("?", f))
        return Agg("struct", vals, name="PartitionMetadata")

    def explore(self, ctx, ex, fn, inst, shape, inp, pre):
        pm = self.build_pm(ctx, shape)
        st = ex.start(fn, [Ref(Cell(pm)), str_ref(inp["name"])], {}, pc=pre)
        return ex.explore(st)

    def post(self, inst, shape, inp, value, state=None):
        g, nlen = shape
        lasts = GROUPSETS_THOROUGH[g]
        name = inp["name"]
        conds = []
        prev_gt = B(True)      # name > last_{k-1}
        anyhit = B(False)
        got_none = B(isinstance(value, Agg) and value.variant == "None")
        got_key = None
        if isinstance(value, Agg) and value.variant == "Some":
            got_key = bytes(e.v for e in value.fields[0].elems)
        for k, last in enumerate(lasts):
            lt, eq = cmp_bytes_ref(name, last)
            le = bor(lt, eq)
            here = band(prev_gt, le)
            conds.append((f"a name in ({'-inf' if k == 0 else lasts[k-1]!r}, {last!r}] is routed to sub-partition {k}",
                          implies(here, B(got_key == b"key%d" % k))))
            anyhit = bor(anyhit, here)
            prev_gt = bnot(le)
        conds.append(("a name beyond the last stored column has no sub-partition (absent column)", implies(bnot(anyhit), got_none)))
        return conds

    def random_inputs(self, rng, inst, shape):
        g, nlen = shape
        inp, _ = self.sym_inputs(inst, shape)
        return {"name": [x if x.concrete else I("u8", rng.choice([0x61, 0x62, 0x63, 0x64, 0x65, 0x7a, 0x41, 0x5f, rng.randint(0x20, 0x7e)])) for x in inp["name"]]}

    def native(self, inst, shape, inp):
        if inp is None:
            return ("subpartition_key", [])
        g, nlen = shape
        lasts = GROUPSETS_THOROUGH[g]
        return ("subpartition_key", [",".join(x.hex() for x in lasts), bytes(x.v for x in inp["name"]).hex() or "-"])

    def parse_native(self, inst, shape, toks):
        if toks[0] == "none":
            return Agg("enum", [], name="Option", variant="None")
        return Agg("enum", [rstr(bytes.fromhex(toks[1]))], name="Option", variant="Some")


class SubpartitionLoadedSpec(SubpartitionKeySpec):
    """PartitionMetadata::subpartition_has_been_loaded(name): the `loaded` flag of the file the name routes to, and `true`
    ("nothing left to load": the column is absent) for a name beyond the last stored column - Partition::get_cols relies on
    this to hand out an empty handle instead of scheduling a disk read that can never be satisfied.  With
    mark_subpartition_as_loaded(name) first (inst mark=True): the routed file reads as loaded afterwards, no other flag moves."""
    method = ("PartitionMetadata", None, "subpartition_has_been_loaded")

    def instantiations(self, tier):
        return [{"nat": "subpartition_loaded", "mark": False}, {"nat": "subpartition_loaded", "mark": True}]

    def explore(self, ctx, ex, fn, inst, shape, inp, pre):
        pm = self.build_pm(ctx, shape)
        cell = Cell(pm)
        if not inst["mark"]:
            st = ex.start(fn, [Ref(cell), str_ref(inp["name"])], {}, pc=pre)
            return ex.explore(st)
        from ..pyengine import run_sequence
        mk, _ = ex.resolve_method("PartitionMetadata", None, "mark_subpartition_as_loaded")
        calls = [(mk, lambda env: [Ref(env["pm"]), str_ref(inp["name"])], {}),
                 (fn, lambda env: [Ref(env["pm"]), str_ref(inp["name"])], {})]
        outs = run_sequence(ex, pre, {"pm": cell}, calls)
        return outs

    def flags(self, state, shape):
        pm = state.env["pm"].v
        fs = self._pm_fields
        sfs = self._sub_fields
        out = []
        for sub in pm.fields[fs.index("subpartitions")].elems:
            a = sub.fields[sfs.index("loaded")]
            while isinstance(a, Ref):
                a = interp.navigate(a.cell.v, a.path)
            out.append(a.fields[0])
        return out

    def get_fn(self, ctx, inst):
        self._pm_fields = ctx.src().struct_fields("PartitionMetadata")
        self._sub_fields = ctx.src().struct_fields("SubpartitionMetadata")
        return KernelSpec.get_fn(self, ctx, inst)

    def post(self, inst, shape, inp, value, state=None):
        g, nlen = shape
        lasts = GROUPSETS_THOROUGH[g]
        name = inp["name"]
        if isinstance(value, tuple):
            value, flags = value
        else:
            flags = self.flags(state, shape) if (inst["mark"] and state is not None) else None
        conds = []
        prev_gt = B(True)
        anyhit = B(False)
        for k, last in enumerate(lasts):
            lt, eq = cmp_bytes_ref(name, last)
            le = bor(lt, eq)
            here = band(prev_gt, le)
            want = B(True) if inst["mark"] else B(k % 2 == 1)
            conds.append((f"a name in ({'-inf' if k == 0 else lasts[k-1]!r}, {last!r}] reports the loaded flag of sub-partition {k}" + (" (set by mark_subpartition_as_loaded)" if inst["mark"] else ""),
                          implies(here, binop("Eq", value, want))))
            if flags is not None:
                for j in range(len(lasts)):
                    wantj = B(True) if j == k else B(j % 2 == 1)
                    conds.append((f"marking a name routed to sub-partition {k} leaves flag {j} " + ("set" if j == k else "untouched"), implies(here, binop("Eq", flags[j], wantj))))
            anyhit = bor(anyhit, here)
            prev_gt = bnot(le)
        conds.append(("a name beyond the last stored column reads as already loaded (absent column: nothing to read from disk)", implies(bnot(anyhit), binop("Eq", value, B(True)))))
        if flags is not None:
            for j in range(len(lasts)):
                conds.append((f"marking a name beyond the last stored column leaves flag {j} untouched", implies(bnot(anyhit), binop("Eq", flags[j], B(j % 2 == 1)))))
        return conds

    def native(self, inst, shape, inp):
        if inp is None:
            return ("subpartition_loaded", [])
        g, nlen = shape
        lasts = GROUPSETS_THOROUGH[g]
        return ("subpartition_loaded", [",".join(x.hex() for x in lasts), bytes(x.v for x in inp["name"]).hex() or "-", 1 if inst["mark"] else 0])

    def parse_native(self, inst, shape, toks):
        v = I("bool", toks[0] == "true")
        if inst["mark"]:
            return (v, [I("bool", c == "1") for c in toks[1]])
        return v

    def native_view(self, inst, shape, v, st):
        if inst["mark"]:
            return (v, self.flags(st, shape))
        return v


# ----------------------------------------------------------------------------------------------------
# writer side: scheduler::inner_locustdb::subpartition
# ----------------------------------------------------------------------------------------------------
import re as _re
from ..mirsym.values import UNIT
from ..mirsym.models import seq_of

NAMESETS = [[b"b", b"a", b"c"], [b"col_b", b"col_a"], [b"a"], [b"b", b"A", b"c"], [b"z", b"m", b"a", b"q"]]


class SubpartitionWriterSpec(KernelSpec):
    """inner_locustdb::subpartition(opts, columns): the columns, sorted by name, are split into contiguous runs; the metadata
    of run g names the run's last (greatest) column, its key is that name when it is file-system safe (a digest otherwise,
    'all' for a single run); so the reader's rule 'first run whose last column >= name' finds every stored column, and the
    sizes respect max_partition_size_bytes"""
    fn_path = "scheduler::inner_locustdb::subpartition"
    diff_cases = 2

    def instantiations(self, tier):
        return [{"nat": "subpartition_writer"}]

    def shapes(self, tier, inst):
        return [0, 1, 2] if tier == "quick" else [0, 1, 2, 3, 4]

    def sym_inputs(self, inst, shape):
        names = NAMESETS[shape]
        inp = {"sizes": [sym("u64", f"sz{i}") for i in range(len(names))], "max": sym("u64", "max")}
        # sizes are multiples of 8 below 2^20 (what the native replay can realise with real i64 columns)
        pre = [z3.ULT(s.v, 1 << 20) for s in inp["sizes"]] + [(s.v & 7) == 0 for s in inp["sizes"]] + [z3.ULT(inp["max"].v, 1 << 41)]
        return inp, pre

    def explore(self, ctx, ex, fn, inst, shape, inp, pre):
        names = NAMESETS[shape]
        cfs = ctx.src().struct_fields("Column", having="codec")
        ofs = ctx.src().struct_fields("Options", having="max_partition_size_bytes")
        if cfs is None or ofs is None or "name" not in cfs or "max_partition_size_bytes" not in ofs:
            raise interp.Unsupported("Column.name / Options.max_partition_size_bytes not found in the current source")
        cols = []
        for i, nm in enumerate(names):
            vals = [rstr(nm) if f == "name" else Havoc("?", f) for f in cfs]
            cols.append(Ref(Cell(Agg("struct", vals, name="Column"))))
        opts = Agg("struct", [inp["max"] if f == "max_partition_size_bytes" else Havoc("?", f) for f in ofs], name="Options")

        def heap_size(ex_, st, fr, path, args, m):
            col = args[0]
            v = interp.navigate(col.cell.v, col.path)
            while isinstance(v, Ref):
                v = interp.navigate(v.cell.v, v.path)
            nm = bytes(e.v for e in v.fields[cfs.index("name")].elems)
            return I("usize", inp["sizes"][names.index(nm)].v)
        from .envelope import sha_stubs
        ex.stubs = [(_re.compile(r"(?:^|::)Column::heap_size_of_children$"), heap_size)] + sha_stubs([I("u8", 0)] * 32, [])
        st = ex.start(fn, [Ref(Cell(opts)), VecObj(cols)], {}, pc=pre)
        return ex.explore(st)

    def view(self, ctx_fields, value):
        meta, groups = value.fields
        sfs = self._sfs
        cfs = self._cfs
        ms = []
        for mm in elems_of(meta):
            key = mm.fields[sfs.index("subpartition_key")]
            last = mm.fields[sfs.index("last_column")]
            ms.append({"key": bytes(e.v for e in key.elems) if all(isinstance(e, I) and e.concrete for e in key.elems) else None,
                       "last": bytes(e.v for e in last.elems), "size": mm.fields[sfs.index("size_bytes")]})
        gs = []
        for g in elems_of(groups):
            names = []
            for c in elems_of(g):
                v = interp.navigate(c.cell.v, c.path)
                names.append(bytes(e.v for e in v.fields[cfs.index("name")].elems))
            gs.append(names)
        return {"meta": ms, "groups": gs}

    def post(self, inst, shape, inp, value, state=None):
        if isinstance(value, dict):
            v = value
        else:
            v = self.view(None, value)
        names = NAMESETS[shape]
        srt = sorted(names)
        conds = []
        flat = [n for g in v["groups"] for n in g]
        conds.append(("the runs, concatenated, are exactly the columns sorted by name (contiguous runs, nothing lost)", B(flat == srt)))
        conds.append(("one metadata entry per run", B(len(v["meta"]) == len(v["groups"]))))
        if flat != srt or len(v["meta"]) != len(v["groups"]):
            return conds
        conds.append(("no empty run", B(all(len(g) > 0 for g in v["groups"]))))
        for gi, (mm, g) in enumerate(zip(v["meta"], v["groups"])):
            if not g:
                continue
            conds.append((f"run {gi}: last_column is the greatest column name of the run", B(mm["last"] == g[-1])))
            if len(v["groups"]) == 1:
                conds.append(("a single run is stored under the key 'all'", B(mm["key"] == b"all")))
            else:
                safe = len(g[-1]) <= 64 and all((0x61 <= ch <= 0x7a) or ch == 0x5f for ch in g[-1])
                if safe:
                    conds.append((f"run {gi}: a file-system safe last column name is used verbatim as key", B(mm["key"] == g[-1])))
                else:
                    conds.append((f"run {gi}: an unsafe last column name is not used as a file name", B(mm["key"] != g[-1])))
            tot = I("u64", 0)
            for n in g:
                tot = binop("Add", tot, inp["sizes"][names.index(n)])
            conds.append((f"run {gi}: recorded size is the sum of its columns' sizes", binop("Eq", mm["size"], tot)))
            if len(g) > 1:
                conds.append((f"run {gi}: a run of several columns respects max_partition_size_bytes", binop("Le", tot, inp["max"])))
        return conds

    def get_fn(self, ctx, inst):
        self._sfs = ctx.src().struct_fields("SubpartitionMetadata")
        self._cfs = ctx.src().struct_fields("Column", having="codec")
        return KernelSpec.get_fn(self, ctx, inst)

    def random_inputs(self, rng, inst, shape):
        names = NAMESETS[shape]
        return {"sizes": [I("u64", rng.choice([0, 8, 80, 800])) for _ in names], "max": I("u64", rng.choice([1, 8, 16, 88, 160, 10**6]))}

    def native(self, inst, shape, inp):
        if inp is None:
            return ("subpartition_writer", [])
        names = NAMESETS[shape]
        return ("subpartition_writer", [",".join(n.hex() for n in names), fmt_ints(inp["sizes"]), inp["max"].v])

    def parse_native(self, inst, shape, toks):
        # meta: key:last:size;...   groups: name,name|name
        ms, gs = [], []
        if toks[0] != "-":
            for ent in toks[0].split(";"):
                k, l, sz = ent.split(":")
                ms.append({"key": bytes.fromhex(k) if k != "-" else b"", "last": bytes.fromhex(l) if l != "-" else b"", "size": I("u64", int(sz))})
        if toks[1] != "-":
            for g in toks[1].split("|"):
                gs.append([bytes.fromhex(h) for h in g.split(",") if h])
        return self._norm_digest({"meta": ms, "groups": gs})

    @staticmethod
    def _norm_digest(d):
        """the digest text of an unsafe last-column name is rendered by format! (not modelled): compare only that a digest
        - something different from the name itself - is used"""
        for mm in d["meta"]:
            last = mm["last"]
            safe = len(last) <= 64 and all((0x61 <= ch <= 0x7a) or ch == 0x5f for ch in last)
            if not safe and len(d["meta"]) > 1 and mm["key"] != last:
                mm["key"] = b"#digest"
        return d

    def native_view(self, inst, shape, v, st):
        d = self.view(None, v)
        return self._norm_digest(d)


# ----------------------------------------------------------------------------------------------------
# C15.b : storage::sanitize_table_name - distinct table names never share a directory
# ----------------------------------------------------------------------------------------------------
class SanitizeTableNameSpec(KernelSpec):
    """sanitize_table_name(t): t itself when it only consists of [a-z0-9_.-] and does not start with '-' or '.'; otherwise a
    name that carries the SHA-256 of the *original* name (so that two names with the same sanitised form - case pairs,
    stripped characters - still get different directories; SHA-256 is an uninterpreted, collision-free function here and
    the rendered text of format! is not modelled: what is decided is which bytes are hashed and when)."""
    fn_path = "disk_store::storage::sanitize_table_name"
    diff_cases = 4

    def instantiations(self, tier):
        return [{"nat": "sanitize_table_name"}]

    def shapes(self, tier, inst):
        return [0, 1, 2] if tier == "quick" else [0, 1, 2, 3]

    def sym_inputs(self, inst, shape):
        s = [sym("u8", f"b{i}") for i in range(shape)]
        return {"s": s}, [z3.ULT(b.v, 128) for b in s]

    def explore(self, ctx, ex, fn, inst, shape, inp, pre):
        from .envelope import sha_stubs
        self._rec = []
        self._last_inp = inp
        ex.stubs = sha_stubs([sym("u8", f"h{i}") for i in range(32)], self._rec)
        st = ex.start(fn, [str_ref(inp["s"])], {}, pc=pre, env={})
        return ex.explore(st)

    def clean(self, s):
        ok = B(True)
        for b in s:
            lower = band(binop("Ge", b, I("u8", 0x61)), binop("Le", b, I("u8", 0x7a)))
            digit = band(binop("Ge", b, I("u8", 0x30)), binop("Le", b, I("u8", 0x39)))
            ok = band(ok, bor(lower, digit, binop("Eq", b, I("u8", 0x5f)), binop("Eq", b, I("u8", 0x2d)), binop("Eq", b, I("u8", 0x2e))))
        if s:
            ok = band(ok, bnot(bor(binop("Eq", s[0], I("u8", 0x2d)), binop("Eq", s[0], I("u8", 0x2e)))))
        return ok

    def post(self, inst, shape, inp, value, state=None):
        s = inp["s"]
        if isinstance(value, dict):
            v = value
        else:
            hashed = (state.env.get("hashed") or []) if state is not None else []
            if hashed:
                h = hashed[-1]
                same = band(B(len(h) == len(s)), *[binop("Eq", a, b) for a, b in zip(h, s)]) if len(h) == len(s) else B(False)
                v = {"modified": True, "hash_of_original": same, "result": None}
            else:
                v = {"modified": False, "hash_of_original": B(True), "result": list(value.elems)}
        clean = self.clean(s)
        conds = [("a name is used verbatim exactly when it consists of [a-z0-9_.-] and does not start with '-' or '.'", binop("Eq", B(not v["modified"]), clean))]
        if v["modified"]:
            conds.append(("a modified name carries the SHA-256 of the ORIGINAL table name (names with the same sanitised form stay apart)", v["hash_of_original"]))
        elif v["result"] is not None:
            r = v["result"]
            conds.append(("an unmodified name is returned byte for byte", band(B(len(r) == len(s)), *[binop("Eq", a, b) for a, b in zip(r, s)])))
        return conds

    def random_inputs(self, rng, inst, shape):
        pool = b"abz09_-.AZ /:~@"
        return {"s": [I("u8", rng.choice(pool)) for _ in range(shape)]}

    def native(self, inst, shape, inp):
        if inp is None:
            return ("sanitize_table_name", [])
        return ("sanitize_table_name", [bytes(b.v for b in inp["s"]).hex() or "-"])

    def parse_native(self, inst, shape, toks):
        return {"modified": toks[0] == "modified", "hash_of_original": B(toks[1] == "true"), "result": None if toks[0] == "modified" else [I("u8", b) for b in (bytes.fromhex(toks[2]) if toks[2] != "-" else b"")]}

    def native_view(self, inst, shape, v, st):
        hashed = st.env.get("hashed") or []
        if hashed:
            h, s = hashed[-1], self._last_inp["s"]
            same = len(h) == len(s) and all(a.concrete and b.concrete and a.v == b.v for a, b in zip(h, s))
            return {"modified": True, "hash_of_original": B(same), "result": None}
        return {"modified": False, "hash_of_original": B(True), "result": list(v.elems)}
