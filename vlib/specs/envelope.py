"""C14.a : VersionedChecksummedBlobWriter — version/length/SHA-256 envelope around every stored file"""
import hashlib
import re

import z3

from .common import *
from ..mirsym import interp
from ..mirsym.values import Havoc, Opaque

HDR = 48
SHA = r"CoreWrapper<CtVariableCoreWrapper<Sha256VarCore"


def sha_stubs(hsyms, record):
    """Sha256 as an uninterpreted function of the bytes fed to it: `finalize` returns the 32 symbols hsyms and records the
    hashed bytes (the obligation then relates file bytes to H(payload) without computing SHA-256)."""
    def new(ex, st, fr, path, args, m):
        return Agg("struct", [VecObj([])], name="Sha256State")

    def update(ex, st, fr, path, args, m):
        h = args[0]
        hv = h if isinstance(h, Agg) else interp.navigate(h.cell.v, h.path)
        from ..mirsym.models import seq_of
        el, lo, hi = seq_of(args[1])
        hv.fields[0].elems.extend(el[lo:hi])
        return UNIT_()

    def finalize(ex, st, fr, path, args, m):
        h = args[0]
        record.append(list(h.fields[0].elems))
        st.env.setdefault("hashed", []).append(list(h.fields[0].elems))
        return Agg("array", list(hsyms))
    return [(re.compile(SHA + r".* as Digest>::new$"), new), (re.compile(SHA + r".* as Digest>::update::<"), update),
            (re.compile(SHA + r".* as Digest>::finalize$"), finalize)]


def UNIT_():
    from ..mirsym.values import UNIT
    return UNIT


class EnvelopeLoadSpec(KernelSpec):
    """load(): a file is accepted iff it is >= 48 bytes, version 0, length field == len-48 and bytes[16..48] == SHA256(payload);
    the payload is returned unchanged.  Consequently every truncation, appended suffix, or change of the version/length
    fields is rejected, and a change of checksum or payload is rejected unless it is a SHA-256 collision."""
    method = ("VersionedChecksummedBlobWriter", "BlobWriter", "load")
    diff_cases = 2

    def instantiations(self, tier):
        return [{"nat": "vcbw_load"}]

    def shapes(self, tier, inst):
        if tier == "quick":
            return [0, 1, 47, 48, 49, 50]
        return list(range(0, 57))

    def sym_inputs(self, inst, shape):
        L = shape
        return {"bytes": [sym("u8", f"b{i}") for i in range(L)], "h": [sym("u8", f"h{i}") for i in range(32)]}, []

    def explore(self, ctx, ex, fn, inst, shape, inp, pre):
        rec = []

        def inner_load(ex_, st, fr, path, args, m):
            return Agg("enum", [VecObj(list(inp["bytes"]), "u8")], name="Result", variant="Ok")
        ex.stubs = sha_stubs(inp["h"], rec) + [(re.compile(r"<dyn BlobWriter as BlobWriter>::load$"), inner_load)]
        me = Agg("struct", [Havoc("Box<dyn BlobWriter>", "writer")], name="VersionedChecksummedBlobWriter")
        st = ex.start(fn, [Ref(Cell(me)), Havoc("&Path", "path")], {}, pc=pre)
        return ex.explore(st)

    def valid(self, inp):
        b = inp["bytes"]
        L = len(b)
        if L < HDR:
            return B(False)
        conds = [binop("Eq", x, I("u8", 0)) for x in b[0:8]]
        n = L - HDR
        for i in range(8):
            conds.append(binop("Eq", b[8 + i], I("u8", (n >> (8 * (7 - i))) & 0xFF)))
        for i in range(32):
            conds.append(binop("Eq", b[16 + i], inp["h"][i]))
        return band(*conds)

    def post(self, inst, shape, inp, value, state=None):
        valid = self.valid(inp)
        if value.variant == "Err":
            return [("a well-formed file (version 0, exact length, matching SHA-256) is accepted", bnot(valid))]
        payload = elems_of(value.fields[0])
        b = inp["bytes"]
        conds = [("Ok only for version 0, length field == len - 48 and checksum == SHA256(payload)", valid)]
        conds.append(("payload length", B(len(payload) == max(len(b) - HDR, 0))))
        if len(payload) == len(b) - HDR:
            for i, x in enumerate(payload):
                conds.append((f"payload byte {i} returned unchanged", binop("Eq", x, b[HDR + i])))
        if state is not None:
            hashed = state.env.get("hashed", [])
            ok = len(hashed) == 1 and len(hashed[0]) == len(b) - HDR and all(x is y for x, y in zip(hashed[0], b[HDR:]))
            conds.append(("the checksum is computed over exactly the payload bytes", B(ok)))
        return conds

    def _realize(self, inp):
        """make a concrete model consistent with the real SHA-256: h := sha256(payload); checksum bytes keep their
        (in)equality with h as in the model"""
        b = inp["bytes"]
        if len(b) >= HDR:
            real = hashlib.sha256(bytes(x.v for x in b[HDR:])).digest()
            for i in range(32):
                same = b[16 + i].v == inp["h"][i].v
                if same:
                    b[16 + i] = I("u8", real[i])
                elif b[16 + i].v == real[i]:
                    b[16 + i] = I("u8", real[i] ^ 0x5A)
            inp["h"] = [I("u8", x) for x in real]
        return inp

    def random_inputs(self, rng, inst, shape):
        L = shape
        b = [I("u8", rng.randint(0, 255)) for _ in range(L)]
        h = [I("u8", 0)] * 32
        if L >= HDR and rng.random() < 0.8:
            n = L - HDR
            real = hashlib.sha256(bytes(x.v for x in b[HDR:])).digest()
            hdr = [0] * 8 + [(n >> (8 * (7 - i))) & 0xFF for i in range(8)] + list(real)
            for i in range(HDR):
                b[i] = I("u8", hdr[i])
            if rng.random() < 0.3:
                k = rng.randrange(L)
                b[k] = I("u8", b[k].v ^ (1 << rng.randrange(8)))
            h = [I("u8", x) for x in real]
        return self._realize({"bytes": b, "h": h})

    def native(self, inst, shape, inp):
        if inp is None:
            return ("vcbw_load", [])
        self._realize(inp)
        return ("vcbw_load", [bytes(x.v for x in inp["bytes"]).hex() or "-"])

    def parse_native(self, inst, shape, toks):
        if toks[0] == "err":
            return Agg("enum", [Opaque("error")], name="Result", variant="Err")
        data = bytes.fromhex(toks[1]) if toks[1] != "-" else b""
        return Agg("enum", [VecObj([I("u8", x) for x in data])], name="Result", variant="Ok")

    def native_view(self, inst, shape, v, st):
        if v.variant == "Err":
            return Agg("enum", [Opaque("error")], name="Result", variant="Err")
        return v


class EnvelopeStoreSpec(KernelSpec):
    """store(): writes [0u64 BE][len BE][SHA256(data)][data] to the inner writer"""
    method = ("VersionedChecksummedBlobWriter", "BlobWriter", "store")
    diff_cases = 2

    def instantiations(self, tier):
        return [{"nat": "vcbw_store"}]

    def shapes(self, tier, inst):
        return [0, 1, 3] if tier == "quick" else list(range(0, 9))

    def sym_inputs(self, inst, shape):
        return {"data": [sym("u8", f"d{i}") for i in range(shape)], "h": [sym("u8", f"h{i}") for i in range(32)]}, []

    def explore(self, ctx, ex, fn, inst, shape, inp, pre):
        rec = []

        def inner_store(ex_, st, fr, path, args, m):
            from ..mirsym.models import seq_of
            el, lo, hi = seq_of(args[2])
            st.env["written"] = list(el[lo:hi])
            return Agg("enum", [UNIT_()], name="Result", variant="Ok")
        ex.stubs = sha_stubs(inp["h"], rec) + [(re.compile(r"<dyn BlobWriter as BlobWriter>::store$"), inner_store)]
        me = Agg("struct", [Havoc("Box<dyn BlobWriter>", "writer")], name="VersionedChecksummedBlobWriter")
        st = ex.start(fn, [Ref(Cell(me)), Havoc("&Path", "path"), slice_arg(inp["data"])], {}, pc=pre)
        return ex.explore(st)

    def post(self, inst, shape, inp, value, state=None):
        d = inp["data"]
        n = len(d)
        written = state.env.get("written") if state is not None else value
        if written is None:
            return [("store hands the wrapped bytes to the inner writer", B(False))]
        want = [I("u8", 0)] * 8 + [I("u8", (n >> (8 * (7 - i))) & 0xFF) for i in range(8)] + list(inp["h"]) + list(d)
        conds = [("file length == 48 + payload length", B(len(written) == len(want)))]
        if len(written) == len(want):
            for i, (x, y) in enumerate(zip(written, want)):
                conds.append((f"file byte {i} (version | length | SHA-256 | payload)", binop("Eq", x, y)))
        if state is not None:
            hashed = state.env.get("hashed", [])
            conds.append(("checksum computed over exactly the payload", B(len(hashed) == 1 and len(hashed[0]) == n and all(x is y for x, y in zip(hashed[0], d)))))
        return conds

    def random_inputs(self, rng, inst, shape):
        d = [I("u8", rng.randint(0, 255)) for _ in range(shape)]
        return {"data": d, "h": [I("u8", x) for x in hashlib.sha256(bytes(x.v for x in d)).digest()]}

    def native(self, inst, shape, inp):
        if inp is None:
            return ("vcbw_store", [])
        inp["h"] = [I("u8", x) for x in hashlib.sha256(bytes(x.v for x in inp["data"])).digest()]
        return ("vcbw_store", [bytes(x.v for x in inp["data"]).hex() or "-"])

    def parse_native(self, inst, shape, toks):
        data = bytes.fromhex(toks[0]) if toks[0] != "-" else b""
        return [I("u8", x) for x in data]

    def native_view(self, inst, shape, v, st):
        return list(st.env.get("written") or [])
