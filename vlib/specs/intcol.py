"""C01.c : integer column builder  IntColBuffer::push* -> finalize -> IntegerColumn::new_boxed -> create_col/encode.
Column::new is stubbed as a recorder of (len, range, codec ops, data sections); the recorded codec program is then
interpreted with the *reference semantics of the codec ops* (the same semantics column::decode is checked against in
C01.d/C07.b) and must reproduce the pushed values and NULL rows."""
import re

import z3

from .common import *
from ..pyengine import run_sequence
from ..mirsym import interp
from ..mirsym.values import Havoc, Opaque, cast_int, UNIT, UNINIT
from .merge import MergeKeepNullableSpec

bit = MergeKeepNullableSpec.bit
W = {"U8": "u8", "U16": "u16", "U32": "u32", "U64": "u64", "I64": "i64"}


def ref_decode(ops, sections):
    """reference semantics of a codec program over data sections -> (values list of I(i64)|raw, present list|None)"""
    stack = [("data", list(sections[0][1]), None)]
    for o in ops:
        v = o.variant
        if v == "PushDataSection":
            k = o.fields[0].v
            stack.append(("data", list(sections[k][1]), None))
            continue
        top = stack[0] if v not in ("Nullable",) else None
        if v == "Nullable":
            pres = stack.pop()
            data = stack.pop()
            res = ("data", data[1], list(pres[1]))
        elif v == "Add":
            off = o.fields[1]
            res = ("data", [binop("Add", cast_int(x, "i64"), off) for x in top[1]], top[2])
        elif v == "ToI64":
            res = ("data", [cast_int(x, "i64") for x in top[1]], top[2])
        elif v == "Delta":
            acc = I("i64", 0)
            out = []
            for x in top[1]:
                acc = binop("Add", acc, cast_int(x, "i64"))
                out.append(acc)
            res = ("data", out, top[2])
        else:
            raise interp.Unsupported("reference decode: codec op " + v)
        if stack:
            stack.pop()
        stack.append(res)
    return stack[-1][1], stack[-1][2]


class IntColEncodeSpec(KernelSpec):
    """shape = (n, nullable)"""
    diff_cases = 3

    def get_fn(self, ctx, inst):
        return None

    def instantiations(self, tier):
        return [{"nat": "intcol_encode"}]

    def shapes(self, tier, inst):
        if tier == "quick":
            return [(1, False), (2, False), (2, True)]
        return [(n, nl) for n in (0, 1, 2, 3) for nl in (False, True)]

    def sym_inputs(self, inst, shape):
        n, nullable = shape
        inp = {"vals": [sym("i64", f"v{i}") for i in range(n)]}
        pre = []
        # value domain of property C01: i64::MAX is the engine's NULL marker
        for v in inp["vals"]:
            pre.append(v.v != z3.BitVecVal(2**63 - 1, 64))
        if nullable:
            inp["present"] = [sym("u8", f"p{i}") for i in range((n + 7) // 8)]
        return inp, pre

    def explore(self, ctx, ex, fn, inst, shape, inp, pre):
        n, nullable = shape

        def column_new(ex_, st, fr, path, args, m):
            st.env["column"] = {"len": args[1], "range": args[2], "codec": list(args[3].elems), "data": list(args[4].elems)}
            return Opaque("Column")

        def noop(ex_, st, fr, path, args, m):
            return UNIT
        ex.stubs = [(re.compile(r"(?:^|::)Column::new$"), column_new), (re.compile(r"(?:^|::)Column::lz4_or_pco_encode$"), noop)]
        dflt, _ = ex.resolve_method("IntColBuffer", "Default", "default")
        push, _ = ex.resolve_method("IntColBuffer", None, "push")
        fin, _ = ex.resolve_method("IntColBuffer", None, "finalize")
        calls = [(dflt, lambda env: [], {}, "buf")]
        for i in range(n):
            calls.append((push, lambda env, i=i: [Ref(env["buf"], (), None, False, True), inp["vals"][i]], {}))

        def fin_args(env):
            pres = Agg("enum", [VecObj(list(inp["present"]), "u8")], name="Option", variant="Some") if nullable else Agg("enum", [], name="Option", variant="None")
            from .routing import str_ref
            return [env["buf"].v, str_ref([I("u8", 120)]), pres]
        calls.append((fin, fin_args, {}))
        return run_sequence(ex, pre, {}, calls)

    def view(self, state):
        col = state.env.get("column")
        if col is None:
            return None
        secs = []
        for d in col["data"]:
            kind = d.variant
            payload = d.fields[0]
            secs.append((kind, list(payload.elems) if isinstance(payload, VecObj) else payload))
        return {"codec": col["codec"], "sections": secs, "len": col["len"]}

    def post(self, inst, shape, inp, value, state=None):
        n, nullable = shape
        v = self.view(state) if state is not None else value
        if v is None:
            return [("the builder constructs a Column", B(False))]
        conds = [("Column.len == number of values", binop("Eq", v["len"], I("usize", n)))]
        try:
            vals, pres = ref_decode(v["codec"], v["sections"])
        except interp.Unsupported as e:
            return conds + [("codec program uses only integer ops: " + str(e), B(False))]
        conds.append(("decoded length", B(len(vals) == n)))
        if len(vals) != n:
            return conds
        if nullable:
            conds.append(("null map is stored", B(pres is not None)))
        for i in range(n):
            p = bit(inp["present"], i) if nullable else B(True)
            if nullable and pres is not None:
                conds.append((f"row {i}: stored NULL bit", binop("Eq", bit(pres, i), p)))
            conds.append((f"row {i}: the codec program decodes the stored data back to the pushed value", implies(p, binop("Eq", vals[i], inp["vals"][i]))))
        # every stored element fits the section's width (encode never truncates)
        kind0 = v["sections"][0][0]
        conds.append(("data section type matches the first codec op", B(kind0 in W)))
        return conds

    def random_inputs(self, rng, inst, shape):
        n, nullable = shape
        mode = rng.random()
        if mode < 0.3:
            base = rng.choice([0, -5, 1000, 2**33, -2**40])
            vals = [base + rng.randint(0, 200) for _ in range(n)]
        elif mode < 0.5:
            vals = sorted(rng.randint(-1000, 1000) for _ in range(n))
        else:
            vals = [rnd_int(rng, "i64") for _ in range(n)]
        vals = [v if v != 2**63 - 1 else 5 for v in vals]
        inp = {"vals": [I("i64", v) for v in vals]}
        if nullable:
            inp["present"] = [I("u8", rng.randint(0, 255)) for _ in range((n + 7) // 8)]
        return inp

    def native(self, inst, shape, inp):
        if inp is None:
            return ("intcol_encode", [])
        n, nullable = shape
        return ("intcol_encode", [fmt_ints(inp["vals"]), fmt_ints(inp["present"]) if nullable else "none"])

    def parse_native(self, inst, shape, toks):
        # <len> <ops...;> <section0 kind> <section0 data> <present|none>
        ops = []
        for t in toks[1].split(";"):
            if not t:
                continue
            parts = t.split(":")
            if parts[0] in ("Add",):
                ops.append(Agg("enum", [Agg("enum", [], name="EncodingType", variant=parts[1]), I("i64", int(parts[2]))], name="CodecOp", variant="Add"))
            elif parts[0] in ("Delta", "ToI64"):
                ops.append(Agg("enum", [Agg("enum", [], name="EncodingType", variant=parts[1])], name="CodecOp", variant=parts[0]))
            elif parts[0] == "PushDataSection":
                ops.append(Agg("enum", [I("usize", int(parts[1]))], name="CodecOp", variant="PushDataSection"))
            else:
                ops.append(Agg("enum", [], name="CodecOp", variant=parts[0]))
        secs = [(toks[2], parse_ints(toks[3], W.get(toks[2], "i64")))]
        if toks[4] != "none":
            secs.append(("Bitvec", parse_ints(toks[4], "u8")))
        return {"codec": ops, "sections": secs, "len": I("usize", int(toks[0]))}

    def native_view(self, inst, shape, v, st):
        return self.view(st)


def _vals_eq(a, b):
    from ..pyengine import values_equal
    return values_equal(a, b)
