"""C07.c : Table::plan_compaction - which partitions a compaction merges.  The partitions chosen must be a suffix of the table in
row-offset order (so that the merged partition covers one contiguous row range and keeps row order), the range returned must
be exactly the rows of the chosen partitions, and the choice follows the documented size rule."""
import z3

from .common import *
from ..mirsym import interp
from ..mirsym.values import Havoc, Opaque
from ..mirsym.models import hashmap_new


class PlanCompactionSpec(KernelSpec):
    method = ("Table", None, "plan_compaction")
    diff_cases = 3

    def instantiations(self, tier):
        return [{"nat": "plan_compaction"}]

    def shapes(self, tier, inst):
        return [0, 1, 2, 3] if tier == "quick" else [0, 1, 2, 3, 4]

    def sym_inputs(self, inst, shape):
        n = shape
        inp = {"factor": sym("u64", "factor"), "ids": [sym("u64", f"id{i}") for i in range(n)], "sizes": [sym("usize", f"sz{i}") for i in range(n)],
               "lens": [sym("usize", f"len{i}") for i in range(n)], "order": None}
        pre = [z3.ULE(inp["factor"].v, 1 << 10)]
        pre += [z3.ULT(s.v, 1 << 40) for s in inp["sizes"]] + [z3.And(z3.UGE(l.v, 1), z3.ULT(l.v, 1 << 32)) for l in inp["lens"]]
        for i in range(n):
            for j in range(i):
                pre.append(inp["ids"][i].v != inp["ids"][j].v)
        return inp, pre

    def offsets(self, inp):
        """partitions tile the table: partition k (in the given order) starts where k-1 ends"""
        offs = []
        cur = I("usize", 0)
        for l in inp["lens"]:
            offs.append(cur)
            cur = binop("Add", cur, l)
        return offs, cur

    def explore(self, ctx, ex, fn, inst, shape, inp, pre):
        src = ctx.src()
        tfs = src.struct_fields("Table", having="next_partition_offset")
        pfs = src.struct_fields("Partition", having="total_size_bytes")
        if tfs is None or pfs is None:
            raise interp.Unsupported("Table / Partition definitions not found")
        offs, _ = self.offsets(inp)
        n = shape
        parts = []
        # the map is filled in a scrambled order: plan_compaction must sort by row offset itself
        order = list(range(n))
        order = order[1::2] + order[0::2]
        for k in order:
            named = {"id": inp["ids"][k], "range": Agg("struct", [offs[k], binop("Add", offs[k], inp["lens"][k])], name="Range"), "total_size_bytes": inp["sizes"][k]}
            p = Agg("struct", [named.get(f, Havoc("?", f)) for f in pfs], name="Partition")
            parts.append((inp["ids"][k], Ref(Cell(p))))
        named = {"partitions": Agg("struct", [hashmap_new(parts)], name="Lock")}
        table = Agg("struct", [named.get(f, Havoc("?", f)) for f in tfs], name="Table")
        st = ex.start(fn, [Ref(Cell(table)), inp["factor"]], {}, pc=pre)
        return ex.explore(st)

    def view(self, value):
        if isinstance(value, tuple) or value is None:
            return value
        if value.variant == "None":
            return ("None",)
        rng, ids = value.fields[0].fields
        return ("Some", rng.fields[0], rng.fields[1], list(ids.elems))

    def post(self, inst, shape, inp, value, state=None):
        v = self.view(value)
        n = shape
        offs, end = self.offsets(inp)
        f = cast_int(inp["factor"], "u128")
        # reference: first i (in offset order) with size_i * factor < sum_{k>=i} size_k
        hits = []
        for i in range(n):
            cum = I("u128", 0)
            for k in range(i, n):
                cum = binop("Add", cum, cast_int(inp["sizes"][k], "u128"))
            hits.append(binop("Lt", binop("Mul", cast_int(inp["sizes"][i], "u128"), f), cum))
        none_ok = band(*[bnot(h) for h in hits]) if hits else B(True)
        conds = []
        if v[0] == "None":
            conds.append(("no compaction is planned only when no suffix of the table satisfies the size rule", none_ok))
            return conds
        _, start, stop, ids = v
        conds.append(("a plan is returned only when some suffix satisfies the size rule", bnot(none_ok)))
        k = len(ids)
        conds.append(("the plan names between 1 and all partitions", B(1 <= k <= n)))
        if not (1 <= k <= n):
            return conds
        i0 = n - k
        first = band(hits[i0], *[bnot(h) for h in hits[:i0]])
        conds.append(("the partitions chosen are the suffix (in row-offset order) starting at the FIRST partition that satisfies the size rule", first))
        conds.append(("partition ids are listed in row-offset order", band(*[binop("Eq", ids[j], inp["ids"][i0 + j]) for j in range(k)])))
        conds.append(("the row range of the plan is exactly the rows of the chosen partitions (contiguous, up to the end of the table)",
                      band(binop("Eq", start, offs[i0]), binop("Eq", stop, end))))
        return conds

    def panic_ok(self, inst, shape, inp, msg):
        return B(False)

    def random_inputs(self, rng, inst, shape):
        n = shape
        ids = rng.sample(range(100), n)
        return {"factor": I("u64", rng.choice([0, 1, 2, 3, 10])), "ids": [I("u64", x) for x in ids], "sizes": [I("usize", rng.choice([0, 8, 80, 800, 8000])) for _ in range(n)],
                "lens": [I("usize", rng.randint(1, 20)) for _ in range(n)], "order": None}

    def native(self, inst, shape, inp):
        if inp is None:
            return ("plan_compaction", [])
        offs, _ = self.offsets(inp)
        n = shape
        order = list(range(n))
        order = order[1::2] + order[0::2]
        parts = [f"{inp['ids'][k].v}:{offs[k].v}:{inp['lens'][k].v}:{inp['sizes'][k].v}" for k in order]
        return ("plan_compaction", [inp["factor"].v, ",".join(parts) or "-"])

    def parse_native(self, inst, shape, toks):
        if toks[0] == "none":
            return ("None",)
        return ("Some", I("usize", int(toks[1])), I("usize", int(toks[2])), parse_ints(toks[3], "u64"))

    def native_view(self, inst, shape, v, st):
        return self.view(v)


from ..mirsym.values import cast_int  # noqa: E402


# ----------------------------------------------------------------------------------------------------
# C07.e : Table::batch - the row ranges of successive partitions tile the table
# ----------------------------------------------------------------------------------------------------
import re as _re
from ..pyengine import run_sequence
from ..mirsym.values import UNIT


class TableBatchSpec(KernelSpec):
    """Table::batch called for successive frozen buffers of n1, n2 (, n3) rows: an empty buffer creates nothing; otherwise the new
    partition gets the next id and the row offset where the previous one ended, is registered under its id, and
    next_partition_offset advances by the buffer's row count - partition ranges tile [0, rows)."""
    diff_cases = 2

    def get_fn(self, ctx, inst):
        return None

    def instantiations(self, tier):
        return [{"nat": "table_batch"}]

    def shapes(self, tier, inst):
        return [1, 2] if tier == "quick" else [1, 2, 3]

    def sym_inputs(self, inst, shape):
        inp = {"id0": sym("u64", "id0"), "off0": sym("usize", "off0"), "n": [sym("usize", f"n{i}") for i in range(shape)]}
        pre = [z3.ULT(inp["id0"].v, 1 << 40), z3.ULT(inp["off0"].v, 1 << 40)] + [z3.ULT(x.v, 1 << 32) for x in inp["n"]]
        return inp, pre

    def explore(self, ctx, ex, fn, inst, shape, inp, pre):
        src = ctx.src()
        tfs = src.struct_fields("Table", having="next_partition_offset")
        bfs = src.struct_fields("Buffer", having="length")
        pfs = src.struct_fields("Partition", having="total_size_bytes")
        if tfs is None or bfs is None or pfs is None:
            raise interp.Unsupported("Table / Buffer / Partition definitions not found")

        def buffer(n):
            named = {"buffer": hashmap_new(), "length": n}
            return Agg("struct", [named[f] for f in bfs], name="Buffer")
        named = {"name": VecObj([I("u8", 116)], "u8", is_str=True), "partitions": Agg("struct", [hashmap_new()], name="Lock"),
                 "next_partition_id": Agg("struct", [inp["id0"]], name="Atomic"), "next_partition_offset": Agg("struct", [inp["off0"]], name="Atomic"),
                 "buffer": Agg("struct", [buffer(I("usize", 0))], name="Lock"), "frozen_buffer": Agg("struct", [buffer(I("usize", 0))], name="Lock")}
        table = Agg("struct", [named.get(f, Havoc("?", f)) for f in tfs], name="Table")
        self._tfs, self._pfs = tfs, pfs

        def from_buffer(ex_, st, fr, path, args, m):
            name, pid, buf, lru, off = args
            ln = buf.fields[bfs.index("length")]
            pn = {"id": pid, "range": Agg("struct", [off, binop("Add", off, ln)], name="Range"), "total_size_bytes": I("usize", 0)}
            return Agg("tuple", [Agg("struct", [pn.get(f, Havoc("?", f)) for f in pfs], name="Partition"), VecObj([])])

        def take_buffer(ex_, st, fr, path, args, m):
            from ..mirsym.interp import Loc
            a, = args
            la = Loc(a.cell, a.path, a.window)
            old = ex_.read_loc(la)
            ex_.write_loc(la, buffer(I("usize", 0)))
            return old
        ex.stubs = [(_re.compile(r"(?:^|::)Partition::from_buffer$"), from_buffer), (_re.compile(r"^(?:std|core)::mem::take::<(?:ingest::buffer::)?Buffer>$"), take_buffer)]
        batch, _ = ex.resolve_method("Table", None, "batch")
        env = {"table": Cell(table)}
        calls = []
        fi = tfs.index("frozen_buffer")
        for k in range(shape):
            def build(env, k=k):
                # the flush froze a buffer of n_k rows (Table::freeze_buffer swaps it in)
                env["table"].v.fields[fi].fields[0] = buffer(inp["n"][k])
                return [Ref(env["table"])]
            calls.append((batch, build, {}, f"r{k}"))
        return run_sequence(ex, pre, env, calls)

    def view(self, x, shape):
        if isinstance(x, dict):
            return x
        env = x.env
        from ..mirsym.models import hashmap_entries, deref_val
        t = env["table"].v
        res = []
        for k in range(shape):
            r = env[f"r{k}"].v
            if r.variant == "None":
                res.append(None)
            else:
                p = r.fields[0]
                while isinstance(p, Ref):
                    p = deref_val(p)
                rg = p.fields[self._pfs.index("range")]
                res.append((p.fields[self._pfs.index("id")], rg.fields[0], rg.fields[1]))
        keys = [e.fields[0] for e in hashmap_entries(t.fields[self._tfs.index("partitions")].fields[0])]
        return {"results": res, "next_offset": t.fields[self._tfs.index("next_partition_offset")].fields[0],
                "next_id": t.fields[self._tfs.index("next_partition_id")].fields[0], "registered": keys}

    def post(self, inst, shape, inp, value, state=None):
        v = self.view(state if state is not None else value, shape)
        conds = []
        # the path fixes which buffers were empty: res[k] is None exactly on those paths
        off = inp["off0"]
        pid = inp["id0"]
        reg = []
        for k in range(shape):
            n = inp["n"][k]
            r = v["results"][k]
            if r is None:
                conds.append((f"batch {k}: no partition is created only for an empty buffer", binop("Eq", n, I("usize", 0))))
                continue
            conds.append((f"batch {k}: a non-empty buffer becomes a partition", binop("Ne", n, I("usize", 0))))
            conds.append((f"batch {k}: the partition gets the next partition id", binop("Eq", r[0], pid)))
            conds.append((f"batch {k}: the partition starts at the row where the previous one ended", binop("Eq", r[1], off)))
            conds.append((f"batch {k}: the partition covers exactly the buffer's rows", binop("Eq", r[2], binop("Add", off, n))))
            reg.append(pid)
            off = binop("Add", off, n)
            pid = binop("Add", pid, I("u64", 1))
        conds.append(("next_partition_offset == rows handed out so far (ranges tile the table)", binop("Eq", v["next_offset"], off)))
        conds.append(("every created partition is registered under its id", band(B(len(v["registered"]) == len(reg)), *[binop("Eq", a, b) for a, b in zip(v["registered"], reg)])))
        return conds

    def panic_ok(self, inst, shape, inp, msg):
        return B(False)

    def random_inputs(self, rng, inst, shape):
        return {"id0": I("u64", rng.randint(0, 9)), "off0": I("usize", rng.choice([0, 5, 100])), "n": [I("usize", rng.choice([0, 1, 3, 8])) for _ in range(shape)]}

    def native(self, inst, shape, inp):
        if inp is None:
            return ("table_batch", [])
        return ("table_batch", [inp["id0"].v, inp["off0"].v, fmt_ints(inp["n"])])

    def parse_native(self, inst, shape, toks):
        res = []
        for x in toks[0].split(";"):
            if x == "none":
                res.append(None)
            else:
                a, b, c = x.split(":")
                res.append((I("u64", int(a)), I("usize", int(b)), I("usize", int(c))))
        return {"results": res, "next_offset": I("usize", int(toks[1])), "next_id": I("u64", int(toks[2])), "registered": parse_ints(toks[3], "u64")}

    def native_view(self, inst, shape, v, st):
        d = self.view(st, shape)
        d = dict(d)
        d["registered"] = sorted(d["registered"], key=lambda x: x.v)
        return d
