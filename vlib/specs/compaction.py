"""C07.c : Table::plan_compaction - which partitions a compaction merges.  The partitions chosen must be a suffix of the table in
row-offset order (so that the merged partition covers one contiguous row range and keeps row order), the range returned must
be exactly the rows of the chosen partitions, and the choice follows the documented size rule."""
import z3

from .common import *
from ..mirsym import interp
from ..mirsym.values import Havoc, Opaque
from ..mirsym.models import hashmap_new


class PlanCompactionSpec(KernelSpec):
    method = ("Table", None, "plan_compaction")
    diff_cases = 3

    def instantiations(self, tier):
        return [{"nat": "plan_compaction"}]

    def shapes(self, tier, inst):
        return [0, 1, 2, 3] if tier == "quick" else [0, 1, 2, 3, 4]

    def sym_inputs(self, inst, shape):
        n = shape
        inp = {"factor": sym("u64", "factor"), "ids": [sym("u64", f"id{i}") for i in range(n)], "sizes": [sym("usize", f"sz{i}") for i in range(n)],
               "lens": [sym("usize", f"len{i}") for i in range(n)], "order": None}
        pre = [z3.ULE(inp["factor"].v, 1 << 10)]
        pre += [z3.ULT(s.v, 1 << 40) for s in inp["sizes"]] + [z3.And(z3.UGE(l.v, 1), z3.ULT(l.v, 1 << 32)) for l in inp["lens"]]
        for i in range(n):
            for j in range(i):
                pre.append(inp["ids"][i].v != inp["ids"][j].v)
        return inp, pre

    def offsets(self, inp):
        """partitions tile the table: partition k (in the given order) starts where k-1 ends"""
        offs = []
        cur = I("usize", 0)
        for l in inp["lens"]:
            offs.append(cur)
            cur = binop("Add", cur, l)
        return offs, cur

    def explore(self, ctx, ex, fn, inst, shape, inp, pre):
        src = ctx.src()
        tfs = src.struct_fields("Table", having="next_partition_offset")
        pfs = src.struct_fields("Partition", having="total_size_bytes")
        if tfs is None or pfs is None:
            raise interp.Unsupported("Table / Partition definitions not found")
        offs, _ = self.offsets(inp)
        n = shape
        parts = []
        # the map is filled in a scrambled order: plan_compaction must sort by row offset itself
        order = list(range(n))
        order = order[1::2] + order[0::2]
        for k in order:
            named = {"id": inp["ids"][k], "range": Agg("struct", [offs[k], binop("Add", offs[k], inp["lens"][k])], name="Range"), "total_size_bytes": inp["sizes"][k]}
            p = Agg("struct", [named.get(f, Havoc("?", f)) for f in pfs], name="Partition")
            parts.append((inp["ids"][k], Ref(Cell(p))))
        named = {"partitions": Agg("struct", [hashmap_new(parts)], name="Lock")}
        table = Agg("struct", [named.get(f, Havoc("?", f)) for f in tfs], name="Table")
        st = ex.start(fn, [Ref(Cell(table)), inp["factor"]], {}, pc=pre)
        return ex.explore(st)

    def view(self, value):
        if isinstance(value, tuple) or value is None:
            return value
        if value.variant == "None":
            return ("None",)
        rng, ids = value.fields[0].fields
        return ("Some", rng.fields[0], rng.fields[1], list(ids.elems))

    def post(self, inst, shape, inp, value, state=None):
        v = self.view(value)
        n = shape
        offs, end = self.offsets(inp)
        f = cast_int(inp["factor"], "u128")
        # reference: first i (in offset order) with size_i * factor < sum_{k>=i} size_k
        hits = []
        for i in range(n):
            cum = I("u128", 0)
            for k in range(i, n):
                cum = binop("Add", cum, cast_int(inp["sizes"][k], "u128"))
            hits.append(binop("Lt", binop("Mul", cast_int(inp["sizes"][i], "u128"), f), cum))
        none_ok = band(*[bnot(h) for h in hits]) if hits else B(True)
        conds = []
        if v[0] == "None":
            conds.append(("no compaction is planned only when no suffix of the table satisfies the size rule", none_ok))
            return conds
        _, start, stop, ids = v
        conds.append(("a plan is returned only when some suffix satisfies the size rule", bnot(none_ok)))
        k = len(ids)
        conds.append(("the plan names between 1 and all partitions", B(1 <= k <= n)))
        if not (1 <= k <= n):
            return conds
        i0 = n - k
        first = band(hits[i0], *[bnot(h) for h in hits[:i0]])
        conds.append(("the partitions chosen are the suffix (in row-offset order) starting at the FIRST partition that satisfies the size rule", first))
        conds.append(("partition ids are listed in row-offset order", band(*[binop("Eq", ids[j], inp["ids"][i0 + j]) for j in range(k)])))
        conds.append(("the row range of the plan is exactly the rows of the chosen partitions (contiguous, up to the end of the table)",
                      band(binop("Eq", start, offs[i0]), binop("Eq", stop, end))))
        return conds

    def panic_ok(self, inst, shape, inp, msg):
        return B(False)

    def random_inputs(self, rng, inst, shape):
        n = shape
        ids = rng.sample(range(100), n)
        return {"factor": I("u64", rng.choice([0, 1, 2, 3, 10])), "ids": [I("u64", x) for x in ids], "sizes": [I("usize", rng.choice([0, 8, 80, 800, 8000])) for _ in range(n)],
                "lens": [I("usize", rng.randint(1, 20)) for _ in range(n)], "order": None}

    def native(self, inst, shape, inp):
        if inp is None:
            return ("plan_compaction", [])
        offs, _ = self.offsets(inp)
        n = shape
        order = list(range(n))
        order = order[1::2] + order[0::2]
        parts = [f"{inp['ids'][k].v}:{offs[k].v}:{inp['lens'][k].v}:{inp['sizes'][k].v}" for k in order]
        return ("plan_compaction", [inp["factor"].v, ",".join(parts) or "-"])

    def parse_native(self, inst, shape, toks):
        if toks[0] == "none":
            return ("None",)
        return ("Some", I("usize", int(toks[1])), I("usize", int(toks[2])), parse_ints(toks[3], "u64"))

    def native_view(self, inst, shape, v, st):
        return self.view(v)


from ..mirsym.values import cast_int  # noqa: E402
