"""C05.d / C12 : LIMIT/OFFSET arithmetic — arithmetic slices of large methods (under-constrained inputs:
every counterexample must reproduce through the public API before it is reported)."""
import z3

from .common import *
from ..mirsym import interp
from ..mirsym.values import Havoc, Opaque
from .. import replay

U64MAX = 2**64 - 1
ROWS = 3        # rows of the table used for API-level replay


def api_limit_offset_check(limit, offset, rows=ROWS):
    """run SELECT id FROM t [LIMIT l] [OFFSET o] on a `rows`-row table through the public API"""
    q = "SELECT id FROM t"
    if limit is not None:
        q += f" LIMIT {limit}"
    if offset:
        q += f" OFFSET {offset}"
    spec = {"options": {"threads": 2}, "steps": [{"ingest": {"t": {"id": {"I64": list(range(rows))}}}}, {"query": q},
                                                  {"query": "SELECT id FROM t"}]}
    steps, out = replay.api_replay(spec)
    if steps is None:
        return None, "API replay did not run: " + out[-300:], spec
    r = steps[1]
    lim = U64MAX if limit is None else int(limit)
    try:
        want = [[f"i:{i}"] for i in range(rows)][int(offset):][:lim] if int(offset) < rows else []
    except (ValueError, OverflowError):
        want = None
    after = steps[2]
    healthy = after.get("outcome") == "ok" and after.get("rows") == [[f"i:{i}"] for i in range(rows)]
    if r.get("outcome") == "ok":
        if want is not None and r.get("rows") == want and healthy:
            return False, f"query {q!r} answered correctly", spec
        return True, f"query {q!r} returned {r.get('rows')} (expected {want}); database healthy afterwards: {healthy}", spec
    if r.get("outcome") == "error" and ("ParseError" in r.get("error", "") or "SyntaxError" in r.get("error", "") or "NotImplemented" in r.get("error", "")) and (want is None or int(limit or 0) > U64MAX or int(offset or 0) > U64MAX) and healthy:
        return False, f"query {q!r} rejected with an error value", spec
    return True, f"query {q!r}: outcome {r.get('outcome')} {r.get('error', '')}; a following plain SELECT: {after.get('outcome')}", spec


class SliceBase(KernelSpec):
    diff_cases = 0

    def native(self, inst, shape, inp):
        return None

    def random_inputs(self, rng, inst, shape):
        return None

    def fidx(self, ctx, struct, field):
        fs = ctx.src().struct_fields(struct)
        if fs is None or field not in fs:
            raise interp.Unsupported(f"struct {struct} has no field {field} in the current source")
        return fs.index(field)

    def api_spec(self, inst, shape, conc):
        l, o = self._lo(conc)
        return api_limit_offset_check.__doc__ and {"query": f"SELECT id FROM t LIMIT {l} OFFSET {o}", "rows": ROWS}

    def _lo(self, conc):
        return conc["limit"].v, conc["offset"].v

    def api_check(self, inst, shape, conc, label):
        l, o = self._lo(conc)
        bad, what, spec = api_limit_offset_check(None if l == U64MAX else l, o)
        self._last_api = spec
        if bad is None:
            return False, what
        return bad, what


class CombinedLimitSpec(SliceBase):
    """QueryTask::combined_limit(): limit + offset (how many rows every partition keeps)"""
    method = ("QueryTask", None, "combined_limit")

    def sym_inputs(self, inst, shape):
        return {"limit": sym("u64", "limit"), "offset": sym("u64", "offset")}, []

    def explore(self, ctx, ex, fn, inst, shape, inp, pre):
        lc = Agg("struct", [inp["limit"], inp["offset"]], name="LimitClause")
        nfq = Havoc("NormalFormQuery", "main_phase")
        nfq.fields[self.fidx(ctx, "NormalFormQuery", "limit")] = lc
        qt = Havoc("QueryTask", "self")
        qt.fields[self.fidx(ctx, "QueryTask", "main_phase")] = nfq
        qt.fields[self.fidx(ctx, "QueryTask", "final_pass")] = Agg("enum", [], name="Option", variant="None")
        st = ex.start(fn, [Ref(Cell(qt))], {}, pc=pre)
        return ex.explore(st)

    def post(self, inst, shape, inp, value, state=None):
        # enough rows are kept: at least min(limit + offset, anything representable)
        exact = binop("AddWithOverflow", inp["limit"], inp["offset"])
        return [("kept rows == limit + offset when that is representable", implies(bnot(exact.fields[1]), binop("Eq", I("u64", value.v), exact.fields[0])))]


class RunLimitSpec(SliceBase):
    """NormalFormQuery::run: `limit + offset` computed before planning (slice ends at the first planner call)"""
    method = ("NormalFormQuery", None, "run")

    def sym_inputs(self, inst, shape):
        return {"limit": sym("u64", "limit"), "offset": sym("u64", "offset")}, []

    def explore(self, ctx, ex, fn, inst, shape, inp, pre):
        import re

        def stop(ex_, st, fr, path, args, m):
            raise interp.StopSlice()
        ex.stubs = [(re.compile(r"QueryPlanner as .*Default>::default|QueryPlanner::default|compile_expr"), stop)]
        lc = Agg("struct", [inp["limit"], inp["offset"]], name="LimitClause")
        nfq = Havoc("NormalFormQuery", "self")
        nfq.fields[self.fidx(ctx, "NormalFormQuery", "limit")] = lc
        args = [Ref(Cell(nfq))] + [Havoc(t, n) for n, t in fn.args[1:]]
        st = ex.start(fn, args, {}, pc=pre)
        return ex.explore(st)

    def post(self, inst, shape, inp, value, state=None):
        return []


class OutputFormatSpec(SliceBase):
    """QueryTask::convert_to_output_format: count = min(limit, len - offset); slice ends at BatchResult::validate"""
    method = ("QueryTask", None, "convert_to_output_format")

    def sym_inputs(self, inst, shape):
        return {"limit": sym("u64", "limit"), "offset": sym("u64", "offset"), "len": sym("usize", "len")}, []

    def explore(self, ctx, ex, fn, inst, shape, inp, pre):
        import re

        def stop(ex_, st, fr, path, args, m):
            raise interp.StopSlice()

        def blen(ex_, st, fr, path, args, m):
            return inp["len"]
        ex.stubs = [(re.compile(r"BatchResult::<.*>::validate|BatchResult::validate"), stop),
                    (re.compile(r"BatchResult::<.*>::len$|BatchResult::len$"), blen)]
        lc = Agg("struct", [inp["limit"], inp["offset"]], name="LimitClause")
        nfq = Havoc("NormalFormQuery", "main_phase")
        nfq.fields[self.fidx(ctx, "NormalFormQuery", "limit")] = lc
        qt = Havoc("QueryTask", "self")
        qt.fields[self.fidx(ctx, "QueryTask", "main_phase")] = nfq
        qt.fields[self.fidx(ctx, "QueryTask", "final_pass")] = Agg("enum", [], name="Option", variant="None")
        args = [Ref(Cell(qt)), Ref(Cell(Havoc("BatchResult", "full_result"))), Havoc("&[String]", "explains")]
        st = ex.start(fn, args, {}, pc=pre)
        return ex.explore(st)

    def post_stop(self, inst, shape, inp, o):
        # value of the local the source calls `count`, if the debug info still names one
        fr = o.st.frames[-1]
        conds = []
        for local, name in fr.fn.debug.items():
            if name == "count" and local in fr.locals and isinstance(fr.locals[local].v, I):
                cnt = fr.locals[local].v
                ln, off, lim = inp["len"], I("usize", inp["offset"].v), I("usize", inp["limit"].v)
                rest = ite(binop("Lt", off, ln), binop("Sub", ln, off), I("usize", 0))
                want = ite(binop("Lt", lim, rest), lim, rest)
                conds.append(("count == min(limit, max(len - offset, 0))", binop("Eq", cnt, want)))
        return conds

    def post(self, inst, shape, inp, value, state=None):
        return []

    def api_check(self, inst, shape, conc, label):
        l, o = conc["limit"].v, conc["offset"].v
        rows = min(conc["len"].v, 6)
        bad, what, spec = api_limit_offset_check(None if l == U64MAX else l, o, rows=max(rows, 1))
        if bad is None:
            return False, what
        return bad, what


class ParseNumberSpec(SliceBase):
    """get_limit / get_offset: the number token of LIMIT/OFFSET is converted with str::parse::<u64>; the conversion must
    yield Ok or a QueryError, never a panic.  Slice: starts at the block that calls parse, str::parse modelled by its
    contract (Ok(any u64) | Err)."""

    def __init__(self, which):
        self.which = which
        self.fn_path = f"syntax::parser::{which}"

    def sym_inputs(self, inst, shape):
        return {"parse_ok": sym("bool", "parse_ok"), "value": sym("u64", "value")}, []

    def explore(self, ctx, ex, fn, inst, shape, inp, pre):
        import re
        blocks = ex.find_call_block(fn, r"str>::parse::<u64>|str::parse::<u64>")
        if len(blocks) != 1:
            raise interp.Unsupported(f"{self.which}: expected exactly one str::parse::<u64> call, found {len(blocks)}")
        bname, term = blocks[0]

        def parse(ex_, st, fr, path, args, m):
            if ex_.decide(st, inp["parse_ok"]):
                return Agg("enum", [inp["value"]], name="Result", variant="Ok")
            return Agg("enum", [Opaque("ParseIntError")], name="Result", variant="Err")
        ex.stubs = [(re.compile(r"str>::parse::<u64>|str::parse::<u64>"), parse)]
        init = {}
        for a in term.a["args"]:
            if a.place is not None:
                init[a.place.local] = Havoc("&str", "number_token")
        ex.prune_unreachable = True
        st = ex.start_at(fn, bname, init, {}, pc=pre)
        return ex.explore(st)

    def post(self, inst, shape, inp, value, state=None):
        if value.variant == "Ok":
            return [("Ok carries the parsed number", band(inp["parse_ok"], binop("Eq", value.fields[0], inp["value"])))]
        return [("Err only when the token is not a u64", bnot(inp["parse_ok"]))]

    def api_check(self, inst, shape, conc, label):
        # the model says whether parse fails; a failing parse of a number token = a literal beyond u64::MAX
        big = "99999999999999999999" if not conc["parse_ok"].v else str(conc["value"].v)
        if self.which == "get_limit":
            bad, what, spec = api_limit_offset_check(big, 0)
        else:
            bad, what, spec = api_limit_offset_check(1, big)
        if bad is None:
            return False, what
        return bad, what

    def api_spec(self, inst, shape, conc):
        return {"query": "SELECT id FROM t LIMIT 99999999999999999999" if self.which == "get_limit" else "SELECT id FROM t LIMIT 1 OFFSET 99999999999999999999"}
