"""C01.e : length-prefixed string/byte packing (src/stringpack.rs): PackedStrings::push / StringPackerIterator::next and
PackedBytes::from_iterator / PackedBytesIterator::next round trips at the 254/255/256 and 509/510/511 length boundaries."""
import z3

from .common import *
from ..pyengine import run_sequence
from ..mirsym import interp
from ..mirsym.values import Havoc, Opaque, UNIT
from .routing import str_ref

LENS_QUICK = [(0,), (1,), (254,), (255,), (256,), (510,), (255, 1), (0, 255, 2), (254, 0)]
LENS_THOROUGH = LENS_QUICK + [(253,), (509,), (511,), (765,), (1, 255, 255), (510, 510), (256, 254, 255), (0, 0), ()]


def mk_bytes(name, n):
    """n bytes: first and last symbolic (ASCII), the rest concrete"""
    out = []
    pre = []
    for i in range(n):
        if i in (0, n - 1):
            x = sym("u8", f"{name}_{i}")
            pre.append(z3.ULT(x.v, 128))
            out.append(x)
        else:
            out.append(I("u8", 32 + (i * 7) % 90))
    return out, pre


class PackedSpec(KernelSpec):
    diff_cases = 1
    kind = "strings"

    def get_fn(self, ctx, inst):
        return None

    def instantiations(self, tier):
        return [{"nat": "packed_" + self.kind}]

    def shapes(self, tier, inst):
        return LENS_QUICK if tier == "quick" else LENS_THOROUGH

    def sym_inputs(self, inst, shape):
        inp = {}
        pre = []
        for k, n in enumerate(shape):
            b, p = mk_bytes(f"s{k}", n)
            inp[f"s{k}"] = b
            pre += p
        return inp, pre

    def explore(self, ctx, ex, fn, inst, shape, inp, pre):
        k = len(shape)
        calls = []
        if self.kind == "strings":
            push, _ = ex.resolve_method("PackedStrings", None, "push")
            nxt, _ = ex.resolve_method("StringPackerIterator", "Iterator", "next")
            fs = ctx.src().struct_fields("PackedStrings")
            env = {"ps": Cell(Agg("struct", [VecObj([], "u8")], name="PackedStrings"))}
            for i in range(k):
                calls.append((push, lambda env, i=i: [Ref(env["ps"], (), None, False, True), str_ref(inp[f"s{i}"])], {}))
        else:
            fi = [f for kx, f in ex.lookup_fn("stringpack::PackedBytes::from_iterator")] or None
            fromit, _ = ex.resolve_method("PackedBytes", None, "from_iterator")
            nxt, _ = ex.resolve_method("PackedBytesIterator", "Iterator", "next")
            env = {}
            calls.append((fromit, lambda env: [VecObj([VecObj(list(inp[f"s{i}"]), "u8") for i in range(k)])], {}, "ps"))

        def mk_iter(env):
            data = env["ps"].v.fields[0]
            env["data"] = Cell(data)
            name = "StringPackerIterator" if self.kind == "strings" else "PackedBytesIterator"
            fs = ctx.src().struct_fields(name)
            vals = [Ref(env["data"], (), (0, len(data.elems))) if f == "data" else I("usize", 0) for f in fs]
            env["it"] = Cell(Agg("struct", vals, name=name))
            return [Ref(env["it"], (), None, False, True)]
        calls.append((nxt, mk_iter, {}, "o0"))
        for i in range(1, k + 1):
            calls.append((nxt, lambda env: [Ref(env["it"], (), None, False, True)], {}, f"o{i}"))
        return run_sequence(ex, pre, env, calls)

    def view(self, shape, state):
        from ..mirsym.models import seq_of
        out = []
        for i in range(len(shape) + 1):
            o = state.env[f"o{i}"].v
            if o.variant == "None":
                out.append(None)
            else:
                el, lo, hi = seq_of(o.fields[0])
                out.append(list(el[lo:hi]))
        return out

    def post(self, inst, shape, inp, value, state=None):
        got = self.view(shape, state) if state is not None else value
        k = len(shape)
        conds = [("iterator yields one item per stored value and then None", B(len(got) == k + 1 and got[k] is None and all(g is not None for g in got[:k])))]
        if not (len(got) == k + 1 and got[k] is None and all(g is not None for g in got[:k])):
            return conds
        for i in range(k):
            want = inp[f"s{i}"]
            conds.append((f"value {i}: length {len(want)} preserved", B(len(got[i]) == len(want))))
            if len(got[i]) == len(want):
                eqs = [binop("Eq", a, b) for a, b in zip(got[i], want) if not (a.concrete and b.concrete and a.v == b.v)]
                bad = [1 for a, b in zip(got[i], want) if a.concrete and b.concrete and a.v != b.v]
                conds.append((f"value {i}: bytes preserved", band(*eqs) if eqs and not bad else B(not bad)))
        return conds

    def random_inputs(self, rng, inst, shape):
        inp, _ = self.sym_inputs(inst, shape)
        return {k: [x if x.concrete else I("u8", rng.randint(33, 126)) for x in v] for k, v in inp.items()}

    def native(self, inst, shape, inp):
        if inp is None:
            return ("packed_" + self.kind, [])
        return ("packed_" + self.kind, [bytes(x.v for x in inp[f"s{i}"]).hex() or "-" for i in range(len(shape))] or ["none"])

    def parse_native(self, inst, shape, toks):
        out = []
        for t in toks:
            if t == "END":
                out.append(None)
            else:
                out.append([I("u8", x) for x in (bytes.fromhex(t) if t != "-" else b"")])
        return out

    def native_view(self, inst, shape, v, st):
        return self.view(shape, st)

    def panic_ok(self, inst, shape, inp, msg):
        return B(False)


class PackedStringsSpec(PackedSpec):
    kind = "strings"


class PackedBytesSpec(PackedSpec):
    kind = "bytes"
