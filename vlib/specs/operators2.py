"""More vectorised operator `execute` loops run from their MIR (scratchpad accessors as stubs; see operators.py):
C03.d  BinaryOperator / BinaryVSOperator / BinarySVOperator with comparison and boolean kernels, IsNull / IsNotNull,
       CombineNullMaps, MapOperator<BooleanNot>
C06.d  CheckedBinary{,VS,SV}Operator (non-nullable) and the widening TypeConversionOperator
"""
import re

import z3

from .common import *
from ..mirsym import interp
from ..mirsym.values import cast_int
from .operators import OpExecSpec, Buffers, bufref, nbytes, bit, OPS


def phantom():
    return Agg("struct", [], name="PhantomData")


def concretise(inp, rng):
    return {k: [x if x.concrete else I(x.ty, rng.randint(0, 255) if x.ty == "u8" else rnd_int(rng, x.ty)) for x in v] for k, v in inp.items()}


CMPS = {"lt": ("LessThan", "Lt"), "le": ("LessThanEquals", "Le"), "eq": ("Equals", "Eq"), "ne": ("NotEquals", "Ne")}


class BinaryLoopSpec(OpExecSpec):
    """Binary{,VS,SV}Operator<L,R,u8,Op>::execute: one output per row, out[i] = (l[i] OP r[i]) on the mathematical values
    (operands of different widths are compared as integers, not as truncated bit patterns)"""

    def instantiations(self, tier):
        out = []
        combos = [("VV", "lt", "i64", "i64"), ("VS", "lt", "u8", "i64"), ("SV", "le", "i64", "u16"), ("VS", "eq", "u32", "i64"), ("VV", "ne", "u8", "u8")]
        if tier == "thorough":
            combos += [("VV", "le", "u16", "u32"), ("VS", "ne", "i64", "i64"), ("SV", "lt", "i64", "u32"), ("VS", "le", "u16", "i64"), ("VV", "eq", "i64", "i64")]
        for form, op, lt, rt in combos:
            out.append({"form": form, "op": op, "L": lt, "R": rt, "nat": f"op_binary_{form}_{op}_{lt}_{rt}"})
        for op in ("or", "and"):
            out.append({"form": "VV", "op": op, "L": "u8", "R": "u8", "nat": f"op_binary_VV_{op}_u8_u8"})
        return out

    def op_type(self, inst):
        name = {"VV": "BinaryOperator", "VS": "BinaryVSOperator", "SV": "BinarySVOperator"}[inst["form"]]
        kern = {"or": "BoolOr", "and": "BoolAnd"}.get(inst["op"]) or CMPS[inst["op"]][0]
        return f"{name}<{inst['L']}, {inst['R']}, u8, {kern}>"

    def shapes(self, tier, inst):
        return [0, 2] if tier == "quick" else [0, 1, 2, 3, 5]

    def sym_inputs(self, inst, shape):
        n = shape
        mk = lambda nm, ty, k: [sym(ty, f"{nm}{i}") if i < 3 else I(ty, i) for i in range(k)]
        return {"l": mk("l", inst["L"], 1 if inst["form"] == "SV" else n), "r": mk("r", inst["R"], 1 if inst["form"] == "VS" else n)}, []

    def op_fields(self, ctx, inst):
        return {"lhs": bufref(ctx, 0), "rhs": bufref(ctx, 1), "output": bufref(ctx, 2), "op": phantom()}

    def buffers(self, inst, shape, inp):
        b = Buffers()
        if inst["form"] == "SV":
            b.scalar(0, inp["l"][0])
        else:
            b.vec(0, inp["l"], inst["L"])
        if inst["form"] == "VS":
            b.scalar(1, inp["r"][0])
        else:
            b.vec(1, inp["r"], inst["R"])
        b.vec(2, [], "u8")
        return b

    def view(self, inst, shape, value, state):
        return {"err": self.result_is_err(value), "out": self.out_vec(state, 2)}

    def post(self, inst, shape, inp, value, state=None):
        v = self.view(inst, shape, value, state) if state is not None else value
        n = shape
        conds = [("never fails", B(not v["err"])), ("one output per row", B(len(v["out"]) == n))]
        if len(v["out"]) != n:
            return conds
        for i in range(n):
            l = inp["l"][0] if inst["form"] == "SV" else inp["l"][i]
            r = inp["r"][0] if inst["form"] == "VS" else inp["r"][i]
            if inst["op"] in ("or", "and"):
                want = binop("BitOr" if inst["op"] == "or" else "BitAnd", l, r)
                conds.append((f"row {i}: boolean {inst['op']} of the two filter bytes", binop("Eq", v["out"][i], want)))
            else:
                # reference: compare as 128-bit mathematical integers
                lw, rw = cast_int(l, "i128"), cast_int(r, "i128")
                want = binop(CMPS[inst["op"]][1], lw, rw)
                conds.append((f"row {i}: 1 exactly when l {inst['op']} r holds on the integer values", binop("Eq", v["out"][i], ite(want, I("u8", 1), I("u8", 0)))))
        return conds

    def random_inputs(self, rng, inst, shape):
        return concretise(self.sym_inputs(inst, shape)[0], rng)

    def native(self, inst, shape, inp):
        if inp is None:
            return (inst["nat"], [])
        return (inst["nat"], [fmt_ints(inp["l"]), fmt_ints(inp["r"])])

    def parse_native(self, inst, shape, toks):
        return {"err": toks[0] == "err", "out": parse_ints(toks[1], "u8")}


class CheckedLoopSpec(OpExecSpec):
    """CheckedBinary{,VS,SV}Operator<i64,i64,i64,Op>::execute: Err(Overflow) iff some row overflows, else exact results"""

    def instantiations(self, tier):
        out = []
        for form in ("VV", "VS", "SV"):
            for op in (("add", "sub") if tier == "quick" else ("add", "sub", "mul")):
                if form == "SV" and op == "add":
                    continue
                out.append({"form": form, "op": op, "nat": f"op_checked_{form}_{op}"})
        return out

    def op_type(self, inst):
        k = OPS[inst["op"]][0]
        kern = f"{k}<i64, i64>" if inst["op"] != "mul" else f"{k}<i64, i64, i64>"
        name = {"VV": "CheckedBinaryOperator", "VS": "CheckedBinaryVSOperator", "SV": "CheckedBinarySVOperator"}[inst["form"]]
        return f"{name}<i64, i64, i64, {kern}>"

    def shapes(self, tier, inst):
        return [0, 2] if tier == "quick" else [0, 1, 2, 3]

    def sym_inputs(self, inst, shape):
        n = shape
        mk = lambda nm, k: [sym("i64", f"{nm}{i}") if i < 3 else I("i64", i) for i in range(k)]
        return {"l": mk("l", 1 if inst["form"] == "SV" else n), "r": mk("r", 1 if inst["form"] == "VS" else n)}, []

    def op_fields(self, ctx, inst):
        return {"lhs": bufref(ctx, 0), "rhs": bufref(ctx, 1), "output": bufref(ctx, 2), "op": phantom()}

    def buffers(self, inst, shape, inp):
        b = Buffers()
        if inst["form"] == "SV":
            b.scalar(0, inp["l"][0])
        else:
            b.vec(0, inp["l"], "i64")
        if inst["form"] == "VS":
            b.scalar(1, inp["r"][0])
        else:
            b.vec(1, inp["r"], "i64")
        b.vec(2, [], "i64")
        return b

    def view(self, inst, shape, value, state):
        return {"err": self.result_is_err(value), "out": self.out_vec(state, 2)}

    def post(self, inst, shape, inp, value, state=None):
        v = self.view(inst, shape, value, state) if state is not None else value
        n = shape
        anyovf = B(False)
        conds = []
        for i in range(n):
            l = inp["l"][0] if inst["form"] == "SV" else inp["l"][i]
            r = inp["r"][0] if inst["form"] == "VS" else inp["r"][i]
            res = binop(OPS[inst["op"]][1], l, r)
            anyovf = bor(anyovf, res.fields[1])
            if not v["err"] and len(v["out"]) == n:
                conds.append((f"row {i}: exact result", binop("Eq", v["out"][i], res.fields[0])))
        if v["err"]:
            conds.append(("Err(Overflow) only when a row overflows", anyovf))
        else:
            conds.append(("Ok only when no row overflows (never a silently wrapped value)", bnot(anyovf)))
            conds.append(("one output per row", B(len(v["out"]) == n)))
        return conds

    def random_inputs(self, rng, inst, shape):
        return concretise(self.sym_inputs(inst, shape)[0], rng)

    def native(self, inst, shape, inp):
        if inp is None:
            return (inst["nat"], [])
        return (inst["nat"], [fmt_ints(inp["l"]), fmt_ints(inp["r"])])

    def parse_native(self, inst, shape, toks):
        return {"err": toks[0] == "err", "out": parse_ints(toks[1], "i64")}


class IsNullSpec(OpExecSpec):
    """IsNull / IsNotNull: out[i] = 1 exactly when row i is NULL (resp. present), one byte per row"""

    def instantiations(self, tier):
        return [{"which": "IsNull", "nat": "op_is_null"}, {"which": "IsNotNull", "nat": "op_is_not_null"}]

    def op_type(self, inst):
        return inst["which"]

    def shapes(self, tier, inst):
        return [0, 3, 9] if tier == "quick" else [0, 1, 3, 8, 9]      # 17 rows exceed the path cap

    def sym_inputs(self, inst, shape):
        return {"present": [sym("u8", f"p{i}") for i in range(nbytes(shape))]}, []

    def op_fields(self, ctx, inst):
        return {"input": bufref(ctx, 0), "is_null" if inst["which"] == "IsNull" else "is_not_null": bufref(ctx, 1)}

    def buffers(self, inst, shape, inp):
        b = Buffers()
        b.nullable(0, [I("i64", i) for i in range(shape)], "i64", inp["present"])
        b.vec(1, [], "u8")
        return b

    def view(self, inst, shape, value, state):
        return {"err": self.result_is_err(value), "out": self.out_vec(state, 1)}

    def post(self, inst, shape, inp, value, state=None):
        v = self.view(inst, shape, value, state) if state is not None else value
        conds = [("never fails", B(not v["err"])), ("one output per row", B(len(v["out"]) == shape))]
        if len(v["out"]) == shape:
            for i in range(shape):
                p = bit(inp["present"], i)
                want = ite(p, I("u8", 0 if inst["which"] == "IsNull" else 1), I("u8", 1 if inst["which"] == "IsNull" else 0))
                conds.append((f"row {i}: flag follows the presence bit", binop("Eq", v["out"][i], want)))
        return conds

    def random_inputs(self, rng, inst, shape):
        return concretise(self.sym_inputs(inst, shape)[0], rng)

    def native(self, inst, shape, inp):
        if inp is None:
            return (inst["nat"], [])
        return (inst["nat"], [shape, fmt_ints(inp["present"])])

    def parse_native(self, inst, shape, toks):
        return {"err": toks[0] == "err", "out": parse_ints(toks[1], "u8")}


class CombineNullMapsSpec(OpExecSpec):
    """CombineNullMaps: row i of the result is present exactly when it is present on both sides"""

    def instantiations(self, tier):
        return [{"nat": "op_combine_null_maps"}]

    def op_type(self, inst):
        return "CombineNullMaps"

    def shapes(self, tier, inst):
        return [0, 3, 9] if tier == "quick" else [0, 1, 8, 9, 16, 17]

    def sym_inputs(self, inst, shape):
        k = nbytes(shape)
        return {"l": [sym("u8", f"l{i}") for i in range(k)], "r": [sym("u8", f"r{i}") for i in range(k)]}, []

    def op_fields(self, ctx, inst):
        return {"lhs": bufref(ctx, 0), "rhs": bufref(ctx, 1), "output": bufref(ctx, 2)}

    def buffers(self, inst, shape, inp):
        b = Buffers()
        data = [I("i64", i) for i in range(shape)]
        b.nullable(0, data, "i64", inp["l"])
        b.nullable(1, list(data), "i64", inp["r"])
        b.vec(2, [I("u8", 0) for _ in range(nbytes(shape))], "u8")       # what init() allocates: ceil(n/8) zero bytes
        return b

    def view(self, inst, shape, value, state):
        return {"err": self.result_is_err(value), "out": self.out_vec(state, 2)}

    def post(self, inst, shape, inp, value, state=None):
        v = self.view(inst, shape, value, state) if state is not None else value
        conds = [("never fails", B(not v["err"])), ("the combined map covers every row", B(len(v["out"]) * 8 >= shape))]
        if len(v["out"]) * 8 >= shape:
            for i in range(shape):
                conds.append((f"row {i}: present iff present on both sides", binop("Eq", bit(v["out"], i), band(bit(inp["l"], i), bit(inp["r"], i)))))
        return conds

    def random_inputs(self, rng, inst, shape):
        return concretise(self.sym_inputs(inst, shape)[0], rng)

    def native(self, inst, shape, inp):
        if inp is None:
            return (inst["nat"], [])
        return (inst["nat"], [shape, fmt_ints(inp["l"]), fmt_ints(inp["r"])])

    def parse_native(self, inst, shape, toks):
        return {"err": toks[0] == "err", "out": parse_ints(toks[1], "u8")}


WIDEN = [("u8", "i64"), ("u16", "i64"), ("u32", "i64"), ("u8", "u32"), ("u16", "u32"), ("u8", "u16")]


class TypeConversionSpec(OpExecSpec):
    """TypeConversionOperator<T,U> for the widening conversions the planner inserts before arithmetic and merging:
    the value is preserved (zero extension), one output per row"""

    def instantiations(self, tier):
        return [{"T": t, "U": u, "nat": f"op_cast_{t}_{u}"} for t, u in (WIDEN[:3] if tier == "quick" else WIDEN)]

    def op_type(self, inst):
        return f"TypeConversionOperator<{inst['T']}, {inst['U']}>"

    def shapes(self, tier, inst):
        return [0, 2] if tier == "quick" else [0, 1, 3]

    def sym_inputs(self, inst, shape):
        return {"in": [sym(inst["T"], f"v{i}") for i in range(shape)]}, []

    def op_fields(self, ctx, inst):
        return {"input": bufref(ctx, 0), "output": bufref(ctx, 1)}

    def buffers(self, inst, shape, inp):
        b = Buffers()
        b.vec(0, inp["in"], inst["T"])
        b.vec(1, [], inst["U"])
        return b

    def view(self, inst, shape, value, state):
        return {"err": self.result_is_err(value), "out": self.out_vec(state, 1)}

    def post(self, inst, shape, inp, value, state=None):
        v = self.view(inst, shape, value, state) if state is not None else value
        conds = [("never fails", B(not v["err"])), ("one output per row", B(len(v["out"]) == shape))]
        if len(v["out"]) == shape:
            for i in range(shape):
                conds.append((f"row {i}: value preserved", binop("Eq", cast_int(v["out"][i], "i128"), cast_int(inp["in"][i], "i128"))))
        return conds

    def random_inputs(self, rng, inst, shape):
        return {"in": [I(inst["T"], rnd_int(rng, inst["T"])) for _ in range(shape)]}

    def native(self, inst, shape, inp):
        if inp is None:
            return (inst["nat"], [])
        return (inst["nat"], [fmt_ints(inp["in"])])

    def parse_native(self, inst, shape, toks):
        return {"err": toks[0] == "err", "out": parse_ints(toks[1], inst["U"])}


class CastIntFloatNullSpec(TypeConversionSpec):
    """TypeConversionOperator<i64, of64>: the cast batch_merging::combine inserts when the partial results of two partitions
    disagree on a column's type (integer in one, float in the other).  The in-band integer NULL marker must become the float
    NULL marker (a NULL partial aggregate stays NULL whatever the layout); every other value is converted as `v as f64`."""

    def instantiations(self, tier):
        return [{"T": "i64", "U": "of64", "nat": "op_cast_i64_of64"}]

    def op_type(self, inst):
        return "TypeConversionOperator<i64, of64>"

    def shapes(self, tier, inst):
        return [0, 2] if tier == "quick" else [0, 1, 3]

    def buffers(self, inst, shape, inp):
        b = Buffers()
        b.vec(0, inp["in"], "i64")
        b.vec(1, [], "ordered_float::OrderedFloat<f64>")
        return b

    def view(self, inst, shape, value, state):
        out = [x.fields[0] if isinstance(x, Agg) else x for x in self.out_vec(state, 1)]
        return {"err": self.result_is_err(value), "out": out}

    def post(self, inst, shape, inp, value, state=None):
        from ..mirsym.values import cast_int_to_float
        v = self.view(inst, shape, value, state) if state is not None else value
        conds = [("never fails", B(not v["err"])), ("one output per row", B(len(v["out"]) == shape))]
        if len(v["out"]) == shape:
            for i in range(shape):
                x = inp["in"][i]
                is_null = binop("Eq", x, I("i64", (1 << 63) - 1))
                got = I("u64", v["out"][i].v)
                conds.append((f"row {i}: the integer NULL marker becomes the float NULL marker", implies(is_null, binop("Eq", got, I("u64", 0x7ffaaaaaaaaaaaaa)))))
                conds.append((f"row {i}: a value is converted as `v as f64`", implies(bnot(is_null), binop("Eq", got, I("u64", cast_int_to_float(x, "f64").v)))))
        return conds

    def random_inputs(self, rng, inst, shape):
        return {"in": [I("i64", rng.choice([(1 << 63) - 1, rnd_int(rng, "i64")])) for _ in range(shape)]}

    def parse_native(self, inst, shape, toks):
        return {"err": toks[0] == "err", "out": parse_ints(toks[1], "f64")}


# ----------------------------------------------------------------------------------------------------
# C04.f  group compaction after array aggregation: Exists, Compact, NonzeroCompact(+Nullable), NonzeroIndices
# ----------------------------------------------------------------------------------------------------
def selected_rows_post(sel, data, out, what="row"):
    """out must be exactly the rows of `data` whose sel[i] holds, in order (out has a concrete length per path)"""
    conds = []
    n = len(data)
    k = I("usize", 0)
    for i in range(n):
        for pos in range(len(out) + 1):
            here = band(sel[i], binop("Eq", k, I("usize", pos)))
            if pos < len(out):
                conds.append((f"{what} {i}, if kept as output row {pos}, is copied unchanged", implies(here, binop("Eq", out[pos], data[i]))))
            else:
                conds.append((f"{what} {i}: every kept row is in the output", bnot(here)))
        k = ite(sel[i], binop("Add", k, I("usize", 1)), k)
    conds.append(("the output has exactly one row per kept input row", binop("Eq", k, I("usize", len(out)))))
    return conds


class ExistsSpec(OpExecSpec):
    """Exists<u8>: exists[k] = 1 exactly for the group keys that occur (array sized max_index + 1)"""

    def instantiations(self, tier):
        return [{"T": "u8", "nat": "op_exists_u8"}] + ([] if tier == "quick" else [{"T": "u16", "nat": "op_exists_u16"}])

    def op_type(self, inst):
        return f"Exists<{inst['T']}>"

    def shapes(self, tier, inst):
        return [(0, 1), (2, 2), (3, 3)] if tier == "quick" else [(0, 0), (1, 1), (2, 2), (3, 3), (4, 2)]

    def sym_inputs(self, inst, shape):
        n, maxg = shape
        keys = [sym(inst["T"], f"k{i}") for i in range(n)]
        return {"keys": keys}, [z3.ULE(k.v, z3.BitVecVal(maxg, INT_W[inst["T"]])) for k in keys]

    def op_fields(self, ctx, inst):
        return {"input": bufref(ctx, 0), "max_index": bufref(ctx, 1), "output": bufref(ctx, 2)}

    def buffers(self, inst, shape, inp):
        n, maxg = shape
        b = Buffers()
        b.vec(0, inp["keys"], inst["T"])
        b.scalar(1, I("i64", maxg))
        b.vec(2, [], "u8")
        return b

    def view(self, inst, shape, value, state):
        return {"err": self.result_is_err(value), "out": self.out_vec(state, 2)}

    def post(self, inst, shape, inp, value, state=None):
        v = self.view(inst, shape, value, state) if state is not None else value
        n, maxg = shape
        conds = [("never fails", B(not v["err"])), ("one flag per possible group", B(len(v["out"]) == maxg + 1))]
        if len(v["out"]) == maxg + 1:
            for g in range(maxg + 1):
                occurs = B(False)
                for k in inp["keys"]:
                    occurs = bor(occurs, binop("Eq", k, I(inst["T"], g)))
                conds.append((f"group {g}: flag set exactly when the key occurs", binop("Eq", binop("Ne", v["out"][g], I("u8", 0)), occurs)))
        return conds

    def random_inputs(self, rng, inst, shape):
        n, maxg = shape
        return {"keys": [I(inst["T"], rng.randint(0, maxg)) for _ in range(n)]}

    def native(self, inst, shape, inp):
        if inp is None:
            return (inst["nat"], [])
        return (inst["nat"], [fmt_ints(inp["keys"]), shape[1]])

    def parse_native(self, inst, shape, toks):
        return {"err": toks[0] == "err", "out": parse_ints(toks[1], "u8")}


class CompactSpec(OpExecSpec):
    """Compact<T,U> / NonzeroCompact<T> / NonzeroCompactNullable<T>: in-place removal of the accumulator slots of groups
    that do not exist; survivors keep their order and values"""

    def instantiations(self, tier):
        return [{"kind": "compact", "T": "i64", "U": "u8", "nat": "op_compact_i64_u8"},
                {"kind": "nonzero", "T": "u32", "nat": "op_nonzero_compact_u32"},
                {"kind": "nonzero_nullable", "T": "i64", "nat": "op_nonzero_compact_nullable_i64"}]

    def op_type(self, inst):
        if inst["kind"] == "compact":
            return f"Compact<{inst['T']}, {inst['U']}>"
        return ("NonzeroCompact" if inst["kind"] == "nonzero" else "NonzeroCompactNullable") + f"<{inst['T']}>"

    def shapes(self, tier, inst):
        return [0, 1, 3] if tier == "quick" else [0, 1, 2, 3, 4, 9]

    def sym_inputs(self, inst, shape):
        n = shape
        inp = {"data": [sym(inst["T"], f"d{i}") if i < 4 else I(inst["T"], i) for i in range(n)]}
        if inst["kind"] == "compact":
            inp["select"] = [sym(inst["U"], f"s{i}") for i in range(n)]
        if inst["kind"] == "nonzero_nullable":
            inp["present"] = [sym("u8", f"p{i}") for i in range(nbytes(n))]
        return inp, []

    def op_fields(self, ctx, inst):
        if inst["kind"] == "compact":
            return {"data": bufref(ctx, 0), "select": bufref(ctx, 1), "compacted": bufref(ctx, 2)}
        return {"data": bufref(ctx, 0), "compacted": bufref(ctx, 2)}

    def buffers(self, inst, shape, inp):
        b = Buffers()
        if inst["kind"] == "nonzero_nullable":
            b.nullable(0, inp["data"], inst["T"], inp["present"])
        else:
            b.vec(0, inp["data"], inst["T"])
        if inst["kind"] == "compact":
            b.vec(1, inp["select"], inst["U"])
        return b

    def view(self, inst, shape, value, state):
        return {"err": self.result_is_err(value), "out": self.out_vec(state, 0)}

    def sel(self, inst, shape, inp):
        T = inst["T"]
        if inst["kind"] == "compact":
            return [binop("Gt", s, I(inst["U"], 0)) for s in inp["select"]]
        if inst["kind"] == "nonzero":
            return [binop("Gt", d, I(T, 0)) for d in inp["data"]]
        return [band(bit(inp["present"], i), binop("Gt", d, I(T, 0))) for i, d in enumerate(inp["data"])]

    def post(self, inst, shape, inp, value, state=None):
        v = self.view(inst, shape, value, state) if state is not None else value
        return [("never fails", B(not v["err"]))] + selected_rows_post(self.sel(inst, shape, inp), inp["data"], v["out"], "slot")

    def random_inputs(self, rng, inst, shape):
        inp, _ = self.sym_inputs(inst, shape)
        out = {}
        for k, vs in inp.items():
            out[k] = [x if x.concrete else I(x.ty, rng.choice([0, 0, 1, 2, rnd_int(rng, x.ty)]) if k != "present" else rng.randint(0, 255)) for x in vs]
        return out

    def native(self, inst, shape, inp):
        if inp is None:
            return (inst["nat"], [])
        t = [fmt_ints(inp["data"])]
        if inst["kind"] == "compact":
            t.append(fmt_ints(inp["select"]))
        if inst["kind"] == "nonzero_nullable":
            t.append(fmt_ints(inp["present"]))
        return (inst["nat"], t)

    def parse_native(self, inst, shape, toks):
        return {"err": toks[0] == "err", "out": parse_ints(toks[1], inst["T"])}


class NonzeroIndicesSpec(OpExecSpec):
    """NonzeroIndices<T,U> / NonzeroNonnullIndices<T,U>: the (offset-shifted) positions of the groups that exist, ascending;
    the operator's running offset advances by the input length"""

    def instantiations(self, tier):
        return [{"kind": "plain", "T": "u8", "U": "i64", "nat": "op_nonzero_indices_u8_i64"},
                {"kind": "nonnull", "T": "u32", "U": "i64", "nat": "op_nonzero_nonnull_indices_u32_i64"}]

    def op_type(self, inst):
        return ("NonzeroIndices" if inst["kind"] == "plain" else "NonzeroNonnullIndices") + f"<{inst['T']}, {inst['U']}>"

    def shapes(self, tier, inst):
        return [(0, 0), (3, 0), (2, 5)] if tier == "quick" else [(0, 0), (1, 0), (3, 0), (2, 5), (4, 1), (9, 0)]

    def sym_inputs(self, inst, shape):
        n, off = shape
        inp = {"in": [sym(inst["T"], f"e{i}") if i < 4 else I(inst["T"], i % 2) for i in range(n)]}
        if inst["kind"] == "nonnull":
            inp["present"] = [sym("u8", f"p{i}") for i in range(nbytes(n))]
        return inp, []

    def op_fields(self, ctx, inst):
        return {"input": bufref(ctx, 0), "output": bufref(ctx, 1), "offset": I("usize", self._off)}

    def explore(self, ctx, ex, fn, inst, shape, inp, pre):
        self._off = shape[1]
        return OpExecSpec.explore(self, ctx, ex, fn, inst, shape, inp, pre)

    def buffers(self, inst, shape, inp):
        b = Buffers()
        if inst["kind"] == "nonnull":
            b.nullable(0, inp["in"], inst["T"], inp["present"])
        else:
            b.vec(0, inp["in"], inst["T"])
        b.vec(1, [], inst["U"])
        return b

    def view(self, inst, shape, value, state):
        op = state.env["op"].v
        offs = [f for f in op.fields if isinstance(f, I)]
        return {"err": self.result_is_err(value), "out": self.out_vec(state, 1), "offset": offs[0] if offs else None}

    def post(self, inst, shape, inp, value, state=None):
        v = self.view(inst, shape, value, state) if state is not None else value
        n, off = shape
        T = inst["T"]
        sel = [binop("Gt", e, I(T, 0)) for e in inp["in"]]
        if inst["kind"] == "nonnull":
            sel = [band(s, bit(inp["present"], i)) for i, s in enumerate(sel)]
        idx = [I(inst["U"], off + i) for i in range(n)]
        conds = [("never fails", B(not v["err"]))] + selected_rows_post(sel, idx, v["out"], "position")
        conds.append(("the running offset advances by the input length", binop("Eq", v["offset"], I("usize", off + n)) if v["offset"] is not None else B(False)))
        return conds

    def random_inputs(self, rng, inst, shape):
        inp, _ = self.sym_inputs(inst, shape)
        return {k: [x if x.concrete else I(x.ty, rng.choice([0, 0, 1, 3]) if k != "present" else rng.randint(0, 255)) for x in vs] for k, vs in inp.items()}

    def native(self, inst, shape, inp):
        if inp is None:
            return (inst["nat"], [])
        t = [fmt_ints(inp["in"]), shape[1]]
        if inst["kind"] == "nonnull":
            t.append(fmt_ints(inp["present"]))
        return (inst["nat"], t)

    def parse_native(self, inst, shape, toks):
        return {"err": toks[0] == "err", "out": parse_ints(toks[1], inst["U"]), "offset": I("usize", int(toks[2]))}
