"""More vectorised operator `execute` loops run from their MIR (scratchpad accessors as stubs; see operators.py):
C03.d  BinaryOperator / BinaryVSOperator / BinarySVOperator with comparison and boolean kernels, IsNull / IsNotNull,
       CombineNullMaps, MapOperator<BooleanNot>
C06.d  CheckedBinary{,VS,SV}Operator (non-nullable) and the widening TypeConversionOperator
"""
import re

import z3

from .common import *
from ..mirsym import interp
from ..mirsym.values import cast_int
from .operators import OpExecSpec, Buffers, bufref, nbytes, bit, OPS


def phantom():
    return Agg("struct", [], name="PhantomData")


def concretise(inp, rng):
    return {k: [x if x.concrete else I(x.ty, rng.randint(0, 255) if x.ty == "u8" else rnd_int(rng, x.ty)) for x in v] for k, v in inp.items()}


CMPS = {"lt": ("LessThan", "Lt"), "le": ("LessThanEquals", "Le"), "eq": ("Equals", "Eq"), "ne": ("NotEquals", "Ne")}


class BinaryLoopSpec(OpExecSpec):
    """Binary{,VS,SV}Operator<L,R,u8,Op>::execute: one output per row, out[i] = (l[i] OP r[i]) on the mathematical values
    (operands of different widths are compared as integers, not as truncated bit patterns)"""

    def instantiations(self, tier):
        out = []
        combos = [("VV", "lt", "i64", "i64"), ("VS", "lt", "u8", "i64"), ("SV", "le", "i64", "u16"), ("VS", "eq", "u32", "i64"), ("VV", "ne", "u8", "u8")]
        if tier == "thorough":
            combos += [("VV", "le", "u16", "u32"), ("VS", "ne", "i64", "i64"), ("SV", "lt", "i64", "u32"), ("VS", "le", "u16", "i64"), ("VV", "eq", "i64", "i64")]
        for form, op, lt, rt in combos:
            out.append({"form": form, "op": op, "L": lt, "R": rt, "nat": f"op_binary_{form}_{op}_{lt}_{rt}"})
        for op in ("or", "and"):
            out.append({"form": "VV", "op": op, "L": "u8", "R": "u8", "nat": f"op_binary_VV_{op}_u8_u8"})
        return out

    def op_type(self, inst):
        name = {"VV": "BinaryOperator", "VS": "BinaryVSOperator", "SV": "BinarySVOperator"}[inst["form"]]
        kern = {"or": "BoolOr", "and": "BoolAnd"}.get(inst["op"]) or CMPS[inst["op"]][0]
        return f"{name}<{inst['L']}, {inst['R']}, u8, {kern}>"

    def shapes(self, tier, inst):
        return [0, 2] if tier == "quick" else [0, 1, 2, 3, 5]

    def sym_inputs(self, inst, shape):
        n = shape
        mk = lambda nm, ty, k: [sym(ty, f"{nm}{i}") if i < 3 else I(ty, i) for i in range(k)]
        return {"l": mk("l", inst["L"], 1 if inst["form"] == "SV" else n), "r": mk("r", inst["R"], 1 if inst["form"] == "VS" else n)}, []

    def op_fields(self, ctx, inst):
        return {"lhs": bufref(ctx, 0), "rhs": bufref(ctx, 1), "output": bufref(ctx, 2), "op": phantom()}

    def buffers(self, inst, shape, inp):
        b = Buffers()
        if inst["form"] == "SV":
            b.scalar(0, inp["l"][0])
        else:
            b.vec(0, inp["l"], inst["L"])
        if inst["form"] == "VS":
            b.scalar(1, inp["r"][0])
        else:
            b.vec(1, inp["r"], inst["R"])
        b.vec(2, [], "u8")
        return b

    def view(self, inst, shape, value, state):
        return {"err": self.result_is_err(value), "out": self.out_vec(state, 2)}

    def post(self, inst, shape, inp, value, state=None):
        v = self.view(inst, shape, value, state) if state is not None else value
        n = shape
        conds = [("never fails", B(not v["err"])), ("one output per row", B(len(v["out"]) == n))]
        if len(v["out"]) != n:
            return conds
        for i in range(n):
            l = inp["l"][0] if inst["form"] == "SV" else inp["l"][i]
            r = inp["r"][0] if inst["form"] == "VS" else inp["r"][i]
            if inst["op"] in ("or", "and"):
                want = binop("BitOr" if inst["op"] == "or" else "BitAnd", l, r)
                conds.append((f"row {i}: boolean {inst['op']} of the two filter bytes", binop("Eq", v["out"][i], want)))
            else:
                # reference: compare as 128-bit mathematical integers
                lw, rw = cast_int(l, "i128"), cast_int(r, "i128")
                want = binop(CMPS[inst["op"]][1], lw, rw)
                conds.append((f"row {i}: 1 exactly when l {inst['op']} r holds on the integer values", binop("Eq", v["out"][i], ite(want, I("u8", 1), I("u8", 0)))))
        return conds

    def random_inputs(self, rng, inst, shape):
        return concretise(self.sym_inputs(inst, shape)[0], rng)

    def native(self, inst, shape, inp):
        if inp is None:
            return (inst["nat"], [])
        return (inst["nat"], [fmt_ints(inp["l"]), fmt_ints(inp["r"])])

    def parse_native(self, inst, shape, toks):
        return {"err": toks[0] == "err", "out": parse_ints(toks[1], "u8")}


class CheckedLoopSpec(OpExecSpec):
    """CheckedBinary{,VS,SV}Operator<i64,i64,i64,Op>::execute: Err(Overflow) iff some row overflows, else exact results"""

    def instantiations(self, tier):
        out = []
        for form in ("VV", "VS", "SV"):
            for op in (("add", "sub") if tier == "quick" else ("add", "sub", "mul")):
                if form == "SV" and op == "add":
                    continue
                out.append({"form": form, "op": op, "nat": f"op_checked_{form}_{op}"})
        return out

    def op_type(self, inst):
        k = OPS[inst["op"]][0]
        kern = f"{k}<i64, i64>" if inst["op"] != "mul" else f"{k}<i64, i64, i64>"
        name = {"VV": "CheckedBinaryOperator", "VS": "CheckedBinaryVSOperator", "SV": "CheckedBinarySVOperator"}[inst["form"]]
        return f"{name}<i64, i64, i64, {kern}>"

    def shapes(self, tier, inst):
        return [0, 2] if tier == "quick" else [0, 1, 2, 3]

    def sym_inputs(self, inst, shape):
        n = shape
        mk = lambda nm, k: [sym("i64", f"{nm}{i}") if i < 3 else I("i64", i) for i in range(k)]
        return {"l": mk("l", 1 if inst["form"] == "SV" else n), "r": mk("r", 1 if inst["form"] == "VS" else n)}, []

    def op_fields(self, ctx, inst):
        return {"lhs": bufref(ctx, 0), "rhs": bufref(ctx, 1), "output": bufref(ctx, 2), "op": phantom()}

    def buffers(self, inst, shape, inp):
        b = Buffers()
        if inst["form"] == "SV":
            b.scalar(0, inp["l"][0])
        else:
            b.vec(0, inp["l"], "i64")
        if inst["form"] == "VS":
            b.scalar(1, inp["r"][0])
        else:
            b.vec(1, inp["r"], "i64")
        b.vec(2, [], "i64")
        return b

    def view(self, inst, shape, value, state):
        return {"err": self.result_is_err(value), "out": self.out_vec(state, 2)}

    def post(self, inst, shape, inp, value, state=None):
        v = self.view(inst, shape, value, state) if state is not None else value
        n = shape
        anyovf = B(False)
        conds = []
        for i in range(n):
            l = inp["l"][0] if inst["form"] == "SV" else inp["l"][i]
            r = inp["r"][0] if inst["form"] == "VS" else inp["r"][i]
            res = binop(OPS[inst["op"]][1], l, r)
            anyovf = bor(anyovf, res.fields[1])
            if not v["err"] and len(v["out"]) == n:
                conds.append((f"row {i}: exact result", binop("Eq", v["out"][i], res.fields[0])))
        if v["err"]:
            conds.append(("Err(Overflow) only when a row overflows", anyovf))
        else:
            conds.append(("Ok only when no row overflows (never a silently wrapped value)", bnot(anyovf)))
            conds.append(("one output per row", B(len(v["out"]) == n)))
        return conds

    def random_inputs(self, rng, inst, shape):
        return concretise(self.sym_inputs(inst, shape)[0], rng)

    def native(self, inst, shape, inp):
        if inp is None:
            return (inst["nat"], [])
        return (inst["nat"], [fmt_ints(inp["l"]), fmt_ints(inp["r"])])

    def parse_native(self, inst, shape, toks):
        return {"err": toks[0] == "err", "out": parse_ints(toks[1], "i64")}


class IsNullSpec(OpExecSpec):
    """IsNull / IsNotNull: out[i] = 1 exactly when row i is NULL (resp. present), one byte per row"""

    def instantiations(self, tier):
        return [{"which": "IsNull", "nat": "op_is_null"}, {"which": "IsNotNull", "nat": "op_is_not_null"}]

    def op_type(self, inst):
        return inst["which"]

    def shapes(self, tier, inst):
        return [0, 3, 9] if tier == "quick" else [0, 1, 3, 8, 9, 17]

    def sym_inputs(self, inst, shape):
        return {"present": [sym("u8", f"p{i}") for i in range(nbytes(shape))]}, []

    def op_fields(self, ctx, inst):
        return {"input": bufref(ctx, 0), "is_null" if inst["which"] == "IsNull" else "is_not_null": bufref(ctx, 1)}

    def buffers(self, inst, shape, inp):
        b = Buffers()
        b.nullable(0, [I("i64", i) for i in range(shape)], "i64", inp["present"])
        b.vec(1, [], "u8")
        return b

    def view(self, inst, shape, value, state):
        return {"err": self.result_is_err(value), "out": self.out_vec(state, 1)}

    def post(self, inst, shape, inp, value, state=None):
        v = self.view(inst, shape, value, state) if state is not None else value
        conds = [("never fails", B(not v["err"])), ("one output per row", B(len(v["out"]) == shape))]
        if len(v["out"]) == shape:
            for i in range(shape):
                p = bit(inp["present"], i)
                want = ite(p, I("u8", 0 if inst["which"] == "IsNull" else 1), I("u8", 1 if inst["which"] == "IsNull" else 0))
                conds.append((f"row {i}: flag follows the presence bit", binop("Eq", v["out"][i], want)))
        return conds

    def random_inputs(self, rng, inst, shape):
        return concretise(self.sym_inputs(inst, shape)[0], rng)

    def native(self, inst, shape, inp):
        if inp is None:
            return (inst["nat"], [])
        return (inst["nat"], [shape, fmt_ints(inp["present"])])

    def parse_native(self, inst, shape, toks):
        return {"err": toks[0] == "err", "out": parse_ints(toks[1], "u8")}


class CombineNullMapsSpec(OpExecSpec):
    """CombineNullMaps: row i of the result is present exactly when it is present on both sides"""

    def instantiations(self, tier):
        return [{"nat": "op_combine_null_maps"}]

    def op_type(self, inst):
        return "CombineNullMaps"

    def shapes(self, tier, inst):
        return [0, 3, 9] if tier == "quick" else [0, 1, 8, 9, 16, 17]

    def sym_inputs(self, inst, shape):
        k = nbytes(shape)
        return {"l": [sym("u8", f"l{i}") for i in range(k)], "r": [sym("u8", f"r{i}") for i in range(k)]}, []

    def op_fields(self, ctx, inst):
        return {"lhs": bufref(ctx, 0), "rhs": bufref(ctx, 1), "output": bufref(ctx, 2)}

    def buffers(self, inst, shape, inp):
        b = Buffers()
        data = [I("i64", i) for i in range(shape)]
        b.nullable(0, data, "i64", inp["l"])
        b.nullable(1, list(data), "i64", inp["r"])
        b.vec(2, [I("u8", 0) for _ in range(nbytes(shape))], "u8")       # what init() allocates: ceil(n/8) zero bytes
        return b

    def view(self, inst, shape, value, state):
        return {"err": self.result_is_err(value), "out": self.out_vec(state, 2)}

    def post(self, inst, shape, inp, value, state=None):
        v = self.view(inst, shape, value, state) if state is not None else value
        conds = [("never fails", B(not v["err"])), ("the combined map covers every row", B(len(v["out"]) * 8 >= shape))]
        if len(v["out"]) * 8 >= shape:
            for i in range(shape):
                conds.append((f"row {i}: present iff present on both sides", binop("Eq", bit(v["out"], i), band(bit(inp["l"], i), bit(inp["r"], i)))))
        return conds

    def random_inputs(self, rng, inst, shape):
        return concretise(self.sym_inputs(inst, shape)[0], rng)

    def native(self, inst, shape, inp):
        if inp is None:
            return (inst["nat"], [])
        return (inst["nat"], [shape, fmt_ints(inp["l"]), fmt_ints(inp["r"])])

    def parse_native(self, inst, shape, toks):
        return {"err": toks[0] == "err", "out": parse_ints(toks[1], "u8")}


WIDEN = [("u8", "i64"), ("u16", "i64"), ("u32", "i64"), ("u8", "u32"), ("u16", "u32"), ("u8", "u16")]


class TypeConversionSpec(OpExecSpec):
    """TypeConversionOperator<T,U> for the widening conversions the planner inserts before arithmetic and merging:
    the value is preserved (zero extension), one output per row"""

    def instantiations(self, tier):
        return [{"T": t, "U": u, "nat": f"op_cast_{t}_{u}"} for t, u in (WIDEN[:3] if tier == "quick" else WIDEN)]

    def op_type(self, inst):
        return f"TypeConversionOperator<{inst['T']}, {inst['U']}>"

    def shapes(self, tier, inst):
        return [0, 2] if tier == "quick" else [0, 1, 3]

    def sym_inputs(self, inst, shape):
        return {"in": [sym(inst["T"], f"v{i}") for i in range(shape)]}, []

    def op_fields(self, ctx, inst):
        return {"input": bufref(ctx, 0), "output": bufref(ctx, 1)}

    def buffers(self, inst, shape, inp):
        b = Buffers()
        b.vec(0, inp["in"], inst["T"])
        b.vec(1, [], inst["U"])
        return b

    def view(self, inst, shape, value, state):
        return {"err": self.result_is_err(value), "out": self.out_vec(state, 1)}

    def post(self, inst, shape, inp, value, state=None):
        v = self.view(inst, shape, value, state) if state is not None else value
        conds = [("never fails", B(not v["err"])), ("one output per row", B(len(v["out"]) == shape))]
        if len(v["out"]) == shape:
            for i in range(shape):
                conds.append((f"row {i}: value preserved", binop("Eq", cast_int(v["out"][i], "i128"), cast_int(inp["in"][i], "i128"))))
        return conds

    def random_inputs(self, rng, inst, shape):
        return {"in": [I(inst["T"], rnd_int(rng, inst["T"])) for _ in range(shape)]}

    def native(self, inst, shape, inp):
        if inp is None:
            return (inst["nat"], [])
        return (inst["nat"], [fmt_ints(inp["in"])])

    def parse_native(self, inst, shape, toks):
        return {"err": toks[0] == "err", "out": parse_ints(toks[1], inst["U"])}
