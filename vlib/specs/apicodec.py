"""C16.a : integer response codec of locustdb-serialization::api (delta / double-delta / range selection)"""
import z3

from .common import *
from ..mirsym import interp
from ..mirsym.values import INT_W

I128 = "i128"


def wide(x):
    from ..mirsym.values import cast_int
    return cast_int(x, I128)


def ref_deltas(ints):
    ds = [binop("Sub", wide(b), wide(a)) for a, b in zip(ints, ints[1:])]
    dds = [binop("Sub", b, a) for a, b in zip(ds, ds[1:])]
    return ds, dds


def fold(op, xs):
    acc = xs[0]
    for x in xs[1:]:
        acc = ite(binop(op, x, acc), x, acc)
    return acc


class DeltaStatsSpec(KernelSpec):
    """determine_delta_compressability(ints): exact min/max of first and second differences (computed in i128), no panic"""
    fn_path = "api::determine_delta_compressability"
    dumps = ("ser",)
    diff_cases = 0

    def instantiations(self, tier):
        return [{"nat": "api_roundtrip_ints"}]

    def shapes(self, tier, inst):
        return [0, 1, 2, 3] if tier == "quick" else [0, 1, 2, 3, 4, 5]

    def sym_inputs(self, inst, shape):
        return {"ints": [sym("i64", f"x{i}") for i in range(shape)]}, []

    def make_args(self, inst, shape, inp):
        return [slice_arg(inp["ints"])]

    def post(self, inst, shape, inp, value, state=None):
        if isinstance(value, tuple) and value[0] == "roundtrip":
            ok, got = value[1], value[2]
            conds = [("serialize -> deserialize of an Int column answers", B(ok))]
            if ok:
                conds.append(("same length", B(len(got) == len(inp["ints"]))))
                if len(got) == len(inp["ints"]):
                    for i, (a, b) in enumerate(zip(got, inp["ints"])):
                        conds.append((f"value {i} survives the wire", binop("Eq", a, b)))
            return conds
        ints = inp["ints"]
        mn, mx, mn2, mx2 = value.fields
        I128MIN, I128MAX = I(I128, -(1 << 127)), I(I128, (1 << 127) - 1)
        if len(ints) < 2:
            return [("sentinel stats for < 2 values (no delta coding)", band(binop("Eq", mn, I128MIN), binop("Eq", mx, I128MAX)))]
        ds, dds = ref_deltas(ints)
        conds = [("min_delta is the exact minimum difference", binop("Eq", mn, fold("Lt", ds))),
                 ("max_delta is the exact maximum difference", binop("Eq", mx, fold("Gt", ds)))]
        if dds:
            conds += [("min_delta_delta exact", binop("Eq", mn2, fold("Lt", dds))), ("max_delta_delta exact", binop("Eq", mx2, fold("Gt", dds)))]
        return conds

    # counterexamples are replayed on the public QueryResponse::serialize -> deserialize round trip
    def random_inputs(self, rng, inst, shape):
        return None

    def native(self, inst, shape, inp):
        if inp is None:
            return None
        return ("api_roundtrip_ints", [fmt_ints(inp["ints"])])

    def parse_native(self, inst, shape, toks):
        if toks[0] == "err":
            return ("roundtrip", False, [])
        return ("roundtrip", True, parse_ints(toks[1], "i64"))

    def panic_ok(self, inst, shape, inp, msg):
        return B(False)


TYS = {"i8": 8, "i16": 16, "i32": 32}


class DeltaEncodeSpec(KernelSpec):
    """delta_encode::<T>(ints) under the caller's guard (every difference fits T): out[i] == ints[i+1] - ints[i], and the
    documented decode (prefix sums from ints[0]) reproduces ints"""
    fn_path = "api::delta_encode"
    dumps = ("ser",)
    diff_cases = 0
    double = False

    def instantiations(self, tier):
        return [{"T": t, "nat": "api_roundtrip_ints"} for t in (("i8", "i32") if tier == "quick" else ("i8", "i16", "i32"))]

    def shapes(self, tier, inst):
        lo = 2 if self.double else 1
        return list(range(lo, 4 if tier == "quick" else 6))

    def sym_inputs(self, inst, shape):
        ints = [sym("i64", f"x{i}") for i in range(shape)]
        w = TYS[inst["T"]]
        lo, hi = I(I128, -(1 << (w - 1))), I(I128, (1 << (w - 1)) - 1)
        ds, dds = ref_deltas(ints)
        pre = []
        for d in (dds if self.double else ds):
            pre += [binop("Ge", d, lo).z(), binop("Le", d, hi).z()]
        if self.double:
            # the caller only selects double-delta coding when every first difference is representable in i64
            for d in ds:
                pre += [binop("Ge", d, I(I128, -(1 << 63))).z(), binop("Le", d, I(I128, (1 << 63) - 1)).z()]
        return {"ints": ints}, pre

    def make_args(self, inst, shape, inp):
        return [slice_arg(inp["ints"])]

    def post(self, inst, shape, inp, value, state=None):
        if isinstance(value, tuple) and value[0] == "roundtrip":
            return DeltaStatsSpec.post(self, inst, shape, inp, value, state)
        ints = inp["ints"]
        out = elems_of(value)
        ds, dds = ref_deltas(ints)
        want = dds if self.double else ds
        conds = [("one code per difference", B(len(out) == len(want)))]
        if len(out) == len(want):
            for i, (o, d) in enumerate(zip(out, want)):
                conds.append((f"code {i} is the exact difference", binop("Eq", wide(o), d)))
        return conds

    def random_inputs(self, rng, inst, shape):
        return None

    def native(self, inst, shape, inp):
        if inp is None:
            return None
        return ("api_roundtrip_ints", [fmt_ints(inp["ints"])])

    def parse_native(self, inst, shape, toks):
        if toks[0] == "err":
            return ("roundtrip", False, [])
        return ("roundtrip", True, parse_ints(toks[1], "i64"))


class DoubleDeltaEncodeSpec(DeltaEncodeSpec):
    fn_path = "api::double_delta_encode"
    double = True
