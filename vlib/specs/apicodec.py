"""C16.a : integer response codec of locustdb-serialization::api (delta / double-delta / range selection)"""
import z3

from .common import *
from ..mirsym import interp
from ..mirsym.values import INT_W

I128 = "i128"


def wide(x):
    from ..mirsym.values import cast_int
    return cast_int(x, I128)


def ref_deltas(ints):
    ds = [binop("Sub", wide(b), wide(a)) for a, b in zip(ints, ints[1:])]
    dds = [binop("Sub", b, a) for a, b in zip(ds, ds[1:])]
    return ds, dds


def fold(op, xs):
    acc = xs[0]
    for x in xs[1:]:
        acc = ite(binop(op, x, acc), x, acc)
    return acc


class DeltaStatsSpec(KernelSpec):
    """determine_delta_compressability(ints): exact min/max of first and second differences (computed in i128), no panic"""
    fn_path = "api::determine_delta_compressability"
    dumps = ("ser",)
    diff_cases = 0

    def instantiations(self, tier):
        return [{"nat": "api_roundtrip_ints"}]

    def shapes(self, tier, inst):
        return [0, 1, 2, 3] if tier == "quick" else [0, 1, 2, 3, 4, 5]

    def sym_inputs(self, inst, shape):
        return {"ints": [sym("i64", f"x{i}") for i in range(shape)]}, []

    def make_args(self, inst, shape, inp):
        return [slice_arg(inp["ints"])]

    def post(self, inst, shape, inp, value, state=None):
        if isinstance(value, tuple) and value[0] == "roundtrip":
            ok, got = value[1], value[2]
            conds = [("serialize -> deserialize of an Int column answers", B(ok))]
            if ok:
                conds.append(("same length", B(len(got) == len(inp["ints"]))))
                if len(got) == len(inp["ints"]):
                    for i, (a, b) in enumerate(zip(got, inp["ints"])):
                        conds.append((f"value {i} survives the wire", binop("Eq", a, b)))
            return conds
        ints = inp["ints"]
        mn, mx, mn2, mx2 = value.fields
        I128MIN, I128MAX = I(I128, -(1 << 127)), I(I128, (1 << 127) - 1)
        if len(ints) < 2:
            return [("sentinel stats for < 2 values (no delta coding)", band(binop("Eq", mn, I128MIN), binop("Eq", mx, I128MAX)))]
        ds, dds = ref_deltas(ints)
        conds = [("min_delta is the exact minimum difference", binop("Eq", mn, fold("Lt", ds))),
                 ("max_delta is the exact maximum difference", binop("Eq", mx, fold("Gt", ds)))]
        if dds:
            conds += [("min_delta_delta exact", binop("Eq", mn2, fold("Lt", dds))), ("max_delta_delta exact", binop("Eq", mx2, fold("Gt", dds)))]
        return conds

    # counterexamples are replayed on the public QueryResponse::serialize -> deserialize round trip
    def random_inputs(self, rng, inst, shape):
        return None

    def native(self, inst, shape, inp):
        if inp is None:
            return None
        return ("api_roundtrip_ints", [fmt_ints(inp["ints"])])

    def parse_native(self, inst, shape, toks):
        if toks[0] == "err":
            return ("roundtrip", False, [])
        return ("roundtrip", True, parse_ints(toks[1], "i64"))

    def panic_ok(self, inst, shape, inp, msg):
        return B(False)


TYS = {"i8": 8, "i16": 16, "i32": 32}


class DeltaEncodeSpec(KernelSpec):
    """delta_encode::<T>(ints) under the caller's guard (every difference fits T): out[i] == ints[i+1] - ints[i], and the
    documented decode (prefix sums from ints[0]) reproduces ints"""
    fn_path = "api::delta_encode"
    dumps = ("ser",)
    diff_cases = 0
    double = False

    def instantiations(self, tier):
        return [{"T": t, "nat": "api_roundtrip_ints"} for t in (("i8", "i32") if tier == "quick" else ("i8", "i16", "i32"))]

    def shapes(self, tier, inst):
        lo = 2 if self.double else 1
        return list(range(lo, 4 if tier == "quick" else 6))

    def sym_inputs(self, inst, shape):
        ints = [sym("i64", f"x{i}") for i in range(shape)]
        w = TYS[inst["T"]]
        lo, hi = I(I128, -(1 << (w - 1))), I(I128, (1 << (w - 1)) - 1)
        ds, dds = ref_deltas(ints)
        pre = []
        for d in (dds if self.double else ds):
            pre += [binop("Ge", d, lo).z(), binop("Le", d, hi).z()]
        if self.double:
            # the caller only selects double-delta coding when every first difference is representable in i64
            for d in ds:
                pre += [binop("Ge", d, I(I128, -(1 << 63))).z(), binop("Le", d, I(I128, (1 << 63) - 1)).z()]
        return {"ints": ints}, pre

    def make_args(self, inst, shape, inp):
        return [slice_arg(inp["ints"])]

    def post(self, inst, shape, inp, value, state=None):
        if isinstance(value, tuple) and value[0] == "roundtrip":
            return DeltaStatsSpec.post(self, inst, shape, inp, value, state)
        ints = inp["ints"]
        out = elems_of(value)
        ds, dds = ref_deltas(ints)
        want = dds if self.double else ds
        conds = [("one code per difference", B(len(out) == len(want)))]
        if len(out) == len(want):
            for i, (o, d) in enumerate(zip(out, want)):
                conds.append((f"code {i} is the exact difference", binop("Eq", wide(o), d)))
        return conds

    def random_inputs(self, rng, inst, shape):
        return None

    def native(self, inst, shape, inp):
        if inp is None:
            return None
        return ("api_roundtrip_ints", [fmt_ints(inp["ints"])])

    def parse_native(self, inst, shape, toks):
        if toks[0] == "err":
            return ("roundtrip", False, [])
        return ("roundtrip", True, parse_ints(toks[1], "i64"))


class DoubleDeltaEncodeSpec(DeltaEncodeSpec):
    fn_path = "api::double_delta_encode"
    double = True


# ----------------------------------------------------------------------------------------------------
# the branch chain of Column::serialize_builder for integer columns (capnp builders as recording stubs)
# ----------------------------------------------------------------------------------------------------
import re as _re
from ..mirsym.values import Opaque, UNIT, Havoc
from ..mirsym.models import seq_of


def builder_stubs():
    def passthru(tag):
        def f(ex, st, fr, path, args, m):
            return Opaque(tag)
        return f

    def init(ex, st, fr, path, args, m):
        st.env.setdefault("wire", {})["kind"] = m.group(1)
        return Opaque("builder:" + m.group(1))

    def setter(ex, st, fr, path, args, m):
        w = st.env.setdefault("wire", {})
        name = m.group(1)
        v = args[1]
        if name in ("data", "i64"):
            el, lo, hi = seq_of(v)
            v = list(el[lo:hi])
            if name == "i64":
                w["kind"] = "i64"
            w["data"] = v
            return Agg("enum", [UNIT], name="Result", variant="Ok")
        w[name] = v
        return UNIT
    return [(_re.compile(r"column::Builder(?:::<.*>)?::(reborrow|init_data)$"), passthru("column builder")),
            (_re.compile(r"column::Builder(?:::<.*>)?::set_name::<"), lambda ex, st, fr, path, args, m: UNIT),
            (_re.compile(r"column::data::Builder(?:::<.*>)?::init_(range|delta_encoded_i8|delta_encoded_i16|delta_encoded_i32|double_delta_encoded_i8|double_delta_encoded_i16|double_delta_encoded_i32)$"), init),
            (_re.compile(r"(?:range|delta_encoded_i\d+|double_delta_encoded_i\d+)::Builder(?:::<.*>)?::set_(start|len|step|first|second|data)(?:::<.*>)?$"), setter),
            (_re.compile(r"column::data::Builder(?:::<.*>)?::set_(i64)::<"), setter)]


def wire_decode(w):
    """reference semantics of the integer wire representations -> list of I(i64) (None if not an integer representation)"""
    k = w.get("kind")
    if k == "i64":
        return list(w["data"])
    if k == "range":
        n = w["len"]
        if not n.concrete:
            return None
        return [binop("Add", w["start"], binop("Mul", I("i64", i), w["step"])) for i in range(n.v)]
    if k and k.startswith("delta_encoded"):
        out = [w["first"]]
        for d in w["data"]:
            out.append(binop("Add", out[-1], cast_int_(d)))
        return out
    if k and k.startswith("double_delta_encoded"):
        out = [w["first"], w["second"]]
        delta = binop("Sub", w["second"], w["first"])
        for d in w["data"]:
            delta = binop("Add", delta, cast_int_(d))
            out.append(binop("Add", out[-1], delta))
        return out
    return None


def cast_int_(x):
    from ..mirsym.values import cast_int
    return cast_int(x, "i64")


class SerializeIntColumnSpec(KernelSpec):
    """Column::Int(xs).serialize_builder: whatever representation the branch chain picks (range / delta i8,i16,i32 /
    double-delta i8,i16,i32 / plain i64) decodes back to xs by the wire format's semantics; the encoders it calls never panic"""
    method = ("Column", None, "serialize_builder")
    dumps = ("ser",)
    diff_cases = 0

    def instantiations(self, tier):
        return [{"nat": "api_roundtrip_ints"}]

    def shapes(self, tier, inst):
        return [0, 1, 2, 3] if tier == "quick" else [0, 1, 2, 3, 4]

    def sym_inputs(self, inst, shape):
        return {"ints": [sym("i64", f"x{i}") for i in range(shape)]}, []

    def explore(self, ctx, ex, fn, inst, shape, inp, pre):
        ex.stubs = builder_stubs()
        col = Agg("enum", [VecObj(list(inp["ints"]), "i64")], name="Column", variant="Int")
        from .routing import str_ref
        st = ex.start(fn, [Ref(Cell(col)), str_ref([I("u8", 120)]), Ref(Cell(Opaque("column builder")), (), None, False, True)], {}, pc=pre)
        return ex.explore(st)

    def post(self, inst, shape, inp, value, state=None):
        if isinstance(value, tuple) and value[0] == "roundtrip":
            return DeltaStatsSpec.post(self, inst, shape, inp, value, state)
        w = state.env.get("wire", {})
        dec = wire_decode(w)
        conds = [("an integer wire representation is chosen", B(dec is not None))]
        if dec is None:
            return conds
        ints = inp["ints"]
        if w.get("kind") in ("range",) and len(ints) < 1:
            return conds + [("range needs a first element", B(False))]
        conds.append((f"representation '{w.get('kind')}' has one value per row", B(len(dec) == len(ints))))
        if len(dec) == len(ints):
            # exactness in Z: the wire arithmetic (i64 additions on the decoding side) must not overflow either
            from ..mirsym.values import cast_int
            for i, (d, x) in enumerate(zip(dec, ints)):
                conds.append((f"value {i} decodes back exactly ({w.get('kind')})", binop("Eq", d, x)))
            if w.get("kind", "").startswith("double_delta"):
                s = binop("SubWithOverflow", w["second"], w["first"])
                conds.append(("double-delta decoding does not overflow in second - first", bnot(s.fields[1])))
        return conds

    def random_inputs(self, rng, inst, shape):
        return None

    def native(self, inst, shape, inp):
        if inp is None:
            return None
        return ("api_roundtrip_ints", [fmt_ints(inp["ints"])])

    def parse_native(self, inst, shape, toks):
        if toks[0] == "err":
            return ("roundtrip", False, [])
        return ("roundtrip", True, parse_ints(toks[1], "i64"))
