"""Planner arithmetic slices.

C04.j/group_key_width   compile_grouping_key (single GROUP BY column): from the block after `encoding_range(..)` to the
call of `QueryPlanner::fuse_int_nulls`: the key handed to FuseIntNulls has an integer type wide enough for
`max + offset`, and the offset is the one C04.j/fuse_int_nulls assumes (-min + 1 if min <= 0, else 0).
"""
import re

import z3

from .common import *
from ..mirsym import interp
from ..mirsym.values import Havoc, Opaque, UNIT
from .operators import bufref

TYPE_MAX = {"U8": 255, "U16": 65535, "U32": (1 << 32) - 1, "I64": (1 << 63) - 1, "U64": (1 << 63) - 1}


def enc(variant):
    return Agg("enum", [], name="EncodingType", variant=variant)


def tbr(ctx, variant, i=7):
    fs = ctx.src().struct_fields("TypedBufferRef")
    vals = {"buffer": bufref(ctx, i), "tag": enc(variant)}
    if sorted(fs) != sorted(vals):
        raise interp.Unsupported(f"TypedBufferRef fields changed: {fs}")
    return Agg("struct", [vals[f] for f in fs], name="TypedBufferRef")


class GroupKeyWidthSpec(KernelSpec):
    fn_path = "planning::query_plan::compile_grouping_key"
    diff_cases = 0

    def get_fn(self, ctx, inst):
        ex = ctx.executor(self.dumps)
        cands = [f for k, f in ex.lookup_fn("compile_grouping_key") if f.kind == "fn"]
        if len(cands) != 1:
            raise interp.Unsupported(f"compile_grouping_key: {len(cands)} candidates in the MIR of the current tree")
        return cands[0].parse()

    def instantiations(self, tier):
        return [{"tag": t} for t in ("NullableU8", "NullableU16", "NullableU32", "NullableI64")]

    def shapes(self, tier, inst):
        return ["some"]

    def native(self, inst, shape, inp):
        return None

    def random_inputs(self, rng, inst, shape):
        return None

    def sym_inputs(self, inst, shape):
        mn, mx = sym("i64", "min"), sym("i64", "max")
        base = inst["tag"].replace("Nullable", "")
        pre = [mn.v <= mx.v, mn.v > -(1 << 62), mx.v < (1 << 62)]
        if base != "I64":
            # encoding range of a T-encoded column section lies within T
            pre += [mn.v >= 0, mx.v <= TYPE_MAX[base]]
        return {"min": mn, "max": mx}, pre

    def explore(self, ctx, ex, fn, inst, shape, inp, pre):
        fn.parse()
        dbg = {}
        for local, name in fn.debug.items():
            dbg.setdefault(name, local)
        for need in ("gk_plan", "encoding_range", "planner"):
            if need not in dbg:
                raise interp.Unsupported(f"compile_grouping_key: no local named {need} in the current source")
        calls = ex.find_call_block(fn, r"(?:^|::)encoding_range$")
        calls = [(b, t) for b, t in calls if t.a["dest"].local == dbg["encoding_range"] and not t.a["dest"].proj]
        if len(calls) != 1:
            raise interp.Unsupported(f"compile_grouping_key: expected one `encoding_range = encoding_range(..)` call, found {len(calls)}")
        start = calls[0][1].a["target"]
        rng_val = Agg("enum", [Agg("tuple", [inp["min"], inp["max"]])], name="Option", variant="Some")
        gk = tbr(ctx, inst["tag"])

        def stop(kind):
            def f(ex_, st, fr, path, args, m):
                raise interp.StopSlice((kind, args))
            return f

        def cast(ex_, st, fr, path, args, m):
            # #[output(t = "base=provided;null=input")]: the provided base type, nullable iff the input is
            src, want = args[1], args[2]
            src_tag = src.fields[ctx.src().struct_fields("TypedBufferRef").index("tag")].variant
            base = want.variant.replace("Nullable", "")
            return tbr(ctx, ("Nullable" + base) if src_tag.startswith("Nullable") else base, 8)
        Q = r"QueryPlanner>::"
        ex.stubs = [(re.compile(Q + r"fuse_int_nulls$"), stop("fuse_int_nulls")), (re.compile(Q + r"cast$"), cast),
                    (re.compile(Q + r"(fuse_nulls|scalar_i64|add|unfuse_int_nulls|unfuse_nulls)$"), stop("other")),
                    (re.compile(r"named_buffer$"), stop("other"))]
        ex.prune_unreachable = True
        ex.havoc_unknown_calls = True
        # the small pure helpers on TypedBufferRef / EncodingType and the guard closure are executed from their own MIR
        ex.inline_in_slices = lambda f: bool(re.search(r"::(is_nullable|non_nullable)$|\{closure", f.name))
        init = {dbg["gk_plan"]: gk, dbg["encoding_range"]: rng_val, dbg["planner"]: Ref(Cell(Opaque("planner")), (), None, False, True)}
        if "original_plan" in dbg:
            init[dbg["original_plan"]] = gk
        st = ex.start_at(fn, start, init, {}, pc=pre)
        outs = ex.explore(st)
        if not any((o.kind == "stop" and o.value[0] == "fuse_int_nulls") or o.kind == "panic" for o in outs):
            raise interp.Unsupported("group key slice: the fuse_int_nulls call was not reached (vacuous)")
        self._ctx = ctx
        return outs

    def post_stop(self, inst, shape, inp, o):
        kind, args = o.value
        if kind != "fuse_int_nulls":
            return [("a nullable integer key with a known encoding range is fused with FuseIntNulls", B(False))]
        offset, plan = args[1], args[2]
        fs = self._ctx.src().struct_fields("TypedBufferRef")
        tag = plan.fields[fs.index("tag")].variant
        mn, mx = inp["min"], inp["max"]
        want_off = ite(binop("Le", mn, I("i64", 0)), binop("Add", binop("Sub", I("i64", 0), mn), I("i64", 1)), I("i64", 0))
        conds = [("the fused key stays nullable-typed input of an integer type", B(tag.startswith("Nullable") and tag.replace("Nullable", "") in TYPE_MAX)),
                 ("offset passed to FuseIntNulls == -min + 1 if min <= 0, else 0", binop("Eq", offset, want_off) if isinstance(offset, I) else B(False))]
        if tag.replace("Nullable", "") in TYPE_MAX and isinstance(offset, I):
            tmax = TYPE_MAX[tag.replace("Nullable", "")]
            wide = binop("Add", cast_int(mx, "i128"), cast_int(offset, "i128"))
            conds.append((f"max + offset fits the key's integer type at the FuseIntNulls call (no overflow in value + offset)", binop("Le", wide, I("i128", tmax))))
        return conds

    def post(self, inst, shape, inp, value, state=None):
        return [("the slice ends at the fuse_int_nulls call", B(False))]

    def panic_ok(self, inst, shape, inp, msg):
        return B(False)

    # under-constrained slice: a counterexample counts only if the public API misbehaves on a matching table
    def api_check(self, inst, shape, conc, label):
        from .. import replay
        base = inst["tag"].replace("Nullable", "")
        mn, mx = conc["min"].v, conc["max"].v
        # a nullable, non-monotone (not delta-coded) column whose encoded range is exactly (min, max)
        vals = [mx, mn, mx, None, mn, mx]
        spec = {"steps": [{"ingest": {"t": {"x": {"Mixed": [None if v is None else f"i:{v}" for v in vals]}}}},
                          {"query": "SELECT x, count(1) FROM t"}, {"query": "SELECT count(1) FROM t"}]}
        self._last_api = spec
        steps, raw = replay.api_replay(spec)
        if steps is None:
            return False, "API replay did not run: " + raw[-200:]
        q = steps[1]
        if q.get("outcome") != "ok":
            return True, f"SELECT x, count(1) FROM t on a nullable column with values {vals}: {q.get('outcome')} {q.get('error', '')}; following query: {steps[2].get('outcome')}"
        want = sorted([[None, 1], [mn, 2], [mx, 3]] if mn != mx else [[None, 1], [mn, 5]], key=lambda r: (r[0] is None, r[0] or 0))
        got = sorted([[None if r[0] is None else int(r[0][2:]), int(r[1][2:])] for r in q["rows"]], key=lambda r: (r[0] is None, r[0] or 0))
        if got != want:
            return True, f"SELECT x, count(1) FROM t on values {vals} returned {got}, expected {want}"
        return False, f"API replay on values {vals} answered correctly: the slice's pre-state is not reachable that way"

    def api_spec(self, inst, shape, conc):
        return getattr(self, "_last_api", {})


from ..mirsym.values import cast_int  # noqa: E402
