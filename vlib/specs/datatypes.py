"""C12.c : Data::slice_box - the final cut that QueryTask::convert_to_output_format applies to every result column
(`col.slice_box(offset, offset + count)`).  The row view is built from the same (offset, count), so the column view agrees
with it exactly when every impl returns min(to, len) - from cells starting at row `from`."""
import z3

from .common import *
from ..mirsym import interp
from ..mirsym.models import seq_of, deref_val


class SliceBoxSpec(KernelSpec):
    """shape = (impl, len).  impl: 'null' (impl Data for usize: the all-NULL column an unknown column reads as),
    'vec' (Vec<i64>), 'slice' (&[i64]), 'nullable' (NullableVec<i64>)"""
    diff_cases = 2
    IMPLS = {"null": ("usize", "Data<'a>"), "vec": ("Vec<i64>", "Data<'a>"), "slice": ("&'a [i64]", "Data<'a>"), "nullable": ("NullableVec<i64>", "Data<'a>")}

    def instantiations(self, tier):
        return [{"impl": k, "nat": f"slice_box_{k}"} for k in ("null", "vec", "slice", "nullable")]

    def get_fn(self, ctx, inst):
        self_ty, trait = self.IMPLS[inst["impl"]]
        ex = ctx.executor(self.dumps)
        r = ex.resolve_method(self_ty, "Data", "slice_box")
        if r is None:
            raise interp.Unsupported(f"no impl Data for {self_ty} with slice_box in the current source")
        self._tymap = {inst["impl"]: r[1]}
        return r[0]

    def shapes(self, tier, inst):
        if inst["impl"] == "null":
            return [("sym",)]
        ns = (0, 1, 3) if tier == "quick" else (0, 1, 2, 3, 5, 9)
        return [(n,) for n in ns]

    def sym_inputs(self, inst, shape):
        frm, to = sym("usize", "from"), sym("usize", "to")
        # convert_to_output_format passes from = offset, to = offset + count with count <= len - offset (and skips the
        # call chain when offset > len): from <= to and from <= len
        if inst["impl"] == "null":
            ln = sym("usize", "len")
            return {"len": ln, "from": frm, "to": to}, [z3.ULE(frm.v, to.v), z3.ULE(frm.v, ln.v)]
        n = shape[0]
        inp = {"data": [sym("i64", f"d{i}") for i in range(n)], "from": frm, "to": to}
        if inst["impl"] == "nullable":
            inp["present"] = [sym("u8", f"p{i}") for i in range((n + 7) // 8)]
        return inp, [z3.ULE(frm.v, to.v), z3.ULE(frm.v, z3.BitVecVal(n, 64))]

    def explore(self, ctx, ex, fn, inst, shape, inp, pre):
        k = inst["impl"]
        if k == "null":
            recv = Ref(Cell(inp["len"]))
        elif k == "vec":
            recv = Ref(Cell(VecObj(list(inp["data"]), "i64")))
        elif k == "slice":
            recv = Ref(Cell(slice_arg(list(inp["data"]))))
        else:
            nv = Agg("struct", [VecObj(list(inp["data"]), "i64"), VecObj(list(inp["present"]), "u8")], name="NullableVec")
            recv = Ref(Cell(nv))
        tymap = dict(self._tymap.get(k) or {})
        tymap.setdefault("T", "i64")
        st = ex.start(fn, [recv, inp["from"], inp["to"]], tymap, pc=pre)
        return ex.explore(st)

    def view(self, inst, value):
        """(cells, present bits or None) of the boxed result"""
        v = value
        while isinstance(v, Ref) and not (v.window is not None):
            nv = deref_val(v)
            if isinstance(nv, (I, VecObj, Agg)):
                v = nv
                break
            v = nv
        if isinstance(v, I):
            return v, None
        if isinstance(v, Agg) and v.name == "NullableVec":
            return list(v.fields[0].elems), list(v.fields[1].elems)
        el, lo, hi = seq_of(v)
        return list(el[lo:hi]), None

    def post(self, inst, shape, inp, value, state=None):
        k = inst["impl"]
        frm, to = inp["from"], inp["to"]
        cells, present = self.view(inst, value) if not isinstance(value, tuple) else value
        if k == "null":
            ln = inp["len"]
            want = binop("Sub", ite(binop("Lt", to, ln), to, ln), frm)
            return [("an all-NULL column keeps min(to, len) - from cells", binop("Eq", cells, want) if isinstance(cells, I) else B(False))]
        n = shape[0]
        conds = []
        K = len(cells)
        conds.append(("the column keeps min(to, len) - from cells", binop("Eq", I("usize", K), binop("Sub", ite(binop("Lt", to, I("usize", n)), to, I("usize", n)), frm))))
        for lo in range(n + 1):
            if lo + K > n:
                continue
            here = binop("Eq", frm, I("usize", lo))
            for i in range(K):
                conds.append((f"cell {i} is row from+{i}", implies(here, binop("Eq", cells[i], inp["data"][lo + i]))))
                if k == "nullable":
                    if present is None or len(present) * 8 < K:
                        conds.append(("the sliced bitmap covers every cell", B(False)))
                        continue
                    src_bit = binop("BitAnd", binop("Shr", inp["present"][(lo + i) // 8], I("u8", (lo + i) % 8)), I("u8", 1))
                    dst_bit = binop("BitAnd", binop("Shr", present[i // 8], I("u8", i % 8)), I("u8", 1))
                    conds.append((f"cell {i} is NULL exactly when row from+{i} is", implies(here, binop("Eq", src_bit, dst_bit))))
        return conds

    def panic_ok(self, inst, shape, inp, msg):
        return B(False)

    def random_inputs(self, rng, inst, shape):
        if inst["impl"] == "null":
            ln = rng.choice([0, 1, 5, 10])
            f = rng.randint(0, ln)
            return {"len": I("usize", ln), "from": I("usize", f), "to": I("usize", f + rng.randint(0, 12))}
        n = shape[0]
        f = rng.randint(0, n)
        d = {"data": [I("i64", rnd_int(rng, "i64")) for _ in range(n)], "from": I("usize", f), "to": I("usize", f + rng.randint(0, n + 2))}
        if inst["impl"] == "nullable":
            d["present"] = [I("u8", rng.randint(0, 255)) for _ in range((n + 7) // 8)]
        return d

    def native(self, inst, shape, inp):
        if inp is None:
            return (inst["nat"], [])
        if inst["impl"] == "null":
            return (inst["nat"], [inp["len"].v, inp["from"].v, inp["to"].v])
        toks = [fmt_ints(inp["data"]), inp["from"].v, inp["to"].v]
        if inst["impl"] == "nullable":
            toks.append(fmt_ints(inp["present"]))
        return (inst["nat"], toks)

    def parse_native(self, inst, shape, toks):
        if inst["impl"] == "null":
            return (I("usize", int(toks[0])), None)
        cells = parse_ints(toks[0], "i64")
        if inst["impl"] == "nullable":
            bits = "" if toks[1] == "-" else toks[1]
            present = []
            for b in range((len(bits) + 7) // 8):
                v = 0
                for i, c in enumerate(bits[b * 8:b * 8 + 8]):
                    if c == "1":
                        v |= 1 << i
                present.append(I("u8", v))
            return (cells, present)
        return (cells, None)

    def native_view(self, inst, shape, v, st):
        cells, present = self.view(inst, v)
        if present is not None:
            # compare bit-for-bit over the cells only (bits past the last cell are unspecified)
            K = len(cells)
            present = [binop("BitAnd", p, I("u8", (1 << min(8, K - 8 * i)) - 1)) if K - 8 * i < 8 else p for i, p in enumerate(present)][:(K + 7) // 8]
        return (cells, present)


# ----------------------------------------------------------------------------------------------------
# C12.d : row view == column view.  convert_to_output_format builds the rows with Data::get_raw(i) and the columns with
# BasicTypeColumn::from_boxed_data(slice): both must describe the same cells.
# ----------------------------------------------------------------------------------------------------
class RowColumnViewSpec(KernelSpec):
    """shape = (impl, n): 'i64' Vec<i64>, 'u8' Vec<u8>, 'u32' Vec<u32>, 'f64' Vec<OrderedFloat<f64>>, 'nullable_i64' NullableVec<i64>,
    'nullable_f64', 'null' usize.  from_boxed_data(data) is executed from its MIR (dyn Data calls: get_type / cast_ref_* / len are the
    tagged-sequence model, get_raw is dispatched to the real impl); then get_raw(i) of the same data for every row i."""
    method = ("BasicTypeColumn", None, "from_boxed_data")
    diff_cases = 2

    def instantiations(self, tier):
        ks = ["i64", "u8", "f64", "nullable_i64", "null"] + (["u32", "u16", "nullable_f64", "nullable_u8"] if tier == "thorough" else [])
        return [{"impl": k, "nat": "row_column_view"} for k in ks]

    def shapes(self, tier, inst):
        if inst["impl"] == "null":
            return [(0,), (2,)]
        if tier == "quick":
            return [(0,), (2,)]
        # every nullable row forks twice (column view and row view): 9 rows only for the non-nullable representations
        return [(0,), (1,), (3,), (9,)] if not inst["impl"].startswith("nullable") else [(0,), (1,), (3,), (5,)]

    def elem_ty(self, inst):
        return inst["impl"].replace("nullable_", "")

    def sym_inputs(self, inst, shape):
        n = shape[0]
        if inst["impl"] == "null":
            return {"n": I("usize", n)}, []
        t = self.elem_ty(inst)
        inp = {"data": [sym(t, f"d{i}") for i in range(n)]}
        if inst["impl"].startswith("nullable"):
            inp["present"] = [sym("u8", f"p{i}") for i in range((n + 7) // 8)]
        return inp, []

    def data_value(self, inst, inp):
        if inst["impl"] == "null":
            return inp["n"]
        t = self.elem_ty(inst)
        elems = [Agg("struct", [v], name="OrderedFloat") for v in inp["data"]] if t == "f64" else list(inp["data"])
        vec = VecObj(elems, "ordered_float::OrderedFloat<f64>" if t == "f64" else t)
        if inst["impl"].startswith("nullable"):
            return Agg("struct", [vec, VecObj(list(inp["present"]), "u8")], name="NullableVec")
        return vec

    def explore(self, ctx, ex, fn, inst, shape, inp, pre):
        from ..pyengine import run_sequence
        n = shape[0]
        dv = self.data_value(inst, inp)
        env = {"data": Cell(dv)}
        t = self.elem_ty(inst)
        et = {"f64": "ordered_float::OrderedFloat<f64>"}.get(t, t)
        self_ty = "usize" if inst["impl"] == "null" else (f"NullableVec<{et}>" if inst["impl"].startswith("nullable") else f"Vec<{et}>")
        r = ex.resolve_method(self_ty, "Data", "get_raw")
        if r is None:
            raise interp.Unsupported(f"no impl Data for {self_ty} with get_raw")
        graw, gb = r
        calls = [(fn, lambda env: [Ref(Cell(deep(env["data"].v)), (), None, False, True)], {}, "col")]
        for i in range(n):
            calls.append((graw, lambda env, i=i: [Ref(env["data"]), I("usize", i)], dict(gb), f"raw{i}"))
        outs = run_sequence(ex, pre, env, calls)
        self._n = n
        return outs

    def view(self, state_or_value, n):
        if isinstance(state_or_value, dict):
            return state_or_value
        env = state_or_value.env
        col = env["col"].v
        k = col.variant
        if k == "Null":
            cells = ("Null", col.fields[0])
        elif k in ("Int", "Float"):
            cells = (k, list(col.fields[0].elems))
        elif k == "Mixed":
            cells = ("Mixed", [rawview(x) for x in col.fields[0].elems])
        else:
            cells = (k, None)
        return {"col": cells, "rows": [rawview(env[f"raw{i}"].v) for i in range(n)]}

    def post(self, inst, shape, inp, value, state=None):
        n = shape[0]
        v = self.view(state if state is not None else value, n)
        kind, cells = v["col"]
        rows = v["rows"]
        conds = []
        if kind == "Null":
            conds.append(("an all-NULL column has as many cells as rows, every row reads NULL", band(binop("Eq", cells, I("usize", n)), B(all(r[0] == "n" for r in rows)))))
            return conds
        if cells is None:
            return [("the column view is Int, Float, Mixed or Null", B(False))]
        conds.append(("the column view has one cell per row", B(len(cells) == n)))
        if len(cells) != n:
            return conds
        for i in range(n):
            r = rows[i]
            c = cells[i]
            if kind == "Int":
                conds.append((f"row {i}: row view and column view agree", B(r[0] == "i") if r[0] != "i" else binop("Eq", r[1], c)))
            elif kind == "Float":
                conds.append((f"row {i}: row view and column view agree", B(r[0] == "f") if r[0] != "f" else binop("Eq", I("u64", r[1].v), I("u64", c.v))))
            else:
                same = B(r[0] == c[0]) if (r[0] != c[0] or r[0] == "n") else binop("Eq", I("u64", r[1].v) if r[0] == "f" else r[1], I("u64", c[1].v) if c[0] == "f" else c[1])
                conds.append((f"row {i}: row view and column view agree (value or NULL)", same))
        return conds

    def random_inputs(self, rng, inst, shape):
        inp, _ = self.sym_inputs(inst, shape)
        out = {}
        for k, v in inp.items():
            out[k] = v if isinstance(v, I) else [I(x.ty, rng.getrandbits(62) if x.ty == "f64" else rnd_int(rng, x.ty)) for x in v]
        return out

    def native(self, inst, shape, inp):
        if inp is None:
            return ("row_column_view", [])
        if inst["impl"] == "null":
            return ("row_column_view", ["null", inp["n"].v])
        toks = [inst["impl"], fmt_ints(inp["data"])]
        if "present" in inp:
            toks.append(fmt_ints(inp["present"]))
        return ("row_column_view", toks)

    def parse_native(self, inst, shape, toks):
        # <kind> <cells> | <rows>
        def cell(x):
            return ("n", None) if x == "n" else (x[0], I("i64" if x[0] == "i" else "f64", int(x[1:])))
        kind = toks[0]
        rows = [cell(x) for x in toks[2].split(",")] if toks[2] != "-" else []
        if kind == "Null":
            return {"col": ("Null", I("usize", int(toks[1]))), "rows": rows}
        items = toks[1].split(",") if toks[1] != "-" else []
        if kind == "Int":
            return {"col": ("Int", [I("i64", int(x)) for x in items]), "rows": rows}
        if kind == "Float":
            return {"col": ("Float", [I("f64", int(x)) for x in items]), "rows": rows}
        return {"col": ("Mixed", [cell(x) for x in items]), "rows": rows}

    def native_view(self, inst, shape, v, st):
        d = self.view(st, shape[0])
        return d


def rawview(x):
    """RawVal -> ('i', I) | ('f', I f64) | ('s', bytes) | ('n', None)"""
    if x.variant == "Null":
        return ("n", None)
    if x.variant == "Int":
        return ("i", x.fields[0])
    if x.variant == "Float":
        f = x.fields[0]
        return ("f", f.fields[0] if isinstance(f, Agg) else f)
    return ("s", x.fields[0])


def deep(v):
    from ..mirsym.values import deep_clone
    return deep_clone(v)
