"""C12.c : Data::slice_box - the final cut that QueryTask::convert_to_output_format applies to every result column
(`col.slice_box(offset, offset + count)`).  The row view is built from the same (offset, count), so the column view agrees
with it exactly when every impl returns min(to, len) - from cells starting at row `from`."""
import z3

from .common import *
from ..mirsym import interp
from ..mirsym.models import seq_of, deref_val


class SliceBoxSpec(KernelSpec):
    """shape = (impl, len).  impl: 'null' (impl Data for usize: the all-NULL column an unknown column reads as),
    'vec' (Vec<i64>), 'slice' (&[i64]), 'nullable' (NullableVec<i64>)"""
    diff_cases = 2
    IMPLS = {"null": ("usize", "Data<'a>"), "vec": ("Vec<i64>", "Data<'a>"), "slice": ("&'a [i64]", "Data<'a>"), "nullable": ("NullableVec<i64>", "Data<'a>")}

    def instantiations(self, tier):
        return [{"impl": k, "nat": f"slice_box_{k}"} for k in ("null", "vec", "slice", "nullable")]

    def get_fn(self, ctx, inst):
        self_ty, trait = self.IMPLS[inst["impl"]]
        ex = ctx.executor(self.dumps)
        r = ex.resolve_method(self_ty, "Data", "slice_box")
        if r is None:
            raise interp.Unsupported(f"no impl Data for {self_ty} with slice_box in the current source")
        self._tymap = {inst["impl"]: r[1]}
        return r[0]

    def shapes(self, tier, inst):
        if inst["impl"] == "null":
            return [("sym",)]
        ns = (0, 1, 3) if tier == "quick" else (0, 1, 2, 3, 5, 9)
        return [(n,) for n in ns]

    def sym_inputs(self, inst, shape):
        frm, to = sym("usize", "from"), sym("usize", "to")
        # convert_to_output_format passes from = offset, to = offset + count with count <= len - offset (and skips the
        # call chain when offset > len): from <= to and from <= len
        if inst["impl"] == "null":
            ln = sym("usize", "len")
            return {"len": ln, "from": frm, "to": to}, [z3.ULE(frm.v, to.v), z3.ULE(frm.v, ln.v)]
        n = shape[0]
        inp = {"data": [sym("i64", f"d{i}") for i in range(n)], "from": frm, "to": to}
        if inst["impl"] == "nullable":
            inp["present"] = [sym("u8", f"p{i}") for i in range((n + 7) // 8)]
        return inp, [z3.ULE(frm.v, to.v), z3.ULE(frm.v, z3.BitVecVal(n, 64))]

    def explore(self, ctx, ex, fn, inst, shape, inp, pre):
        k = inst["impl"]
        if k == "null":
            recv = Ref(Cell(inp["len"]))
        elif k == "vec":
            recv = Ref(Cell(VecObj(list(inp["data"]), "i64")))
        elif k == "slice":
            recv = Ref(Cell(slice_arg(list(inp["data"]))))
        else:
            nv = Agg("struct", [VecObj(list(inp["data"]), "i64"), VecObj(list(inp["present"]), "u8")], name="NullableVec")
            recv = Ref(Cell(nv))
        tymap = dict(self._tymap.get(k) or {})
        tymap.setdefault("T", "i64")
        st = ex.start(fn, [recv, inp["from"], inp["to"]], tymap, pc=pre)
        return ex.explore(st)

    def view(self, inst, value):
        """(cells, present bits or None) of the boxed result"""
        v = value
        while isinstance(v, Ref) and not (v.window is not None):
            nv = deref_val(v)
            if isinstance(nv, (I, VecObj, Agg)):
                v = nv
                break
            v = nv
        if isinstance(v, I):
            return v, None
        if isinstance(v, Agg) and v.name == "NullableVec":
            return list(v.fields[0].elems), list(v.fields[1].elems)
        el, lo, hi = seq_of(v)
        return list(el[lo:hi]), None

    def post(self, inst, shape, inp, value, state=None):
        k = inst["impl"]
        frm, to = inp["from"], inp["to"]
        cells, present = self.view(inst, value) if not isinstance(value, tuple) else value
        if k == "null":
            ln = inp["len"]
            want = binop("Sub", ite(binop("Lt", to, ln), to, ln), frm)
            return [("an all-NULL column keeps min(to, len) - from cells", binop("Eq", cells, want) if isinstance(cells, I) else B(False))]
        n = shape[0]
        conds = []
        K = len(cells)
        conds.append(("the column keeps min(to, len) - from cells", binop("Eq", I("usize", K), binop("Sub", ite(binop("Lt", to, I("usize", n)), to, I("usize", n)), frm))))
        for lo in range(n + 1):
            if lo + K > n:
                continue
            here = binop("Eq", frm, I("usize", lo))
            for i in range(K):
                conds.append((f"cell {i} is row from+{i}", implies(here, binop("Eq", cells[i], inp["data"][lo + i]))))
                if k == "nullable":
                    if present is None or len(present) * 8 < K:
                        conds.append(("the sliced bitmap covers every cell", B(False)))
                        continue
                    src_bit = binop("BitAnd", binop("Shr", inp["present"][(lo + i) // 8], I("u8", (lo + i) % 8)), I("u8", 1))
                    dst_bit = binop("BitAnd", binop("Shr", present[i // 8], I("u8", i % 8)), I("u8", 1))
                    conds.append((f"cell {i} is NULL exactly when row from+{i} is", implies(here, binop("Eq", src_bit, dst_bit))))
        return conds

    def panic_ok(self, inst, shape, inp, msg):
        return B(False)

    def random_inputs(self, rng, inst, shape):
        if inst["impl"] == "null":
            ln = rng.choice([0, 1, 5, 10])
            f = rng.randint(0, ln)
            return {"len": I("usize", ln), "from": I("usize", f), "to": I("usize", f + rng.randint(0, 12))}
        n = shape[0]
        f = rng.randint(0, n)
        d = {"data": [I("i64", rnd_int(rng, "i64")) for _ in range(n)], "from": I("usize", f), "to": I("usize", f + rng.randint(0, n + 2))}
        if inst["impl"] == "nullable":
            d["present"] = [I("u8", rng.randint(0, 255)) for _ in range((n + 7) // 8)]
        return d

    def native(self, inst, shape, inp):
        if inp is None:
            return (inst["nat"], [])
        if inst["impl"] == "null":
            return (inst["nat"], [inp["len"].v, inp["from"].v, inp["to"].v])
        toks = [fmt_ints(inp["data"]), inp["from"].v, inp["to"].v]
        if inst["impl"] == "nullable":
            toks.append(fmt_ints(inp["present"]))
        return (inst["nat"], toks)

    def parse_native(self, inst, shape, toks):
        if inst["impl"] == "null":
            return (I("usize", int(toks[0])), None)
        cells = parse_ints(toks[0], "i64")
        if inst["impl"] == "nullable":
            bits = "" if toks[1] == "-" else toks[1]
            present = []
            for b in range((len(bits) + 7) // 8):
                v = 0
                for i, c in enumerate(bits[b * 8:b * 8 + 8]):
                    if c == "1":
                        v |= 1 << i
                present.append(I("u8", v))
            return (cells, present)
        return (cells, None)

    def native_view(self, inst, shape, v, st):
        cells, present = self.view(inst, v)
        if present is not None:
            # compare bit-for-bit over the cells only (bits past the last cell are unspecified)
            K = len(cells)
            present = [binop("BitAnd", p, I("u8", (1 << min(8, K - 8 * i)) - 1)) if K - 8 * i < 8 else p for i, p in enumerate(present)][:(K + 7) // 8]
        return (cells, present)
