"""C13.b / C01.h : ingest::buffer::Buffer - the real batch-append code (`push_typed_cols`, with `extend_to_largest` and the
sparse expansion loops) run over sequences of batches that mention different sets of columns in dense and sparse
representations.  Decides, per column and per row of the whole buffer: value where one was supplied, NULL where the batch did
not mention the column / the column appeared later / the sparse representation skipped the row."""
import z3

from .common import *
from ..mirsym import interp
from ..mirsym.models import hashmap_new, hashmap_entries
from ..pyengine import run_sequence
from ..mirsym.values import cast_int_to_float


def rstr(b):
    return VecObj([I("u8", x) for x in b], "u8", is_str=True)


def bit(bm, i):
    if bm is None or i // 8 >= len(bm):
        return B(False)
    return binop("Ne", binop("BitAnd", binop("Shr", bm[i // 8], I("u8", i % 8)), I("u8", 1)), I("u8", 0))


# a batch is a tuple of (column name, representation, ...):
#   (c, 'I', n) dense ints | (c, 'F', n) dense floats | (c, 'N', n) Null(n) | (c, 'SI', rows, idx) sparse ints at rows idx |
#   (c, 'SF', rows, idx) sparse floats | (c, 'M', kinds) mixed values, kinds over "ifn"
def batch_rows(b):
    c = b[0]
    if c[1] in ("I", "F", "N"):
        return c[2]
    if c[1] in ("SI", "SF"):
        return c[2]
    return len(c[2])


SHAPES_QUICK = [
    # a column first seen in the second batch; a column not mentioned by the second batch
    ((("a", "I", 2),), (("a", "I", 1), ("b", "I", 1))),
    ((("a", "I", 2), ("b", "F", 2)), (("a", "I", 1),)),
    # sparse representations: rows skipped at the start, in the middle and at the end
    ((("a", "SI", 3, (1,)),),),
    ((("a", "SI", 4, (0, 2)),), (("a", "I", 1),)),
    ((("a", "SF", 3, (2,)),), (("b", "SF", 2, (0,)),)),
    ((("a", "SI", 2, ()),), (("a", "SI", 2, (1,)), ("b", "N", 2))),
    # bitmap byte boundary: 8 dense rows, then a batch without the column, then one more value
    ((("a", "I", 8),), (("b", "I", 1),), (("a", "I", 1),)),
    # a column that exists only as NULLs, then gets values; mixed representation
    ((("a", "N", 2), ("b", "I", 2)), (("a", "F", 1), ("b", "I", 1))),
    ((("a", "M", "ini"),), (("a", "I", 1),)),
    ((("a", "I", 1),), (("a", "F", 1),)),
]
SHAPES_THOROUGH = SHAPES_QUICK + [
    ((("a", "I", 7),), (("b", "I", 1),), (("a", "SI", 2, (1,)),)),
    ((("a", "I", 9),), (("b", "F", 8),), (("a", "I", 1), ("b", "F", 1))),
    ((("a", "SI", 9, (0, 8)),), (("b", "SI", 1, (0,)),)),
    ((("a", "SF", 4, (0, 1, 2, 3)),), (("a", "SF", 4, ()),)),
    ((("a", "M", "fnf"),), (("b", "M", "nn"),), (("a", "SF", 1, (0,)), ("b", "I", 1))),
    ((("a", "N", 8),), (("a", "I", 1),), (("b", "N", 3),)),
    ((("a", "I", 1), ("b", "I", 1), ("c", "F", 1)), (("c", "F", 2),), (("b", "I", 1),)),
    ((("a", "SI", 3, (0, 1, 2)),), (("a", "SF", 2, (1,)),)),
]


class BufferBatchesSpec(KernelSpec):
    diff_cases = 1

    def get_fn(self, ctx, inst):
        return None

    def instantiations(self, tier):
        return [{"nat": "buffer_batches"}]

    def shapes(self, tier, inst):
        return list(range(len(SHAPES_QUICK))) if tier == "quick" else list(range(len(SHAPES_THOROUGH)))

    def sym_inputs(self, inst, shape):
        inp = {}
        for bi, batch in enumerate(SHAPES_THOROUGH[shape]):
            for c in batch:
                key = f"{bi}{c[0]}"
                if c[1] == "I":
                    # IntColBuffer::push forks on value order: at most two symbolic values per append
                    inp[key] = [sym("i64", f"v{key}_{i}") if i < 2 else I("i64", 1000 * (bi + 1) + i) for i in range(c[2])]
                elif c[1] == "F":
                    inp[key] = [sym("f64", f"f{key}_{i}") if i < 2 else I("f64", 0x4000000000000000 + i) for i in range(c[2])]
                elif c[1] == "SI":
                    inp[key] = [sym("i64", f"v{key}_{i}") for i in range(len(c[3]))]
                elif c[1] == "SF":
                    inp[key] = [sym("f64", f"f{key}_{i}") for i in range(len(c[3]))]
                elif c[1] == "M":
                    inp[key] = [sym("i64", f"v{key}_{i}") if k == "i" else (sym("f64", f"f{key}_{i}") if k == "f" else None) for i, k in enumerate(c[2])]
        return inp, []

    def input_column(self, c, vals):
        k = c[1]
        if k == "I":
            return Agg("enum", [VecObj(list(vals), "i64")], name="InputColumn", variant="Int")
        if k == "F":
            return Agg("enum", [VecObj(list(vals), "f64")], name="InputColumn", variant="Float")
        if k == "N":
            return Agg("enum", [I("usize", c[2])], name="InputColumn", variant="Null")
        if k in ("SI", "SF"):
            pairs = [Agg("tuple", [I("u64", i), v]) for i, v in zip(c[3], vals)]
            return Agg("enum", [I("u64", c[2]), VecObj(pairs)], name="InputColumn", variant="NullableInt" if k == "SI" else "NullableFloat")
        xs = []
        for kk, v in zip(c[2], vals):
            if kk == "i":
                xs.append(Agg("enum", [v], name="RawVal", variant="Int"))
            elif kk == "f":
                xs.append(Agg("enum", [Agg("struct", [v], name="OrderedFloat")], name="RawVal", variant="Float"))
            else:
                xs.append(Agg("enum", [], name="RawVal", variant="Null"))
        return Agg("enum", [VecObj(xs)], name="InputColumn", variant="Mixed")

    def explore(self, ctx, ex, fn, inst, shape, inp, pre):
        bfs = ctx.src().struct_fields("Buffer", having="length")
        if bfs is None or set(bfs) != {"buffer", "length"}:
            raise interp.Unsupported("ingest::buffer::Buffer{buffer, length} not found in the current source")
        self._bfs = bfs
        buf = Agg("struct", [hashmap_new() if f == "buffer" else I("usize", 0) for f in bfs], name="Buffer")
        env = {"buf": Cell(buf)}
        f, _ = ex.resolve_method("Buffer", None, "push_typed_cols")
        calls = []
        for bi, batch in enumerate(SHAPES_THOROUGH[shape]):
            def build(env, bi=bi, batch=batch):
                cols = hashmap_new([(rstr(c[0].encode()), self.input_column(c, inp.get(f"{bi}{c[0]}"))) for c in batch])
                return [Ref(env["buf"], (), None, False, True), cols]
            calls.append((f, build, {}))
        return run_sequence(ex, pre, env, calls)

    # ---- reference: per column, per row (kind, value, present) --------------------------------------------------------
    def reference(self, shape, inp):
        cols = {}
        total = 0
        for bi, batch in enumerate(SHAPES_THOROUGH[shape]):
            n = batch_rows(batch)
            for c in batch:
                rows = cols.setdefault(c[0], [None] * total)
                vals = inp.get(f"{bi}{c[0]}")
                if c[1] == "I":
                    rows += [("i", v) for v in vals]
                elif c[1] == "F":
                    rows += [("f", v) for v in vals]
                elif c[1] == "N":
                    rows += [None] * c[2]
                elif c[1] in ("SI", "SF"):
                    part = [None] * c[2]
                    for i, v in zip(c[3], vals):
                        part[i] = ("i" if c[1] == "SI" else "f", v)
                    rows += part
                else:
                    rows += [None if k == "n" else (k, v) for k, v in zip(c[2], vals)]
            total += n
            for name, rows in cols.items():
                if len(rows) < total:
                    rows += [None] * (total - len(rows))
        return cols, total

    def view(self, state_or_value):
        """{column name: (kind, length I, data, present)} and Buffer.length"""
        if isinstance(state_or_value, dict):
            return state_or_value
        buf = state_or_value
        out = {}
        for e in hashmap_entries(buf.fields[self._bfs.index("buffer")]):
            name = bytes(x.v for x in e.fields[0].elems).decode()
            cb = e.fields[1]
            b, length, present = cb.fields[0], cb.fields[1], cb.fields[2]
            kind = b.variant
            data = None
            if kind in ("Int", "Float"):
                data = elems_of(b.fields[0].fields[0])
                if kind == "Float":
                    data = [d.fields[0] if isinstance(d, Agg) else d for d in data]
            pres = elems_of(present.fields[0]) if present.variant == "Some" else None
            out[name] = (kind, length, data, pres)
        return {"cols": out, "length": buf.fields[self._bfs.index("length")]}

    def post(self, inst, shape, inp, value, state=None):
        v = self.view(state.env["buf"].v if state is not None else value)
        ref, total = self.reference(shape, inp)
        conds = [("Buffer.length == rows ingested", binop("Eq", v["length"], I("usize", total))),
                 ("the buffer holds exactly the columns that were ever mentioned", B(set(v["cols"]) == set(ref)))]
        if set(v["cols"]) != set(ref):
            return conds
        for name in sorted(ref):
            rows = ref[name]
            kind, length, data, pres = v["cols"][name]
            conds.append((f"column {name}: length == rows ingested (padded with NULL)", binop("Eq", length, I("usize", total))))
            has_int = any(r is not None and r[0] == "i" for r in rows)
            has_float = any(r is not None and r[0] == "f" for r in rows)
            want = "Float" if has_float else ("Int" if has_int else "Empty")
            conds.append((f"column {name}: buffer type is {want}", B(kind == want)))
            if kind != want or kind == "Empty":
                continue
            conds.append((f"column {name}: one stored slot per row (nothing lost or shifted)", B(len(data) == total)))
            if len(data) != total:
                continue
            for r, row in enumerate(rows):
                isset = bit(pres, r) if pres is not None else B(True)
                if row is None:
                    conds.append((f"column {name} row {r}: no value supplied -> NULL", bnot(isset)))
                    continue
                conds.append((f"column {name} row {r}: a supplied value is present", isset))
                if kind == "Int":
                    ok = binop("Eq", data[r], row[1])
                elif row[0] == "f":
                    ok = binop("Eq", I("u64", data[r].v), I("u64", row[1].v))
                else:
                    ok = binop("Eq", I("u64", data[r].v), I("u64", cast_int_to_float(row[1], "f64").v))
                conds.append((f"column {name} row {r}: stored value equals the supplied one", ok))
        return conds

    def panic_ok(self, inst, shape, inp, msg):
        return B(False)

    def random_inputs(self, rng, inst, shape):
        inp, _ = self.sym_inputs(inst, shape)
        out = {}
        for k, vals in inp.items():
            out[k] = [None if v is None else (v if v.concrete else I(v.ty, rnd_int(rng, "i64") if v.ty == "i64" else rng.choice([0, 1 << 63, 0x3ff0000000000000, 0x7ff0000000000000, rng.getrandbits(62)]))) for v in vals]
        return out

    def native(self, inst, shape, inp):
        if inp is None:
            return ("buffer_batches", [])
        toks = []
        for bi, batch in enumerate(SHAPES_THOROUGH[shape]):
            parts = []
            for c in batch:
                vals = inp.get(f"{bi}{c[0]}")
                if c[1] in ("I", "F"):
                    parts.append(f"{c[0]}:{c[1]}:{fmt_ints(vals)}")
                elif c[1] == "N":
                    parts.append(f"{c[0]}:N:{c[2]}")
                elif c[1] in ("SI", "SF"):
                    parts.append(f"{c[0]}:{c[1]}:{c[2]}:{fmt_ints([I('u64', i) for i in c[3]])}:{fmt_ints(vals)}")
                else:
                    parts.append(f"{c[0]}:M:" + ("/".join("n" if k == "n" else f"{k}{v.v}" for k, v in zip(c[2], vals)) or "-"))
            toks.append(";".join(parts))
        return ("buffer_batches", toks)

    def parse_native(self, inst, shape, toks):
        # <length> then per column: name len kind data present
        out = {}
        length = I("usize", int(toks[0]))
        i = 1
        while i + 4 < len(toks) + 1 and i < len(toks):
            name, ln, kind, data, pres = toks[i:i + 5]
            i += 5
            d = None
            if kind == "Int":
                d = parse_ints(data, "i64")
            elif kind == "Float":
                d = parse_ints(data, "f64")
            p = None if pres == "none" else parse_ints(pres, "u8")
            out[name] = (kind, I("usize", int(ln)), d, p)
        return {"cols": out, "length": length}

    def native_view(self, inst, shape, v, st):
        vv = self.view(st.env["buf"].v)
        cols = {}
        for name, (kind, length, data, pres) in vv["cols"].items():
            if data is not None:
                data = [I("i64" if kind == "Int" else "f64", d.v) for d in data]
            cols[name] = (kind, length, data, pres)
        return {"cols": cols, "length": vv["length"]}


# ----------------------------------------------------------------------------------------------------
# C13.c : catalogue wiring in InnerLocustDB::ingest_efficient (arithmetic-slice style data-flow obligation)
# ----------------------------------------------------------------------------------------------------
import re as _re


class NewColumnWiringSpec(KernelSpec):
    """Slice of InnerLocustDB::ingest_efficient from the `table_buffer.columns()` call to the `Table::new_column_names(..)` call:
    the names handed to new_column_names (whose result becomes the rows of _meta_columns_<table>) are *all* column names of the
    batch's table buffer - including columns that carry no values in this batch - because Table::ingest_homogeneous adds every
    key of the batch to the in-memory name set, after which a name is never reported as new again."""
    method = ("InnerLocustDB", None, "ingest_efficient")
    dumps = ("main", "ser")
    diff_cases = 0

    def instantiations(self, tier):
        return [{}]

    def shapes(self, tier, inst):
        # column kinds of the batch's table buffer
        out = [("I64",), ("Empty",), ("I64", "Empty"), ("Empty", "Dense", "String")]
        if tier == "thorough":
            out += [("Sparse", "Empty", "Empty"), ("Mixed",), ()]
        return out

    def sym_inputs(self, inst, shape):
        return {"v": [sym("i64", f"v{i}") for i in range(len(shape))]}, []

    def explore(self, ctx, ex, fn, inst, shape, inp, pre):
        from ..mirsym.models import hashmap_new, iter_next, iter_clone, as_iter, seq_of, deref_val
        fn.parse()
        dbg = {}
        for local, name in fn.debug.items():
            dbg.setdefault(name, local)
        if "table_buffer" not in dbg:
            raise interp.Unsupported("ingest_efficient: no local named table_buffer in the current source")
        calls = ex.find_call_block(fn, r"(?:^|::)TableBuffer::columns$")
        if len(calls) != 1:
            raise interp.Unsupported(f"ingest_efficient: expected one TableBuffer::columns call, found {len(calls)}")
        blk, term = calls[0]
        tfs = ctx.src().struct_fields("TableBuffer")
        if tfs is None or set(tfs) != {"len", "columns"}:
            raise interp.Unsupported("TableBuffer{len, columns} not found")
        cols = []
        for i, kind in enumerate(shape):
            if kind == "Empty":
                d = Agg("enum", [], name="ColumnData", variant="Empty")
            elif kind == "I64":
                d = Agg("enum", [VecObj([inp["v"][i]], "i64")], name="ColumnData", variant="I64")
            elif kind == "Dense":
                d = Agg("enum", [VecObj([I("f64", 0)], "f64")], name="ColumnData", variant="Dense")
            elif kind == "Sparse":
                d = Agg("enum", [VecObj([Agg("tuple", [I("u64", 0), I("f64", 0)])])], name="ColumnData", variant="Sparse")
            elif kind == "String":
                d = Agg("enum", [VecObj([rstr(b"s")])], name="ColumnData", variant="String")
            else:
                d = Agg("enum", [VecObj([Agg("enum", [], name="AnyVal", variant="Null")])], name="ColumnData", variant="Mixed")
            cols.append((rstr(b"c%d" % i), Agg("struct", [d], name="ColumnBuffer")))
        named = {"len": I("u64", 1), "columns": hashmap_new(cols)}
        tb = Agg("struct", [named[f] for f in tfs], name="TableBuffer")

        def stop(ex_, st, fr, path, args, m):
            it = as_iter(args[1])
            if it is None:
                raise interp.Unsupported("new_column_names: argument is not an iterator the executor understands")
            it = iter_clone(it)
            names = []
            while True:
                o = iter_next(ex_, st, it)
                if o.variant == "None":
                    break
                el, lo, hi = seq_of(o.fields[0])
                names.append(bytes(e.v for e in el[lo:hi]))
            raise interp.StopSlice(names)
        ex.stubs = [(_re.compile(r"(?:^|::)Table::new_column_names(?:::<.*>)?$"), stop)]
        ex.havoc_unknown_calls = True
        ex.prune_unreachable = True
        # everything the argument expression can call inside locustdb-serialization's event_buffer module is executed for real
        # (a havoc'd callee inside an iterator adaptor would be re-drawn on every re-execution after a fork)
        ex.inline_in_slices = lambda f: bool(_re.search(r"event_buffer::|\{closure", f.name))
        st = ex.start_at(fn, blk.name if hasattr(blk, "name") else blk, {dbg["table_buffer"]: Ref(Cell(tb))}, {}, pc=pre)
        outs = ex.explore(st)
        if not any(o.kind == "stop" for o in outs):
            raise interp.Unsupported("catalogue wiring slice: the new_column_names call was not reached (vacuous)")
        return outs

    def post_stop(self, inst, shape, inp, o):
        names = sorted(o.value)
        want = sorted(b"c%d" % i for i in range(len(shape)))
        return [("every column name of the batch - with or without values in this batch - is offered to Table::new_column_names (the catalogue rows are written from its result)", B(names == want))]

    def post(self, inst, shape, inp, value, state=None):
        return [("the slice ends at the new_column_names call", B(False))]

    def panic_ok(self, inst, shape, inp, msg):
        return B(False)

    def random_inputs(self, rng, inst, shape):
        return None

    def native(self, inst, shape, inp):
        return None

    # under-constrained slice: a counterexample counts only if the public API shows a column missing from the catalogue
    def api_check(self, inst, shape, conc, label):
        from .. import replay
        cols = {}
        for i, kind in enumerate(shape):
            cols[f"c{i}"] = {"Empty": []} if kind == "Empty" else {"I64": [7]} if kind in ("I64",) else {"Dense": [1.5]} if kind in ("Dense", "Sparse") else {"String": ["s"]} if kind == "String" else {"Mixed": [None]}
        spec = {"steps": [{"ingest": {"t": cols}}, {"query": "SELECT column_name FROM _meta_columns_t"}]}
        self._last_api = spec
        steps, raw = replay.api_replay(spec)
        if steps is None:
            return False, "API replay did not run: " + raw[-200:]
        q = steps[1]
        if q.get("outcome") != "ok":
            return True, f"SELECT column_name FROM _meta_columns_t: {q.get('outcome')} {q.get('error', '')}"
        got = sorted(r[0][2:] for r in q["rows"] if r[0])
        want = sorted(cols)
        if got != want:
            return True, f"after ingesting one batch with columns {sorted((c, list(v)[0]) for c, v in cols.items())} the catalogue _meta_columns_t lists {got}, expected {want}"
        return False, f"API replay lists {got}: the slice's pre-state is not reachable that way"

    def api_spec(self, inst, shape, conc):
        return getattr(self, "_last_api", {})
