"""helpers shared by kernel specs"""
import z3

from ..mirsym.values import I, Agg, VecObj, Ref, Cell, INT_W, SIGNED, binop, band, bnot, ite
from ..pyengine import KernelSpec, sym, rnd_int


def slice_arg(elems):
    """&[T] over a fresh array"""
    cell = Cell(Agg("array", list(elems)))
    return Ref(cell, (), (0, len(elems)))


def vec_arg(elems, ty=None):
    return VecObj(list(elems), ty)


def bor(*cs):
    return bnot(band(*[bnot(c) for c in cs]))


def implies(a, b):
    return bor(bnot(a), b)


def B(v):
    return I("bool", 1 if v else 0)


def elems_of(v):
    if isinstance(v, VecObj):
        return v.elems
    if isinstance(v, Agg):
        return v.fields
    return list(v)


def fmt_ints(xs):
    return "[" + ",".join(str(x.v) for x in xs) + "]"


def parse_ints(tok, ty):
    inner = tok.strip("[]")
    if not inner:
        return []
    return [I(ty, int(x)) for x in inner.split(",")]


# ---- comparators (reference semantics, independent of the code under test) -------------------------
def ref_lt(ty, a, b):
    """strict 'a sorts before b' in ascending order for key type ty (values are I)"""
    return binop("Lt", a, b)


def ref_le(ty, a, b):
    return binop("Le", a, b)


class Order:
    """reference order for a Comparator instantiation: asc (CmpLessThan) or desc (CmpGreaterThan)"""

    def __init__(self, ty, desc):
        self.ty = ty
        self.desc = desc

    def before(self, a, b):       # strictly before
        return binop("Gt", a, b) if self.desc else binop("Lt", a, b)

    def before_eq(self, a, b):
        return binop("Ge", a, b) if self.desc else binop("Le", a, b)
