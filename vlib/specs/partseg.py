"""C14.b : partition file codec.  PartitionSegment::serialize followed by PartitionSegment::deserialize (both executed from their
MIR) must reproduce every column: name, length, range, every CodecOp with its payload, every DataSection with its payload.
The capnp runtime and the generated accessors are an environment model driven by the tree's .capnp schema
(vlib/mirsym/capnp_model.py); Column::new is a recorder."""
import re

import z3

from .common import *
from ..mirsym import interp
from ..mirsym.values import Havoc, Opaque, UNIT
from ..mirsym.models import seq_of, deref_val

ET = ["U8", "U16", "U32", "U64", "I64", "Null", "F64", "Bitvec"]

# column shapes: (codec ops, data sections, has range).  ops: (variant, type|None, n symbolic payload ints/bools); the codec
# programs are the ones the column builders emit (so that the native replay can build a real Column)
COLUMNS = {
    "int_u8_offset_nullable": ([("Add", "U8"), ("PushDataSection", None), ("Nullable", None)], [("U8", 2), ("Bitvec", 1)], True),
    "int_delta_u16": ([("Delta", "U16")], [("U16", 2)], True),
    "int_to_i64_u32": ([("ToI64", "U32")], [("U32", 1)], False),
    "str_dict_u8": ([("PushDataSection", None), ("PushDataSection", None), ("DictLookup", "U8")], [("U8", 2), ("U64", 1), ("U8", 1)], True),
    "str_packed_lz4": ([("LZ4", "U8"), ("UnpackStrings", None)], [("LZ4", 2)], False),
    "str_hex": ([("UnhexpackStrings", None)], [("U8", 2)], False),
    "float_pco": ([("Pco", "F64")], [("Pco", 2)], False),
    "plain_i64": ([], [("I64", 2)], True),
    "plain_f64": ([], [("F64", 2)], False),
    "all_null": ([], [("Null", 0)], False),
    "int_u64_lz4": ([("LZ4", "U64"), ("ToI64", "U64")], [("LZ4", 1)], True),
}
FIXED_PDS = {"int_u8_offset_nullable": [1], "str_dict_u8": [1, 2]}


def enc(t):
    return Agg("enum", [], name="EncodingType", variant=t)


class PartitionSegmentSpec(KernelSpec):
    diff_cases = 1
    dumps = ("main", "ser")

    def get_fn(self, ctx, inst):
        return None

    def instantiations(self, tier):
        return [{"nat": "partseg_roundtrip"}]

    def shapes(self, tier, inst):
        names = list(COLUMNS)
        out = [(n,) for n in names]
        if tier == "thorough":
            out += [("int_u8_offset_nullable", "str_hex"), ("float_pco", "all_null", "str_dict_u8")]
        else:
            out += [("str_hex", "int_delta_u16")]
        return out

    def sym_inputs(self, inst, shape):
        inp = {}
        pre = []
        for ci, cname in enumerate(shape):
            ops, data, has_range = COLUMNS[cname]
            p = f"c{ci}"
            inp[p + "len"] = sym("usize", p + "len")
            if has_range:
                inp[p + "range"] = [sym("i64", p + "r0"), sym("i64", p + "r1")]
            pds = list(FIXED_PDS.get(cname, []))
            for oi, (var, t) in enumerate(ops):
                k = f"{p}o{oi}"
                if var == "Add":
                    inp[k] = [sym("i64", k + "amt")]
                elif var == "PushDataSection":
                    inp[k] = [I("usize", pds.pop(0))]
                elif var == "LZ4":
                    inp[k] = [sym("usize", k + "n")]
                elif var == "Pco":
                    inp[k] = [sym("usize", k + "n"), sym("bool", k + "fp")]
                elif var == "UnhexpackStrings":
                    inp[k] = [sym("bool", k + "up"), sym("usize", k + "tb")]
            for di, (kind, n) in enumerate(data):
                k = f"{p}d{di}"
                if kind in ("U8", "Bitvec"):
                    inp[k] = [sym("u8", f"{k}_{i}") for i in range(n)]
                elif kind in ("U16", "U32", "U64", "I64"):
                    inp[k] = [sym(kind.lower(), f"{k}_{i}") for i in range(n)]
                elif kind == "F64":
                    inp[k] = [sym("f64", f"{k}_{i}") for i in range(n)]
                elif kind == "Null":
                    inp[k] = [sym("usize", k + "n")]
                elif kind == "LZ4":
                    inp[k] = [sym("usize", k + "db"), sym("usize", k + "bpe")] + [sym("u8", f"{k}_{i}") for i in range(n)]
                elif kind == "Pco":
                    inp[k] = [sym("usize", k + "db"), sym("usize", k + "bpe"), sym("bool", k + "fp")] + [sym("u8", f"{k}_{i}") for i in range(n)]
        return inp, pre

    # ---- building the input columns ---------------------------------------------------------------------------
    def build_op(self, var, t, vals):
        if var in ("Nullable", "UnpackStrings"):
            return Agg("enum", [], name="CodecOp", variant=var)
        if var == "Add":
            return Agg("enum", [enc(t), vals[0]], name="CodecOp", variant="Add")
        if var in ("Delta", "ToI64", "DictLookup"):
            return Agg("enum", [enc(t)], name="CodecOp", variant=var)
        if var == "PushDataSection":
            return Agg("enum", [vals[0]], name="CodecOp", variant=var)
        if var == "LZ4":
            return Agg("enum", [enc(t), vals[0]], name="CodecOp", variant="LZ4")
        if var == "Pco":
            return Agg("enum", [enc(t), vals[0], vals[1]], name="CodecOp", variant="Pco")
        if var == "UnhexpackStrings":
            return Agg("enum", [vals[0], vals[1]], name="CodecOp", variant="UnhexpackStrings")
        raise interp.Unsupported("op " + var)

    def build_section(self, kind, vals):
        if kind in ("U8", "Bitvec", "U16", "U32", "U64", "I64"):
            return Agg("enum", [VecObj(list(vals), "u8" if kind == "Bitvec" else kind.lower())], name="DataSection", variant=kind)
        if kind == "F64":
            return Agg("enum", [VecObj([Agg("struct", [v], name="OrderedFloat") for v in vals])], name="DataSection", variant="F64")
        if kind == "Null":
            return Agg("enum", [vals[0]], name="DataSection", variant="Null")
        fields = self._ds_fields[kind]
        named = {"decoded_bytes": vals[0], "bytes_per_element": vals[1]}
        if kind == "Pco":
            named["is_fp32"] = vals[2]
            named["data"] = VecObj(list(vals[3:]), "u8")
        else:
            named["data"] = VecObj(list(vals[2:]), "u8")
        return Agg("enum", [named[f] for f in fields], name="DataSection", variant=kind)

    def explore(self, ctx, ex, fn, inst, shape, inp, pre):
        src = ctx.src()
        cfs = src.struct_fields("Column", having="codec")
        kfs = src.struct_fields("Codec")
        if cfs is None or kfs is None:
            raise interp.Unsupported("Column / Codec definitions not found")
        self._ds_fields = {}
        for kind in ("LZ4", "Pco"):
            fs = src.variant_fields("DataSection", kind) if hasattr(src, "variant_fields") else None
            self._ds_fields[kind] = fs or (["decoded_bytes", "bytes_per_element", "data"] + (["is_fp32"] if kind == "Pco" else []))
        cols = []
        for ci, cname in enumerate(shape):
            ops, data, has_range = COLUMNS[cname]
            p = f"c{ci}"
            opv = [self.build_op(var, t, inp.get(f"{p}o{oi}")) for oi, (var, t) in enumerate(ops)]
            dsv = [self.build_section(kind, inp[f"{p}d{di}"]) for di, (kind, n) in enumerate(data)]
            codec = Agg("struct", [VecObj(opv) if f == "ops" else Havoc("?", f) for f in kfs], name="Codec")
            rng = Agg("enum", [Agg("tuple", list(inp[p + "range"]))], name="Option", variant="Some") if has_range else Agg("enum", [], name="Option", variant="None")
            named = {"name": VecObj([I("u8", b) for b in cname.encode()], "u8", is_str=True), "len": inp[p + "len"], "range": rng, "codec": codec, "data": VecObj(dsv)}
            if set(cfs) != set(named):
                raise interp.Unsupported(f"Column has unexpected fields {cfs}")
            cols.append(Ref(Cell(Agg("struct", [named[f] for f in cfs], name="Column"))))

        def column_new(ex_, st, fr, path, args, m):
            # Column::new copies the name (name.to_string()): record its bytes now, the &str points into a loop local
            el, lo, hi = seq_of(args[0])
            return Agg("struct", [VecObj(list(el[lo:hi]), "u8", is_str=True)] + list(args[1:]), name="RecordedColumn")
        ex.stubs = [(re.compile(r"(?:^|::)Column::new$"), column_new)]
        ser, _ = ex.resolve_method("PartitionSegment", None, "serialize")
        de, _ = ex.resolve_method("PartitionSegment", None, "deserialize")
        from ..pyengine import run_sequence
        from ..mirsym.models import slice_ref
        calls = [(ser, lambda env: [slice_arg(cols)], {}, "bytes"),
                 (de, lambda env: [Ref(env["bytes"], (), (0, len(env["bytes"].v.elems)))], {})]
        return run_sequence(ex, pre, {}, calls)

    # ---- views -----------------------------------------------------------------------------------------------------
    def view(self, value):
        """Result<PartitionSegment> -> list of (name bytes, len, range, ops, sections) with ops/sections as (variant, [payload I...])"""
        if isinstance(value, list):
            return value
        if value.variant != "Ok":
            return None
        seg = value.fields[0]
        out = []
        for rc in seg.fields[0].elems:
            name, ln, rng, codec, data = rc.fields
            el, lo, hi = seq_of(name)
            nm = bytes(e.v for e in el[lo:hi])
            r = None if rng.variant == "None" else list(rng.fields[0].fields)
            ops = []
            for o in codec.elems:
                pl = []
                for f in o.fields:
                    pl.append(f.variant if isinstance(f, Agg) and f.kind == "enum" else f)
                ops.append((o.variant, pl))
            secs = []
            for d in data.elems:
                pl = []
                for f in d.fields:
                    if isinstance(f, VecObj):
                        pl.append([e.fields[0] if isinstance(e, Agg) else e for e in f.elems])
                    else:
                        pl.append(f)
                secs.append((d.variant, pl))
            out.append((nm, ln, r, ops, secs))
        return out

    def expected(self, shape, inp):
        out = []
        for ci, cname in enumerate(shape):
            ops, data, has_range = COLUMNS[cname]
            p = f"c{ci}"
            eo = []
            for oi, (var, t) in enumerate(ops):
                vals = inp.get(f"{p}o{oi}") or []
                eo.append((var, ([t] if t else []) + list(vals)))
            es = []
            for di, (kind, n) in enumerate(data):
                vals = inp[f"{p}d{di}"]
                if kind == "Null":
                    es.append((kind, [vals[0]]))
                elif kind == "LZ4":
                    es.append((kind, {"decoded_bytes": vals[0], "bytes_per_element": vals[1], "data": list(vals[2:])}))
                elif kind == "Pco":
                    es.append((kind, {"decoded_bytes": vals[0], "bytes_per_element": vals[1], "is_fp32": vals[2], "data": list(vals[3:])}))
                else:
                    es.append((kind, [list(vals)]))
            out.append((cname.encode(), inp[p + "len"], list(inp[p + "range"]) if has_range else None, eo, es))
        return out

    def post(self, inst, shape, inp, value, state=None):
        got = self.view(value)
        if got is None:
            return [("deserialize(serialize(columns)) is Ok", B(False))]
        want = self.expected(shape, inp)
        conds = [("same number of columns", B(len(got) == len(want)))]
        if len(got) != len(want):
            return conds

        def eqv(a, b):
            if isinstance(a, str) or isinstance(b, str):
                return B(a == b)
            if isinstance(a, I) and isinstance(b, I):
                if a.ty == "f64" or b.ty == "f64":
                    return binop("Eq", I("u64", a.v), I("u64", b.v))
                if a.ty != b.ty and not (a.ty == "bool" or b.ty == "bool"):
                    from ..mirsym.values import cast_int
                    return binop("Eq", cast_int(a, "u64"), cast_int(b, "u64"))
                return binop("Eq", a, b)
            if isinstance(a, list) and isinstance(b, list):
                if len(a) != len(b):
                    return B(False)
                return band(*[eqv(x, y) for x, y in zip(a, b)]) if a else B(True)
            return B(False)
        for ci, ((gn, gl, gr, gops, gsecs), (wn, wl, wr, wops, wsecs)) in enumerate(zip(got, want)):
            c = f"column {ci} ({wn.decode()})"
            conds.append((f"{c}: name preserved", B(gn == wn)))
            conds.append((f"{c}: length preserved", eqv(gl, wl)))
            conds.append((f"{c}: range preserved", B((gr is None) == (wr is None)) if (gr is None or wr is None) else eqv(gr, wr)))
            conds.append((f"{c}: same number of codec ops and data sections", B(len(gops) == len(wops) and len(gsecs) == len(wsecs))))
            if len(gops) != len(wops) or len(gsecs) != len(wsecs):
                continue
            for oi, ((gv, gp), (wv, wp)) in enumerate(zip(gops, wops)):
                conds.append((f"{c}: codec op {oi} is {wv}", B(gv == wv)))
                if gv == wv:
                    conds.append((f"{c}: codec op {oi} ({wv}) payload preserved", eqv(gp, wp)))
            for di, ((gv, gp), (wv, wp)) in enumerate(zip(gsecs, wsecs)):
                conds.append((f"{c}: data section {di} is {wv}", B(gv == wv)))
                if gv != wv:
                    continue
                if isinstance(wp, dict):
                    fields = self._ds_fields[wv]
                    gp = dict(zip(fields, gp)) if not isinstance(gp, dict) else gp
                    for f in fields:
                        conds.append((f"{c}: data section {di} ({wv}) field {f} preserved", eqv(gp[f], wp[f])))
                else:
                    conds.append((f"{c}: data section {di} ({wv}) content preserved", eqv(gp, wp)))
        return conds

    def panic_ok(self, inst, shape, inp, msg):
        return B(False)

    def random_inputs(self, rng, inst, shape):
        inp, _ = self.sym_inputs(inst, shape)
        out = {}
        for k, vals in inp.items():
            if isinstance(vals, list):
                out[k] = [v if v.concrete else I(v.ty, rng.randint(0, 1) if v.ty == "bool" else (rng.getrandbits(62) if v.ty == "f64" else rnd_int(rng, v.ty if v.ty != "usize" else "u32"))) for v in vals]
            else:
                out[k] = vals if vals.concrete else I(vals.ty, rng.randint(0, 1000))
        return out

    def native(self, inst, shape, inp):
        if inp is None:
            return ("partseg_roundtrip", [])
        toks = []
        for ci, cname in enumerate(shape):
            ops, data, has_range = COLUMNS[cname]
            p = f"c{ci}"
            ot = []
            for oi, (var, t) in enumerate(ops):
                vals = inp.get(f"{p}o{oi}") or []
                ot.append(":".join([var] + ([t] if t else []) + [str(v.v) for v in vals]))
            dt = []
            for di, (kind, n) in enumerate(data):
                vals = inp[f"{p}d{di}"]
                if kind == "Null":
                    dt.append(f"Null:{vals[0].v}")
                elif kind == "LZ4":
                    dt.append(f"LZ4:{vals[0].v}:{vals[1].v}:{fmt_ints(vals[2:])}")
                elif kind == "Pco":
                    dt.append(f"Pco:{vals[0].v}:{vals[1].v}:{vals[2].v}:{fmt_ints(vals[3:])}")
                else:
                    dt.append(f"{kind}:{fmt_ints(vals)}")
            r = f"{inp[p + 'range'][0].v}:{inp[p + 'range'][1].v}" if has_range else "none"
            toks.append("/".join([cname, str(inp[p + "len"].v), r, ";".join(ot) or "-", "|".join(dt) or "-"]))
        return ("partseg_roundtrip", toks)

    def parse_native(self, inst, shape, toks):
        out = []
        for tok in toks:
            name, ln, r, ot, dt = tok.split("/")
            rng = None if r == "none" else [I("i64", int(x)) for x in r.split(":")]
            ops = []
            if ot != "-":
                for o in ot.split(";"):
                    parts = o.split(":")
                    var = parts[0]
                    pl = []
                    for x in parts[1:]:
                        if x in ET:
                            pl.append(x)
                        elif x in ("true", "false"):
                            pl.append(I("bool", x == "true"))
                        else:
                            pl.append(I("i64" if var == "Add" else "usize", int(x)))
                    ops.append((var, pl))
            secs = []
            if dt != "-":
                for d in dt.split("|"):
                    parts = d.split(":")
                    kind = parts[0]
                    if kind == "Null":
                        secs.append((kind, [I("usize", int(parts[1]))]))
                    elif kind == "LZ4":
                        secs.append((kind, {"decoded_bytes": I("usize", int(parts[1])), "bytes_per_element": I("usize", int(parts[2])), "data": parse_ints(parts[3], "u8")}))
                    elif kind == "Pco":
                        secs.append((kind, {"decoded_bytes": I("usize", int(parts[1])), "bytes_per_element": I("usize", int(parts[2])), "is_fp32": I("bool", parts[3] == "true"), "data": parse_ints(parts[4], "u8")}))
                    else:
                        ty = {"Bitvec": "u8", "F64": "f64"}.get(kind, kind.lower())
                        secs.append((kind, [parse_ints(parts[1], ty)]))
            out.append((name.encode(), I("usize", int(ln)), rng, ops, secs))
        return out

    def native_view(self, inst, shape, v, st):
        got = self.view(v)
        if got is None:
            return None
        out = []
        for (nm, ln, r, ops, secs) in got:
            s2 = []
            for kind, pl in secs:
                if kind in ("LZ4", "Pco"):
                    s2.append((kind, dict(zip(self._ds_fields[kind], pl))))
                else:
                    s2.append((kind, pl))
            out.append((nm, ln, r, ops, s2))
        return out
