"""C01.b / C07.a / C13.a : null-map and type bookkeeping of mem_store::column_buffer::ColumnBuffer"""
import itertools

import z3

from .common import *
from ..pyengine import run_sequence
from ..mirsym import interp
from ..mirsym.values import cast_int_to_float, UNINIT

CB = "mem_store::column_buffer::ColumnBuffer"


def nb(k):
    return (k + 7) // 8


def bit(bm, i):
    if i // 8 >= len(bm):
        return B(False)
    return binop("Ne", binop("BitAnd", bm[i // 8], I("u8", 1 << (i % 8))), I("u8", 0))


class ColBufSpec(KernelSpec):
    """shape = (init, ops): init = ('default',) | ('null', k); ops = tuple of ('I', k, withmap) | ('F', k, withmap) | ('N', k)"""
    diff_cases = 1
    which = "C01"

    def get_fn(self, ctx, inst):
        return None

    def instantiations(self, tier):
        return [{"nat": "colbuf"}]

    # ---- op sequences ---------------------------------------------------------------------
    def shapes(self, tier, inst):
        out = []
        if self.which == "C07":
            # the call sequences InnerLocustDB::compact makes: a fresh builder, then one push per partition with the
            # partition's decoded column: non-nullable (None), nullable (Some(map)) or all-NULL (push_nulls)
            parts = [("I", 2, False), ("I", 2, True), ("N", 2), ("F", 2, True), ("F", 1, False)]
            base = list(parts)
            if tier == "thorough":
                parts += [("I", 9, True), ("N", 9), ("I", 7, False), ("I", 3, True), ("F", 3, True)]
            n = 2      # three-part sequences did not finish within 15 minutes in this session: outside the claim of both tiers
            for k in range(1, n + 1):
                # the larger parts appear alone only; two- and three-part sequences use the five basic parts (sequences of the
                # 9-row parts ran for over an hour without finishing - stated bound, not a result)
                for seq in itertools.product(parts if k == 1 else base, repeat=k):
                    if tier == "thorough" and k == 3 and sum(o[1] for o in seq) > 14:
                        continue
                    kinds = {o[0] for o in seq} - {"N"}
                    out.append((("default",), seq))
            return out
        if self.which == "C13":
            # a column first seen after k rows / not mentioned by a batch / all-NULL parts
            ks = (1, 8, 9) if tier == "quick" else (1, 7, 8, 9, 16, 17)
            for k0 in ks:
                for seq in ([("I", 1, False)], [("I", 2, False), ("N", 1)], [("F", 1, False)], [("N", 2), ("I", 1, False)],
                            [("I", 1, False), ("N", 7), ("I", 1, False)], [("N", 1)]):
                    out.append((("null", k0), tuple(seq)))
            for k0 in ks:
                out.append((("default",), (("I", 1, False), ("N", k0), ("I", 1, False))))
                out.append((("default",), (("I", k0, False), ("N", 1), ("I", 1, False))))
            return out
        inits = [("default",), ("null", 1), ("null", 8)] + ([("null", 9), ("null", 7), ("null", 17)] if tier == "thorough" else [])
        alpha = [("I", 1, False), ("I", 2, True), ("N", 1), ("N", 7), ("F", 1, False), ("F", 2, True)]
        if tier == "thorough":
            alpha += [("I", 9, True), ("N", 8), ("N", 9), ("I", 7, False), ("F", 9, True)]
        maxops = 2 if tier == "quick" else 3
        for init in inits:
            for k in range(0, maxops + 1):
                for seq in itertools.product(alpha, repeat=k):
                    if k == 3 and sum(o[1] for o in seq) > 12:
                        continue
                    out.append((init, seq))
        if tier == "quick":
            out += [(("default",), (("I", 7, False), ("N", 1), ("I", 1, False))), (("default",), (("I", 8, False), ("N", 1), ("I", 1, False))),
                    (("null", 7), (("I", 1, False), ("N", 1), ("F", 1, False))), (("default",), (("I", 2, True), ("I", 2, True), ("N", 1)))]
        return out

    def sym_inputs(self, inst, shape):
        init, ops = shape
        inp = {}
        for n, op in enumerate(ops):
            if op[0] == "I":
                # IntColBuffer::push branches three ways per element on its value (monotonicity bookkeeping): keep at
                # most 2 symbolic values per append, the others concrete and increasing (they only pad to a bitmap boundary)
                inp[f"v{n}"] = [sym("i64", f"v{n}_{i}") if i < 2 else I("i64", 1000 * (n + 1) + i) for i in range(op[1])]
            elif op[0] == "F":
                inp[f"v{n}"] = [sym("f64", f"f{n}_{i}") for i in range(op[1])]
            if op[0] in "IF" and op[2]:
                inp[f"m{n}"] = [sym("u8", f"m{n}_{i}") for i in range(nb(op[1]))]
        return inp, []

    def explore(self, ctx, ex, fn, inst, shape, inputs, pre):
        init, ops = shape
        calls = []
        if init[0] == "default":
            f, _ = ex.resolve_method("ColumnBuffer", "Default", "default")
            calls.append((f, lambda env: [], {}, "cb"))
        else:
            f, _ = ex.resolve_method("ColumnBuffer", None, "null")
            calls.append((f, lambda env, k=init[1]: [I("usize", k)], {}, "cb"))
        for n, op in enumerate(ops):
            if op[0] == "N":
                f, _ = ex.resolve_method("ColumnBuffer", None, "push_nulls")
                calls.append((f, lambda env, k=op[1]: [Ref(env["cb"], (), None, False, True), I("usize", k)], {}))
            else:
                name = "push_ints" if op[0] == "I" else "push_floats"
                f, _ = ex.resolve_method("ColumnBuffer", None, name)

                def build(env, n=n, op=op):
                    vals = inputs[f"v{n}"]
                    if op[0] == "F":
                        vals = [Agg("struct", [v], name="OrderedFloat") for v in vals]
                    elems = VecObj(list(vals))
                    if op[2]:
                        pm = Agg("enum", [slice_arg(inputs[f"m{n}"])], name="Option", variant="Some")
                    else:
                        pm = Agg("enum", [], name="Option", variant="None")
                    return [Ref(env["cb"], (), None, False, True), elems, pm]
                ity = "std::vec::Vec<i64>" if op[0] == "I" else "std::vec::Vec<ordered_float::OrderedFloat<f64>>"
                calls.append((f, build, {"I": ity}))
        return run_sequence(ex, pre, {}, calls)

    # ---- reference -----------------------------------------------------------------------
    def reference(self, shape, inp):
        """list of rows: None (NULL) | ('i', I) | ('f', I f64)  with a presence condition I(bool) per row"""
        init, ops = shape
        rows = []
        if init[0] == "null":
            rows += [("n", None, B(False))] * init[1]
        for n, op in enumerate(ops):
            if op[0] == "N":
                rows += [("n", None, B(False))] * op[1]
            else:
                for i in range(op[1]):
                    pres = bit(inp[f"m{n}"], i) if op[2] else B(True)
                    rows.append(("i" if op[0] == "I" else "f", inp[f"v{n}"][i], pres))
        return rows

    def view(self, cb):
        """(kind, length I, data list | None, present list | None) from the ColumnBuffer value"""
        buf, length, present = cb.fields[0], cb.fields[1], cb.fields[2]
        kind = buf.variant
        data = None
        if kind in ("Int", "Float"):
            data = elems_of(buf.fields[0].fields[0])
            if kind == "Float":
                data = [d.fields[0] if isinstance(d, Agg) else d for d in data]
        pres = None
        if present.variant == "Some":
            pres = elems_of(present.fields[0])
        return kind, length, data, pres

    def post(self, inst, shape, inp, value, state=None):
        cb = state.env["cb"].v if state is not None else value
        kind, length, data, pres = self.view(cb)
        rows = self.reference(shape, inp)
        n = len(rows)
        conds = [("length == number of rows appended", binop("Eq", length, I("usize", n)))]
        has_int = any(r[0] == "i" for r in rows)
        has_float = any(r[0] == "f" for r in rows)
        want_kind = "Float" if has_float else ("Int" if has_int else "Empty")
        conds.append((f"buffer type is {want_kind} (int+float degrades to float)", B(kind == want_kind)))
        if kind != want_kind:
            return conds
        if kind == "Empty":
            return conds
        conds.append(("one stored slot per row (no row lost or shifted)", B(len(data) == n)))
        if len(data) != n:
            return conds
        for r, (k, v, p) in enumerate(rows):
            isset = bit(pres, r) if pres is not None else B(True)
            if k == "n":
                conds.append((f"row {r} (no value supplied) reads as NULL", bnot(isset)))
                continue
            conds.append((f"row {r}: NULL exactly where the incoming null map says so", binop("Eq", isset, p)))
            if kind == "Int":
                stored_ok = binop("Eq", data[r], v)
            elif k == "f":
                stored_ok = binop("Eq", I("u64", data[r].v), I("u64", v.v))
            else:
                stored_ok = binop("Eq", I("u64", data[r].v), I("u64", cast_int_to_float(v, "f64").v))
            conds.append((f"row {r}: stored value equals the supplied one", implies(p, stored_ok)))
        return conds

    # ---- native --------------------------------------------------------------------------
    def random_inputs(self, rng, inst, shape):
        if rng.random() < 0.8:
            return None
        init, ops = shape
        inp = {}
        for n, op in enumerate(ops):
            if op[0] == "I":
                inp[f"v{n}"] = [I("i64", rnd_int(rng, "i64")) for _ in range(op[1])]
            elif op[0] == "F":
                inp[f"v{n}"] = [I("f64", rng.choice([0, 1 << 63, 0x3ff0000000000000, 0x7ff0000000000000, rng.getrandbits(64)])) for _ in range(op[1])]
            if op[0] in "IF" and op[2]:
                inp[f"m{n}"] = [I("u8", rng.randint(0, 255)) for _ in range(nb(op[1]))]
        return inp

    def native(self, inst, shape, inp):
        if inp is None:
            return ("colbuf", [])
        init, ops = shape
        toks = ["default" if init[0] == "default" else f"null:{init[1]}"]
        for n, op in enumerate(ops):
            if op[0] == "N":
                toks.append(f"N:{op[1]}")
            else:
                m = fmt_ints(inp[f"m{n}"]) if op[2] else "none"
                toks.append(f"{op[0]}:{fmt_ints(inp[f'v{n}'])}:{m}")
        return ("colbuf", toks)

    def parse_native(self, inst, shape, toks):
        # <len> <kind> <data> <present>
        length = I("usize", int(toks[0]))
        kind = toks[1]
        if kind == "Int":
            buf = Agg("enum", [Agg("struct", [VecObj(parse_ints(toks[2], "i64"))], name="IntColBuffer")], name="TypedBuffer", variant="Int")
        elif kind == "Float":
            buf = Agg("enum", [Agg("struct", [VecObj(parse_ints(toks[2], "f64"))], name="FloatColBuffer")], name="TypedBuffer", variant="Float")
        else:
            buf = Agg("enum", [], name="TypedBuffer", variant=kind)
        if toks[3] == "none":
            pres = Agg("enum", [], name="Option", variant="None")
        else:
            pres = Agg("enum", [VecObj(parse_ints(toks[3], "u8"))], name="Option", variant="Some")
        return Agg("struct", [buf, length, pres], name="ColumnBuffer")

    def native_view(self, inst, shape, v, st):
        cb = st.env["cb"].v
        kind, length, data, pres = self.view(cb)
        if kind in ("Int", "Float"):
            buf = Agg("enum", [Agg("struct", [VecObj([I("i64" if kind == "Int" else "f64", d.v) for d in data])])], name="TypedBuffer", variant=kind)
        else:
            buf = Agg("enum", [], name="TypedBuffer", variant=kind)
        p = Agg("enum", [VecObj(pres)], name="Option", variant="Some") if pres is not None else Agg("enum", [], name="Option", variant="None")
        return Agg("struct", [buf, length, p], name="ColumnBuffer")


class ColBufC07(ColBufSpec):
    which = "C07"


class ColBufC13(ColBufSpec):
    which = "C13"


# ----------------------------------------------------------------------------------------------------
# C01.g : type degradation (Empty/Int/Float/String/Mixed) through push_val and the conversion done by finalize
# ----------------------------------------------------------------------------------------------------
import re as _re
from ..mirsym.models import iter_next, iter_clone, seq_of, IterV
from ..mirsym.values import Opaque


class MixedFinalizeSpec(KernelSpec):
    """shape = tuple of value kinds pushed with ColumnBuffer::push_val: 'i' int, 'f' float, 's' string, 'n' NULL.
    After finalize the column handed to the column builders has exactly one slot per row, string rows keep their bytes,
    and rows without a value are NULL."""
    diff_cases = 1

    def get_fn(self, ctx, inst):
        return None

    def instantiations(self, tier):
        return [{"nat": "colbuf_pushval"}]

    def shapes(self, tier, inst):
        import itertools
        out = []
        for k in range(1, (3 if tier == "quick" else 4) + 1):
            for seq in itertools.product("ifsn", repeat=k):
                if tier == "quick" and k == 3 and "s" not in seq:
                    continue
                out.append(seq)
        return out

    def sym_inputs(self, inst, shape):
        inp = {}
        pre = []
        for k, kind in enumerate(shape):
            if kind == "i":
                inp[f"v{k}"] = I("i64", 10 + k)          # concrete: IntColBuffer::push forks on values, not the subject here
            elif kind == "f":
                inp[f"v{k}"] = sym("f64", f"f{k}")
            elif kind == "s":
                b = sym("u8", f"s{k}")
                pre += [z3.UGE(b.v, 0x67), z3.ULE(b.v, 0x7a)]      # one ASCII letter g..z (not hex)
                inp[f"v{k}"] = [b]
        return inp, pre

    def rawval(self, kind, v):
        if kind == "i":
            return Agg("enum", [v], name="RawVal", variant="Int")
        if kind == "f":
            return Agg("enum", [Agg("struct", [v], name="OrderedFloat")], name="RawVal", variant="Float")
        if kind == "s":
            return Agg("enum", [VecObj(list(v), "u8", is_str=True)], name="RawVal", variant="Str")
        return Agg("enum", [], name="RawVal", variant="Null")

    def explore(self, ctx, ex, fn, inst, shape, inp, pre):
        def rec_strings(ex_, st, fr, path, args, m):
            # fast_build_string_column(name, strings, len, lhex, uhex, total_bytes, present)
            it = args[1]
            work = iter_clone(it) if isinstance(it, IterV) else None
            strs = []
            while work is not None:
                o = iter_next(ex_, st, work)
                if o.variant == "None":
                    break
                el, lo, hi = seq_of(o.fields[0])
                strs.append(list(el[lo:hi]))
            st.env["built"] = {"kind": "str", "len": args[2], "strings": strs, "present": args[6]}
            return Ref(Cell(Opaque("Column")))

        def rec_ints(ex_, st, fr, path, args, m):
            st.env["built"] = {"kind": "int", "len": I("usize", len(args[1].elems)), "vals": list(args[1].elems), "present": args[5]}
            return Ref(Cell(Opaque("Column")))

        def rec_floats(ex_, st, fr, path, args, m):
            st.env["built"] = {"kind": "float", "len": I("usize", len(args[1].elems)), "vals": list(args[1].elems), "present": args[2]}
            return Ref(Cell(Opaque("Column")))

        def rec_null(ex_, st, fr, path, args, m):
            st.env["built"] = {"kind": "null", "len": args[1], "present": Agg("enum", [], name="Option", variant="None")}
            return Opaque("Column")
        ex.stubs = [(_re.compile(r"(?:^|::)fast_build_string_column::<"), rec_strings), (_re.compile(r"(?:^|::)IntegerColumn::new_boxed$"), rec_ints),
                    (_re.compile(r"(?:^|::)FloatColumn::new_boxed$"), rec_floats), (_re.compile(r"(?:^|::)Column::null$"), rec_null),
                    (_re.compile(r"^std::mem::transmute::<Vec<f64>|^(?:core|std)::intrinsics::transmute::<Vec<f64>"), lambda ex_, st, fr, path, args, m: args[0])]
        dflt, _ = ex.resolve_method("ColumnBuffer", "Default", "default")
        push, _ = ex.resolve_method("ColumnBuffer", None, "push_val")
        fin, _ = ex.resolve_method("ColumnBuffer", None, "finalize")
        calls = [(dflt, lambda env: [], {}, "cb")]
        for k, kind in enumerate(shape):
            calls.append((push, lambda env, k=k, kind=kind: [Ref(env["cb"], (), None, False, True), self.rawval(kind, inp.get(f"v{k}"))], {}))
        from .routing import str_ref
        calls.append((fin, lambda env: [env["cb"].v, str_ref([I("u8", 120)])], {}))
        return run_sequence(ex, pre, {}, calls)

    def view(self, state):
        b = state.env.get("built")
        if b is None:
            return None
        pres = b["present"]
        p = None
        if isinstance(pres, Agg) and pres.variant == "Some":
            p = list(pres.fields[0].elems)
        return {"kind": b["kind"], "len": b["len"], "strings": b.get("strings"), "nvals": len(b.get("vals", b.get("strings") or [])) if b["kind"] != "null" else None, "present": p}

    def post(self, inst, shape, inp, value, state=None):
        v = self.view(state) if state is not None else value
        n = len(shape)
        if v is None:
            return [("finalize builds a column", B(False))]
        kinds = set(shape) - {"n"}
        want = "null" if not kinds else ("str" if ("s" in kinds or len(kinds) > 1 and "s" in kinds) else ("float" if "f" in kinds else "int"))
        if "s" in kinds:
            want = "str"
        conds = [("column length == number of rows pushed", binop("Eq", v["len"], I("usize", n))),
                 (f"column type is the documented common type ({want})", B(v["kind"] == want))]
        if v["kind"] != "null":
            conds.append(("one stored slot per row (no row lost or shifted)", B(v["nvals"] == n)))
        if v["kind"] == "str" and v["nvals"] == n:
            for k, kind in enumerate(shape):
                if kind == "s":
                    got = v["strings"][k]
                    if got is None:
                        continue
                    conds.append((f"row {k}: string stored at its own row", B(len(got) == 1) if len(got) != 1 else binop("Eq", got[0], inp[f"v{k}"][0])))
        if "n" in shape and v["kind"] != "null":
            conds.append(("a null map is kept when some row has no value", B(v["present"] is not None)))
            if v["present"] is not None:
                for k, kind in enumerate(shape):
                    conds.append((f"row {k}: NULL exactly where no value was pushed", binop("Eq", bit(v["present"], k), B(kind != "n"))))
        return conds

    def random_inputs(self, rng, inst, shape):
        inp, _ = self.sym_inputs(inst, shape)
        out = {}
        for k, v in inp.items():
            if isinstance(v, list):
                out[k] = [I("u8", rng.randint(0x67, 0x7a))]
            elif v.concrete:
                out[k] = v
            else:
                out[k] = I("f64", rng.choice([0x3ff8000000000000, 0x4004000000000000, 0xbff0000000000000]))
        return out

    def native(self, inst, shape, inp):
        if inp is None:
            return ("colbuf_pushval", [])
        toks = []
        for k, kind in enumerate(shape):
            if kind == "i":
                toks.append(f"i:{inp[f'v{k}'].v}")
            elif kind == "f":
                toks.append(f"f:{inp[f'v{k}'].v}")
            elif kind == "s":
                toks.append("s:" + bytes(x.v for x in inp[f"v{k}"]).hex())
            else:
                toks.append("n")
        return ("colbuf_pushval", toks)

    def parse_native(self, inst, shape, toks):
        # <len> <kind> <nvals|-> <strings hex,..|-> <present|none>
        kind = toks[1]
        strs = None
        if kind == "str":
            strs = [] if toks[3] == "-" else [[I("u8", x) for x in bytes.fromhex(h)] if h != "_" else [] for h in toks[3].split(",")]
        if strs is not None:
            strs = [x if (k < len(shape) and shape[k] == "s") else None for k, x in enumerate(strs)]
        pres = None if toks[4] == "none" else parse_ints(toks[4], "u8")
        return {"kind": kind, "len": I("usize", int(toks[0])), "strings": strs, "nvals": None if toks[2] == "-" else int(toks[2]),
                "present": pres}

    def native_view(self, inst, shape, v, st):
        d = self.view(st)
        if d and d["strings"] is not None:
            # number renderings (i64/f64 to_string) are not modelled: compare only the rows that were pushed as strings
            d = dict(d)
            d["strings"] = [x if (k < len(shape) and shape[k] == "s") else None for k, x in enumerate(d["strings"])]
        if d and d["present"] is not None:
            d["present"] = d["present"][:nb(len(shape))]
        return d
