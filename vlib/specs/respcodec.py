"""C16.f : query response codec, end to end.  QueryResponse::serialize then QueryResponse::deserialize (both from the MIR of
locustdb-serialization, including Column::serialize_builder's branch chain, the delta / double-delta encoders and the real
decoding loops of Column::deserialize_reader) give back the same columns.  capnp: environment model (schemas/api.capnp)."""
import z3

from .common import *
from ..mirsym import interp
from ..mirsym.models import hashmap_new, hashmap_entries
from ..pyengine import run_sequence


def cstr(b):
    return VecObj([I("u8", x) for x in b], "u8", is_str=True)


# shape = tuple of (column name, kind, n)
SHAPES_QUICK = [(("x", "Int", 0),), (("x", "Int", 1),), (("x", "Int", 2),), (("x", "Int", 3),), (("f", "Float", 2),), (("s", "String", 2),), (("m", "Mixed", "ifsn"),),
                (("n", "Null", 0),), (("z", "Xor", 2),), (("x", "Int", 2), ("f", "Float", 1))]
# (integer columns of 4 arbitrary values time out in z3 on the double-delta paths: 3 is the bound in both tiers)
SHAPES_THOROUGH = SHAPES_QUICK + [(("m", "Mixed", "nnsf"), ("s", "String", 1)), (("f", "Float", 0),), (("x", "Int", 1), ("y", "Int", 2))]


class QueryResponseCodecSpec(KernelSpec):
    dumps = ("ser",)
    diff_cases = 2
    max_paths = 60000

    def get_fn(self, ctx, inst):
        return None

    def instantiations(self, tier):
        return [{"nat": "query_response_roundtrip"}]

    def shapes(self, tier, inst):
        return list(range(len(SHAPES_QUICK))) if tier == "quick" else list(range(len(SHAPES_THOROUGH)))

    def sym_inputs(self, inst, shape):
        inp = {}
        for c, kind, n in SHAPES_THOROUGH[shape]:
            if kind == "Int":
                inp[c] = [sym("i64", f"{c}{i}") for i in range(n)]
            elif kind == "Float":
                inp[c] = [sym("f64", f"{c}{i}") for i in range(n)]
            elif kind == "String":
                inp[c] = [[sym("u8", f"{c}{i}_{j}") for j in range(i + 1)] for i in range(n)]
            elif kind == "Null":
                inp[c] = [sym("usize", c + "n")]
            elif kind == "Xor":
                inp[c] = [sym("u8", f"{c}{i}") for i in range(n)]
            else:
                inp[c] = [sym("i64", f"{c}{i}") if ch == "i" else sym("f64", f"{c}{i}") if ch == "f" else [sym("u8", f"{c}{i}_0")] if ch == "s" else None for i, ch in enumerate(n)]
        return inp, []

    def column(self, kind, n, vals):
        if kind == "Int":
            return Agg("enum", [VecObj(list(vals), "i64")], name="Column", variant="Int")
        if kind == "Float":
            return Agg("enum", [VecObj(list(vals), "f64")], name="Column", variant="Float")
        if kind == "String":
            return Agg("enum", [VecObj([VecObj(list(s), "u8", is_str=True) for s in vals])], name="Column", variant="String")
        if kind == "Null":
            return Agg("enum", [vals[0]], name="Column", variant="Null")
        if kind == "Xor":
            return Agg("enum", [VecObj(list(vals), "u8")], name="Column", variant="Xor")
        xs = []
        for ch, v in zip(n, vals):
            xs.append(Agg("enum", [v], name="AnyVal", variant="Int") if ch == "i" else Agg("enum", [v], name="AnyVal", variant="Float") if ch == "f"
                      else Agg("enum", [VecObj(list(v), "u8", is_str=True)], name="AnyVal", variant="Str") if ch == "s" else Agg("enum", [], name="AnyVal", variant="Null"))
        return Agg("enum", [VecObj(xs)], name="Column", variant="Mixed")

    def explore(self, ctx, ex, fn, inst, shape, inp, pre):
        cols = hashmap_new([(cstr(c.encode()), self.column(kind, n, inp[c])) for c, kind, n in SHAPES_THOROUGH[shape]])
        qr = Agg("struct", [cols], name="QueryResponse")
        ser = [e for e in ex.impl_index().get("serialize", []) if e["hdr"]["self"].split("::")[-1] == "QueryResponse" and e["hdr"]["trait"] is None]
        de = [e for e in ex.impl_index().get("deserialize", []) if e["hdr"]["self"].split("::")[-1] == "QueryResponse" and e["hdr"]["trait"] is None]
        if len(ser) != 1 or len(de) != 1:
            raise interp.Unsupported("QueryResponse::{serialize,deserialize} not found uniquely")
        calls = [(ser[0]["fn"], lambda env: [Ref(Cell(qr))], {}, "bytes"),
                 (de[0]["fn"], lambda env: [Ref(env["bytes"], (), (0, len(env["bytes"].v.elems)))], {})]
        return run_sequence(ex, pre, {}, calls)

    def view(self, value):
        if isinstance(value, dict) or value is None:
            return value
        if value.variant != "Ok":
            return None
        out = {}
        for e in hashmap_entries(value.fields[0].fields[0]):
            name = bytes(x.v for x in e.fields[0].elems).decode()
            col = e.fields[1]
            k = col.variant
            if k in ("Int", "Float", "Xor"):
                out[name] = (k, list(col.fields[0].elems))
            elif k == "String":
                out[name] = (k, [list(s.elems) for s in col.fields[0].elems])
            elif k == "Null":
                out[name] = (k, [col.fields[0]])
            else:
                out[name] = (k, [("n", None) if a.variant == "Null" else ("i", a.fields[0]) if a.variant == "Int" else ("f", a.fields[0]) if a.variant == "Float" else ("s", list(a.fields[0].elems)) for a in col.fields[0].elems])
        return out

    def post(self, inst, shape, inp, value, state=None):
        got = self.view(value)
        if got is None:
            return [("deserialize(serialize(response)) is Ok", B(False))]
        want = SHAPES_THOROUGH[shape]
        conds = [("same set of columns", B(set(got) == {c for c, _, _ in want}))]
        if set(got) != {c for c, _, _ in want}:
            return conds

        def eqbits(a, b):
            return binop("Eq", I("u64", a.v) if a.ty == "f64" else a, I("u64", b.v) if b.ty == "f64" else b)

        def eqbytes(a, b):
            return band(B(len(a) == len(b)), *[binop("Eq", x, y) for x, y in zip(a, b)])
        for c, kind, n in want:
            gk, gp = got[c]
            vals = inp[c]
            conds.append((f"column {c}: comes back as {kind}", B(gk == kind)))
            if gk != kind:
                continue
            conds.append((f"column {c}: one cell per row", B(len(gp) == len(vals))))
            if len(gp) != len(vals):
                continue
            for i, (g, w) in enumerate(zip(gp, vals)):
                if kind in ("Int", "Float", "Xor"):
                    conds.append((f"column {c} row {i}: value preserved" + (" (float bits)" if kind == "Float" else ""), eqbits(g, w)))
                elif kind == "Null":
                    conds.append((f"column {c}: row count of the all-NULL column preserved", binop("Eq", cast_int(g, "u64"), cast_int(w, "u64"))))
                elif kind == "String":
                    conds.append((f"column {c} row {i}: string preserved", eqbytes(g, w)))
                else:
                    ch = n[i]
                    if g[0] != ch:
                        conds.append((f"column {c} row {i}: kind preserved", B(False)))
                    elif ch in "if":
                        conds.append((f"column {c} row {i}: value preserved", eqbits(g[1], w)))
                    elif ch == "s":
                        conds.append((f"column {c} row {i}: string preserved", eqbytes(g[1], w)))
        return conds

    def panic_ok(self, inst, shape, inp, msg):
        return B(False)

    def random_inputs(self, rng, inst, shape):
        inp, _ = self.sym_inputs(inst, shape)
        base = rng.choice([0, 1000, -5, 2**40])
        step = rng.choice([0, 1, 7, -3, 1000, 2**33])
        mode = rng.random()

        def conc(v, i=[0]):
            if v is None:
                return None
            if isinstance(v, list):
                return [conc(x) for x in v]
            if v.ty == "u8":
                return I("u8", rng.randint(0x61, 0x7a))
            if v.ty == "f64":
                return I("f64", rng.choice([0, 1 << 63, 0x3ff0000000000000, 0x7ff0000000000000, rng.getrandbits(62)]))
            if v.ty == "usize":
                return I("usize", rng.randint(0, 9))
            i[0] += 1
            if mode < 0.6:
                return I("i64", base + step * i[0] + (rng.randint(-2, 2) if mode < 0.3 else 0))
            return I("i64", rnd_int(rng, "i64"))
        return {k: conc(v) for k, v in inp.items()}

    def native(self, inst, shape, inp):
        if inp is None:
            return ("query_response_roundtrip", [])
        toks = []
        for c, kind, n in SHAPES_THOROUGH[shape]:
            vals = inp[c]
            if kind in ("Int", "Float", "Xor"):
                toks.append(f"{c}:{kind}:{fmt_ints(vals)}")
            elif kind == "Null":
                toks.append(f"{c}:Null:{vals[0].v}")
            elif kind == "String":
                toks.append(f"{c}:String:" + ",".join(bytes(b.v for b in s).hex() for s in vals))
            else:
                toks.append(f"{c}:Mixed:" + ",".join("n" if ch == "n" else (ch + (bytes(b.v for b in v).hex() if ch == "s" else str(v.v))) for ch, v in zip(n, vals)))
        return ("query_response_roundtrip", toks)

    def parse_native(self, inst, shape, toks):
        out = {}
        for tok in toks:
            p = tok.split(":")
            c, kind = p[0], p[1]
            if kind in ("Int", "Float", "Xor"):
                out[c] = (kind, parse_ints(p[2], {"Int": "i64", "Float": "f64", "Xor": "u8"}[kind]))
            elif kind == "Null":
                out[c] = (kind, [I("usize", int(p[2]))])
            elif kind == "String":
                out[c] = (kind, [[I("u8", b) for b in bytes.fromhex(h)] for h in p[2].split(",")] if p[2] else [])
            else:
                pl = []
                for x in (p[2].split(",") if p[2] else []):
                    pl.append(("n", None) if x == "n" else ("s", [I("u8", b) for b in bytes.fromhex(x[1:])]) if x[0] == "s" else (x[0], I("i64" if x[0] == "i" else "f64", int(x[1:]))))
                out[c] = (kind, pl)
        return out

    def native_view(self, inst, shape, v, st):
        return self.view(v)


from ..mirsym.values import cast_int  # noqa: E402
