"""C14.d / C08.d : catalogue file codec.  MetaStore::serialize followed by MetaStore::deserialize (both from MIR) reproduce the
replay cursor and every partition entry (id, table, offset, len, sub-partition files with size, key and last column), and
rebuild the last-column routing map consistently.  capnp: environment model driven by schemas/dbmeta.capnp."""
import re
import z3

from .common import *
from ..mirsym import interp
from ..mirsym.values import Havoc, Opaque, UNIT
from ..mirsym.models import hashmap_new, hashmap_entries, btree_new, btree_entries, deref_val
from ..pyengine import run_sequence


def cstr(b):
    return VecObj([I("u8", x) for x in b], "u8", is_str=True)


# catalogue shapes: list of (table, [sub-partition (key, last_column)]) - one entry per partition
SHAPES = {
    "empty": [],
    "one": [("t", [("all", "zz")])],
    "split": [("t", [("b", "b"), ("d", "d"), ("x9", "q")])],
    "two_tables": [("t", [("all", "c")]), ("u", [("all", "a")])],
    "two_partitions": [("t", [("all", "c")]), ("t", [("k", "k"), ("m", "m")])],
    "no_files": [("t", [])],
}
QUICK = ["empty", "one", "split", "two_tables", "two_partitions"]


class MetaStoreCodecSpec(KernelSpec):
    dumps = ("main", "ser")
    diff_cases = 1

    def get_fn(self, ctx, inst):
        return None

    def instantiations(self, tier):
        return [{"nat": "metastore_roundtrip_full"}]

    def shapes(self, tier, inst):
        return QUICK if tier == "quick" else list(SHAPES)

    def sym_inputs(self, inst, shape):
        inp = {"next": sym("u64", "next"), "earliest": sym("u64", "earliest")}
        pre = [z3.ULE(inp["earliest"].v, inp["next"].v)]
        for pi, (t, subs) in enumerate(SHAPES[shape]):
            inp[f"p{pi}"] = [sym("u64", f"p{pi}id"), sym("usize", f"p{pi}off"), sym("usize", f"p{pi}len")]
            inp[f"p{pi}sz"] = [sym("u64", f"p{pi}s{k}") for k in range(len(subs))]
            # partition ids are unique within a table (they are allocated from a per-table counter)
            for pj in range(pi):
                if SHAPES[shape][pj][0] == t:
                    pre.append(inp[f"p{pi}"][0].v != inp[f"p{pj}"][0].v)
        return inp, pre

    def explore(self, ctx, ex, fn, inst, shape, inp, pre):
        src = ctx.src()
        mfs = src.struct_fields("MetaStore")
        pfs = src.struct_fields("PartitionMetadata")
        sfs = src.struct_fields("SubpartitionMetadata")
        if not mfs or not pfs or not sfs:
            raise interp.Unsupported("MetaStore / PartitionMetadata / SubpartitionMetadata definitions not found")
        self._f = (mfs, pfs, sfs)
        tables = {}
        for pi, (t, subs) in enumerate(SHAPES[shape]):
            pid, off, ln = inp[f"p{pi}"]
            sv = []
            bt = btree_new()
            for k, (key, last) in enumerate(subs):
                named = {"size_bytes": inp[f"p{pi}sz"][k], "subpartition_key": cstr(key.encode()), "last_column": cstr(last.encode()),
                         "loaded": Ref(Cell(Agg("struct", [I("bool", 0)], name="Atomic")))}
                sv.append(Agg("struct", [named[f] for f in sfs], name="SubpartitionMetadata"))
            for k, (key, last) in sorted(enumerate(subs), key=lambda x: x[1][1]):
                bt.fields[0].elems.append(Agg("tuple", [cstr(last.encode()), I("usize", k)]))
            named = {"id": pid, "tablename": cstr(t.encode()), "offset": off, "len": ln, "subpartitions": VecObj(sv), "subpartitions_by_last_column": bt}
            tables.setdefault(t, []).append((pid, Agg("struct", [named[f] for f in pfs], name="PartitionMetadata")))
        pm = hashmap_new([(cstr(t.encode()), hashmap_new(parts)) for t, parts in tables.items()])
        named = {"next_wal_id": inp["next"], "earliest_unflushed_wal_id": inp["earliest"], "partitions": pm}
        if set(mfs) != set(named):
            raise interp.Unsupported(f"MetaStore has unexpected fields {mfs}")
        ms = Agg("struct", [named[f] for f in mfs], name="MetaStore")

        def tracer(ex_, st, fr, path, args, m):
            return Opaque("span") if m.group(1) == "start_span" else UNIT
        ex.stubs = [(re.compile(r"SimpleTracer::(start_span|end_span|annotate)(?:::<.*>)?$"), tracer)]
        ser, _ = ex.resolve_method("MetaStore", None, "serialize")
        de, _ = ex.resolve_method("MetaStore", None, "deserialize")
        calls = [(ser, lambda env: [Ref(Cell(ms)), Ref(Cell(Opaque("tracer")), (), None, False, True)], {}, "bytes"),
                 (de, lambda env: [Ref(env["bytes"], (), (0, len(env["bytes"].v.elems)))], {})]
        return run_sequence(ex, pre, {}, calls)

    def view(self, value):
        if isinstance(value, dict) or value is None:
            return value
        if value.variant != "Ok":
            return None
        mfs, pfs, sfs = self._f
        ms = value.fields[0]
        parts = []
        for te in hashmap_entries(ms.fields[mfs.index("partitions")]):
            tname = bytes(e.v for e in te.fields[0].elems).decode()
            for pe in hashmap_entries(te.fields[1]):
                p = pe.fields[1]
                subs = []
                for s in p.fields[pfs.index("subpartitions")].elems:
                    a = s.fields[sfs.index("loaded")]
                    while isinstance(a, Ref):
                        a = deref_val(a)
                    subs.append((bytes(e.v for e in s.fields[sfs.index("subpartition_key")].elems).decode(),
                                 bytes(e.v for e in s.fields[sfs.index("last_column")].elems).decode(), s.fields[sfs.index("size_bytes")], a.fields[0]))
                routing = [(bytes(e.v for e in en.fields[0].elems).decode(), en.fields[1]) for en in btree_entries(p.fields[pfs.index("subpartitions_by_last_column")])]
                parts.append({"table": tname, "map_key": pe.fields[0], "tablename": bytes(e.v for e in p.fields[pfs.index("tablename")].elems).decode(),
                              "id": p.fields[pfs.index("id")], "offset": p.fields[pfs.index("offset")], "len": p.fields[pfs.index("len")], "subs": subs, "routing": routing})
        return {"next": ms.fields[mfs.index("next_wal_id")], "earliest": ms.fields[mfs.index("earliest_unflushed_wal_id")], "parts": parts}

    def post(self, inst, shape, inp, value, state=None):
        got = self.view(value)
        if got is None:
            return [("deserialize(serialize(catalogue)) is Ok", B(False))]
        want = SHAPES[shape]
        conds = [("the replay cursor read back is earliest_unflushed_wal_id", binop("Eq", got["earliest"], inp["earliest"])),
                 ("next_wal_id restarts at the persisted cursor", binop("Eq", got["next"], inp["earliest"])),
                 ("same number of partitions", B(len(got["parts"]) == len(want)))]
        if len(got["parts"]) != len(want):
            return conds
        # partitions of one table come back in an unspecified order: match them by id (ids are distinct within a table)
        for pi, (t, subs) in enumerate(want):
            pid, off, ln = inp[f"p{pi}"]
            cands = [g for g in got["parts"] if g["table"] == t]
            conds.append((f"partition {pi}: its table {t} is present", B(bool(cands))))
            if not cands:
                continue
            found = B(False)
            for g in cands:
                ok = band(binop("Eq", g["id"], pid), binop("Eq", g["map_key"], pid), B(g["tablename"] == t),
                          binop("Eq", cast_int(g["offset"], "u64"), cast_int(off, "u64")), binop("Eq", cast_int(g["len"], "u64"), cast_int(ln, "u64")),
                          B([(a, b) for a, b, _, _ in g["subs"]] == list(subs)),
                          *[binop("Eq", s[2], w) for s, w in zip(g["subs"], inp[f"p{pi}sz"])],
                          *[binop("Eq", s[3], B(False)) for s in g["subs"]],
                          B(sorted(g["routing"], key=lambda x: x[0]) == g["routing"] and [(nm, ix.v) for nm, ix in g["routing"]] == sorted((last, k) for k, (_, last) in enumerate(subs))))
                found = bor(found, ok)
            conds.append((f"partition {pi} of table {t}: id, offset, len, sub-partition files (key, last column, size, not loaded) and the last-column routing map are reproduced", found))
        return conds

    def panic_ok(self, inst, shape, inp, msg):
        return B(False)

    def random_inputs(self, rng, inst, shape):
        inp, _ = self.sym_inputs(inst, shape)
        out = {}
        e = rng.randint(0, 50)
        used = set()
        for k, v in inp.items():
            if k == "earliest":
                out[k] = I("u64", e)
            elif k == "next":
                out[k] = I("u64", e + rng.randint(0, 5))
            else:
                vals = []
                for x in v:
                    r = rng.randint(0, 1000)
                    while x.ty == "u64" and k.startswith("p") and not k.endswith("sz") and r in used:
                        r = rng.randint(0, 1000)
                    used.add(r)
                    vals.append(I(x.ty, r))
                out[k] = vals
        return out

    def native(self, inst, shape, inp):
        if inp is None:
            return ("metastore_roundtrip_full", [])
        toks = [inp["next"].v, inp["earliest"].v]
        for pi, (t, subs) in enumerate(SHAPES[shape]):
            pid, off, ln = inp[f"p{pi}"]
            st = ",".join(f"{k}:{l}:{inp[f'p{pi}sz'][i].v}" for i, (k, l) in enumerate(subs)) or "-"
            toks.append(f"{t}/{pid.v}/{off.v}/{ln.v}/{st}")
        return ("metastore_roundtrip_full", toks)

    def parse_native(self, inst, shape, toks):
        parts = []
        for tok in toks[2:]:
            t, mk, tn, pid, off, ln, st, rt = tok.split("/")
            subs = [] if st == "-" else [(a, b, I("u64", int(c)), I("bool", d == "true")) for a, b, c, d in (x.split(":") for x in st.split(","))]
            routing = [] if rt == "-" else [(a, I("usize", int(b))) for a, b in (x.split(":") for x in rt.split(","))]
            parts.append({"table": t, "map_key": I("u64", int(mk)), "tablename": tn, "id": I("u64", int(pid)), "offset": I("usize", int(off)), "len": I("usize", int(ln)), "subs": subs, "routing": routing})
        return {"next": I("u64", int(toks[0])), "earliest": I("u64", int(toks[1])), "parts": parts}

    def native_view(self, inst, shape, v, st):
        d = self.view(v)
        if d is None:
            return None
        d = dict(d)
        d["parts"] = sorted(d["parts"], key=lambda g: (g["table"], g["id"].v))
        return d


from ..mirsym.values import cast_int  # noqa: E402
