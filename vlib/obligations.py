"""Registry of kernel obligations per property (see DESIGN.md §3)."""


class Ob:
    def __init__(self, id, prop, engine, tiers, desc, functions, bounds="", harness=None, timeout=300,
                 stubs=(), assumptions=(), run=None, **kw):
        self.id = id
        self.prop = prop
        self.engine = engine          # 'kani' | 'mirsym' | 'smt'
        self.tiers = tiers            # subset of {'quick','thorough'}
        self.desc = desc
        self.functions = list(functions)
        self.bounds = bounds
        self.harness = harness
        self.timeout = timeout
        self.stubs = list(stubs)
        self.assumptions = list(assumptions)
        self.run = run                # python-side obligations: callable(ctx) -> result dict
        self.kw = kw

    def describe(self):
        return {"id": self.id, "engine": self.engine, "desc": self.desc, "functions": self.functions,
                "bounds": self.bounds, "stubs": self.stubs, "assumptions": self.assumptions}


Q = ("quick", "thorough")
T = ("thorough",)

ALL = []


def add(*a, **k):
    ALL.append(Ob(*a, **k))


# -------------------------------------------------------------------------------------------------
# C06.a  checked arithmetic kernels (Kani)
# -------------------------------------------------------------------------------------------------
_INT = ["u8", "u16", "u32", "i64"]
_QUICK_PAIRS = {("i64", "i64"), ("u8", "i64"), ("i64", "u32"), ("u16", "u16")}
_OPNAME = {"add": "Addition", "sub": "Subtraction", "mul": "Multiplication", "div": "Division", "mod": "Modulo"}
for l in _INT:
    for r in _INT:
        for op in ("add", "sub", "mul", "div", "mod"):
            slow = (op in ("div", "mul") and "i64" in (l, r))
            tiers = Q if ((l, r) in _QUICK_PAIRS and not (op == "div" and (l, r) == ("i64", "i64"))) else T
            add(f"C06.a/{op}/{l}_{r}", "C06", "kani", tiers,
                f"{_OPNAME[op]}<{l},{r}>::perform_checked == exact i128 result or error flag; no panic; no spurious flag",
                [f"engine::operators::numeric_operators::{_OPNAME[op]}<{l},{r}> as CheckedBinaryOp::perform_checked"],
                bounds=f"all {l} x all {r} operands (full width, no unwinding needed: loop-free)",
                harness=f"c06a__{op}__{l}_{r}", timeout=600 if slow else 120)
for nm, l, r in (("i64_i64_rlt256", "i64", "i64"), ("i64_u8", "i64", "u8"), ("u32_u8", "u32", "u8")):
    add(f"C06.a/divmod_exact/{nm}", "C06", "kani", Q,
        f"Division/Modulo<{l},{r}>: q*r + m == l exactly for |r| < 256",
        [f"numeric_operators::Division<{l},{r}>::perform_checked", f"numeric_operators::Modulo<{l},{r}>::perform_checked"],
        bounds=f"all {l} dividends, divisors 0 < |r| < 256", harness=f"c06a__divmod_exact__{nm}", timeout=300)


# -------------------------------------------------------------------------------------------------
# mirsym obligations
# -------------------------------------------------------------------------------------------------
def _mirsym():
    from .specs import merge as sm
    add("C05.c/merge", "C05", "mirsym", Q,
        "merge::<T,C>(l, r, limit) on sorted runs returns the first min(limit,|l|+|r|) rows of the stable sorted merge; ops records the interleaving; no panic for any limit",
        ["engine::operators::merge::merge", "comparator::<impl Comparator<T> for C>::cmp_eq"],
        bounds="|l|+|r| <= 4 (quick: 5 shapes) / <= 8 (thorough), all element values, all usize limits; key types i64 asc/desc, u8 (quick) + u16,u32,u64 (thorough)",
        spec=sm.MergeSpec())
    add("C05.c/merge_keep", "C05", "mirsym", Q,
        "merge_keep(ops, l, r) carries any payload column through the interleaving recorded by merge",
        ["engine::operators::merge_keep::merge_keep"],
        bounds="every ops string of length <= 3 (quick) / <= 5 (thorough), payload values symbolic", spec=sm.MergeKeepSpec())


_mirsym()


def obligations_for(prop, tier):
    return [o for o in ALL if o.prop == prop and tier in o.tiers]
