"""Registry of kernel obligations per property (see DESIGN.md §3)."""


class Ob:
    def __init__(self, id, prop, engine, tiers, desc, functions, bounds="", harness=None, timeout=300,
                 stubs=(), assumptions=(), run=None, **kw):
        self.id = id
        self.prop = prop
        self.engine = engine          # 'kani' | 'mirsym' | 'smt'
        self.tiers = tiers            # subset of {'quick','thorough'}
        self.desc = desc
        self.functions = list(functions)
        self.bounds = bounds
        self.harness = harness
        self.timeout = timeout
        self.stubs = list(stubs)
        self.assumptions = list(assumptions)
        self.run = run                # python-side obligations: callable(ctx) -> result dict
        self.kw = kw

    def describe(self):
        return {"id": self.id, "engine": self.engine, "desc": self.desc, "functions": self.functions,
                "bounds": self.bounds, "stubs": self.stubs, "assumptions": self.assumptions}


Q = ("quick", "thorough")
T = ("thorough",)

ALL = []


def add(*a, **k):
    ALL.append(Ob(*a, **k))


# -------------------------------------------------------------------------------------------------
# C06.a  checked arithmetic kernels (Kani)
# -------------------------------------------------------------------------------------------------
_INT = ["u8", "u16", "u32", "i64"]
_QUICK_PAIRS = {("i64", "i64"), ("u8", "i64"), ("i64", "u32"), ("u16", "u16")}
_OPNAME = {"add": "Addition", "sub": "Subtraction", "mul": "Multiplication", "div": "Division", "mod": "Modulo"}
for l in _INT:
    for r in _INT:
        for op in ("add", "sub", "mul", "div", "mod"):
            slow = (op in ("div", "mul") and "i64" in (l, r))
            tiers = Q if ((l, r) in _QUICK_PAIRS and not (op == "div" and "i64" in (l, r) and (l, r) != ("u8", "i64"))) else T
            add(f"C06.a/{op}/{l}_{r}", "C06", "kani", tiers,
                f"{_OPNAME[op]}<{l},{r}>::perform_checked == exact i128 result or error flag; no panic; no spurious flag",
                [f"engine::operators::numeric_operators::{_OPNAME[op]}<{l},{r}> as CheckedBinaryOp::perform_checked"],
                bounds=f"all {l} x all {r} operands (full width, no unwinding needed: loop-free)",
                harness=f"c06a__{op}__{l}_{r}", timeout=600 if slow else 120)
for nm, l, r, tiers in (("u8_u8", "u8", "u8", Q), ("u8_i64", "u8", "i64", Q), ("u16_u16", "u16", "u16", T)):
    add(f"C06.a/mod_exact/{nm}", "C06", "kani", tiers,
        f"Modulo<{l},{r}>::perform_checked returns exactly the remainder of truncated division (witness quotient q: q*r + m == l, |m|<|r|, sign(m)=sign(l))",
        [f"numeric_operators::Modulo<{l},{r}>::perform_checked"],
        bounds=f"all {l} dividends x all non-zero {r} divisors; 32/64-bit dividends: remainder exactness outside the claim (SAT does not finish in 400 s), only |m|<|r|, sign and |m|<=|l| are decided there (C06.a/mod/*)",
        harness=f"c06a__mod_exact__{nm}", timeout=600)

# -------------------------------------------------------------------------------------------------
# C03.a comparison kernels, C04.a/b aggregation kernels, C05.a/b comparators + heap, C01.a bitmaps (Kani)
# -------------------------------------------------------------------------------------------------
_CMP_PAIRS = [("u8", "u8"), ("u16", "u16"), ("u32", "u32"), ("i64", "i64"), ("u8", "u16"), ("u8", "u32"), ("u8", "i64"),
              ("u16", "u8"), ("u16", "u32"), ("u16", "i64"), ("u32", "u8"), ("u32", "u16"), ("u32", "i64"),
              ("i64", "u8"), ("i64", "u16"), ("i64", "u32")]
for l, r in _CMP_PAIRS:
    add(f"C03.a/cmp/{l}_{r}", "C03", "kani", Q,
        f"LessThan/LessThanEquals/Equals/NotEquals::perform({l},{r}) == mathematical comparison of the widened operands",
        ["comparison_operators::{LessThan,LessThanEquals,Equals,NotEquals} as BinaryOp::perform", f"comparison_operators::Widen<{r}> for {l}"],
        bounds=f"all {l} x all {r}", harness=f"c03a__cmp__{l}_{r}", timeout=120)
add("C03.a/cmp/of64", "C03", "kani", Q, "float comparison kernels == numeric order with all NaNs equal and above +inf (the engine's total order)",
    ["comparison_operators::{LessThan,..} as BinaryOp<of64,of64,u8>::perform"], bounds="all f64 bit patterns", harness="c03a__cmp__of64", timeout=120)
add("C03.a/bool", "C03", "kani", Q, "BoolAnd/BoolOr on predicate bytes", ["comparison_operators::{BoolAnd,BoolOr}::perform"],
    bounds="operands in {0,1} (what the comparison kernels produce)", harness="c03a__bool_and_or", timeout=120,
    assumptions=["predicate bytes are 0/1"])
for t in ("u8", "u16", "u32", "i64"):
    add(f"C04.a/sum_checked/{t}", "C04", "kani", Q, f"SumI64::accumulate_checked/combine_checked over {t} == exact i128 sum or overflow flag; unit == 0",
        ["aggregate::SumI64 as CheckedAggregator::{accumulate_checked,combine_checked}"], bounds=f"all i64 accumulators x all {t}",
        harness=f"c04a__sum_checked__{t}", timeout=120)
    add(f"C04.a/minmax/{t}", "C04", "kani", Q, f"MaxI64/MinI64 accumulate/combine over {t} == max/min; unit is the identity",
        ["aggregate::{MaxI64,MinI64} as Aggregator::{unit,accumulate,combine}"], bounds=f"all i64 accumulators x all {t}",
        harness=f"c04a__minmax__{t}", timeout=120)
    # the same kernels decide SUM for C06
    add(f"C06.c/sum_checked/{t}", "C06", "kani", Q if t in ("u8", "i64") else T, f"SumI64 checked accumulation over {t} never wraps silently",
        ["aggregate::SumI64 as CheckedAggregator::{accumulate_checked,combine_checked}"], bounds=f"all i64 accumulators x all {t}",
        harness=f"c04a__sum_checked__{t}", timeout=120)
add("C04.a/count", "C04", "kani", Q, "Count::accumulate/combine add exactly one / the two counts", ["aggregate::Count as Aggregator"],
    bounds="counters below 2^32-1 (a partition of 4G rows is outside the claim)", harness="c04a__count", timeout=120)
add("C04.a/minmax_f64", "C04", "kani", Q, "MaxF64/MinF64/SumF64 accumulate == IEEE max/min/sum; unit is the identity for every non-NaN float incl. +-inf",
    ["aggregate::{MaxF64,MinF64,SumF64} as Aggregator"], bounds="all non-NaN f64 (NaN is the in-band NULL marker)", harness="c04a__minmax_f64", timeout=300)
for nm, d in (("i64", "SUM/MAX/MIN of two partials with i64::MAX as in-band NULL: NULL is neutral, otherwise exact or QueryError::Overflow"),
              ("count", "COUNT partials add exactly"), ("f64", "float MAX/MIN/SUM partials with the NULL NaN neutral")):
    add(f"C04.b/combine_{nm}", "C04", "kani", Q, "merge_aggregate Combinable::combine: " + d, ["merge_aggregate::Combinable::combine"],
        bounds={"i64": "all i64 x i64", "count": "0 <= counts < 2^62", "f64": "non-NaN floats or the NULL marker; finite partials for SUM"}[nm],
        harness=f"c04b__combine_{nm}", timeout=300, stubs=["alloc::fmt::format -> empty String"])
add("C06.c/combine_i64", "C06", "kani", Q, "cross-partition SUM combine is exact or QueryError::Overflow", ["merge_aggregate::Combinable<i64>::combine"],
    bounds="all i64 x i64", harness="c04b__combine_i64", timeout=300, stubs=["alloc::fmt::format -> empty String"])
for t in ("u8", "u16", "u32", "u64", "i64"):
    add(f"C05.a/comparator/{t}", "C05", "kani", Q, f"Comparator<{t}> for CmpLessThan/CmpGreaterThan: cmp, cmp_eq, ordering agree with </<=/cmp and its reverse",
        [f"comparator::<impl Comparator<{t}> for CmpLessThan|CmpGreaterThan>"], bounds=f"all {t} pairs", harness=f"c05a__comparator__{t}", timeout=120)
add("C05.a/comparator/of64", "C05", "kani", Q, "Comparator<of64>: total order, NaN (in-band NULL) last ascending / first descending",
    ["comparator::<impl Comparator<OrderedFloat<f64>> ..>"], bounds="all f64 bit patterns", harness="c05a__comparator__of64", timeout=120)
add("C05.a/comparator/opt_str", "C05", "kani", Q, "Comparator<Option<&str>>: byte order, NULL after every value ascending, descending is the exact reverse; cmp/cmp_eq/ordering consistent",
    ["comparator::<impl Comparator<Option<&str>> ..>"], bounds="ASCII strings of <= 2 bytes, NULL or present (unwind 4)", harness="c05a__comparator__opt_str", timeout=300)
add("C05.a/comparator/str", "C05", "kani", Q, "Comparator<&str>: byte order and its reverse", ["comparator::<impl Comparator<&str> ..>"],
    bounds="ASCII strings of <= 2 bytes (unwind 4)", harness="c05a__comparator__str", timeout=300)
add("C05.a/comparator/val", "C05", "kani", Q, "Comparator<Val>: descending is the reverse of ascending; cmp/cmp_eq consistent with ordering; antisymmetric; NULL last ascending",
    ["comparator::<impl Comparator<Val> ..>"], bounds="Val in {Null, Integer(any), Float(any bits), Bool}; Str outside (delegates to str::cmp)", harness="c05a__comparator__val", timeout=300)
for nm, d, tiers in (("u8_lt_2", "2", Q), ("u8_lt_3", "3", Q), ("u8_gt_3", "3", Q), ("u8_lt_7", "7", Q), ("u8_gt_6", "6", T)):
    add(f"C05.b/heap_replace/{nm}", "C05", "kani", tiers, "heap_replace from an arbitrary valid heap keeps the heap property, the multiset (old - root + new) and the key/row-index pairing",
        ["top_n::heap_replace"], bounds=f"heap of {d} u8 keys, arbitrary contents satisfying the heap invariant, arbitrary new key sorting before the root",
        harness=f"c05b__heap_replace__{nm}", timeout=300)
add("C01.a/bitvec_set", "C01", "kani", Q, "BitVecMut::set / BitVec::is_set on Vec<u8> and [u8]: bit set, others untouched, growth exact, out-of-range reads false",
    ["bitvec::<impl BitVecMut for Vec<u8>>::set", "bitvec::<impl BitVec for Vec<u8>|[u8]>::is_set"], bounds="bitmaps of 0..2 bytes, set index < 32, probe index < 40 (unwind 6)",
    harness="c01a__bitvec_set", timeout=300)
add("C01.a/bitvec_unset", "C01", "kani", Q, "BitVecMut::unset clears exactly one bit", ["bitvec::<impl BitVecMut for Vec<u8>>::unset"],
    bounds="bitmaps of 0..2 bytes, indices < 40", harness="c01a__bitvec_unset", timeout=300)

# -------------------------------------------------------------------------------------------------
# mirsym obligations
# -------------------------------------------------------------------------------------------------
def _mirsym():
    from .specs import merge as sm
    add("C05.c/merge", "C05", "mirsym", Q,
        "merge::<T,C>(l, r, limit) on sorted runs returns the first min(limit,|l|+|r|) rows of the stable sorted merge; ops records the interleaving; no panic for any limit",
        ["engine::operators::merge::merge", "comparator::<impl Comparator<T> for C>::cmp_eq"],
        bounds="|l|+|r| <= 4 (quick: 5 shapes) / <= 8 (thorough), all element values, all usize limits; key types i64 asc/desc, u8 (quick) + u16,u32,u64 (thorough)",
        spec=sm.MergeSpec())
    add("C05.c/merge_keep", "C05", "mirsym", Q,
        "merge_keep(ops, l, r) carries any payload column through the interleaving recorded by merge",
        ["engine::operators::merge_keep::merge_keep"],
        bounds="every ops string of length <= 3 (quick) / <= 5 (thorough), payload values symbolic", spec=sm.MergeKeepSpec())


    for pid, tag in (("C02", "C02.a"), ):
        add(f"{tag}/merge", pid, "mirsym", Q, "order merge of two sorted partials == prefix of the stable sort of the concatenation (same obligation as C05.c/merge)",
            ["engine::operators::merge::merge"], bounds="see C05.c/merge", spec=sm.MergeSpec())
        add(f"{tag}/merge_keep", pid, "mirsym", Q, "payload columns follow the merge permutation", ["engine::operators::merge_keep::merge_keep"],
            bounds="see C05.c/merge_keep", spec=sm.MergeKeepSpec())
    for pid, tag in (("C02", "C02.a"), ("C05", "C05.c")):
        add(f"{tag}/merge_keep_nullable", pid, "mirsym", Q, "merge_keep_nullable: payload values and NULL bits follow the merge permutation (null maps possibly shorter than the data)",
            ["engine::operators::merge_keep::merge_keep_nullable", "bitvec::BitVec::is_set", "bitvec::BitVecMut::set"],
            bounds="every ops string of length <= 3 (quick) / <= 4 plus three 9-row strings crossing a bitmap byte (thorough); values and bitmap bytes symbolic",
            spec=sm.MergeKeepNullableSpec())
    for pid, tag in (("C02", "C02.c"), ("C05", "C05.c")):
        add(f"{tag}/partition", pid, "mirsym", Q, "partition::<T,C>(l, r, limit): runs of equal first sort keys in merged order, strictly increasing, maximal, covering all rows (or at least `limit` rows)",
            ["engine::operators::partition::partition"], bounds="|l|+|r| <= 4 (quick) / <= 5 (thorough), keys and limit symbolic; i64 asc, u8 desc (+ more key types thorough)", spec=sm.PartitionSpec())
        add(f"{tag}/subpartition", pid, "mirsym", Q, "subpartition(partitioning, l, r): each first-key run refined into maximal runs of equal second keys in merged order",
            ["engine::operators::subpartition::subpartition"], bounds="6 (quick) / 11 (thorough) fixed run structures with up to 5 rows; second-key values symbolic, sorted within each run", spec=sm.SubpartitionOpSpec())
        add(f"{tag}/merge_partitioned", pid, "mirsym", Q, "merge_partitioned(partitioning, l, r, limit): inside every first-key run the second keys are merged stably (left before right on ties), ops records the interleaving, length == min(limit, total)",
            ["engine::operators::merge_partitioned::merge_partitioned"], bounds="6 (quick) / 11 (thorough) fixed run structures with up to 5 rows; second-key values and limit symbolic", spec=sm.MergePartitionedSpec())
    for pid, tag in (("C02", "C02.d"), ("C04", "C04.e")):
        add(f"{tag}/merge_deduplicate_partitioned", pid, "mirsym", Q, "merge_deduplicate_partitioned(partitioning, l, r): per first-key run the strictly increasing union of the second group keys; ops replay reproduces it and never merges across runs",
            ["engine::operators::merge_deduplicate_partitioned::merge_deduplicate_partitioned"], bounds="7 (quick) / 11 (thorough) fixed run structures with up to 5 rows; second-key values symbolic, strictly sorted per side within a run", spec=sm.MergeDedupPartitionedSpec())
    for pid, tag in (("C02", "C02.b"), ("C04", "C04.d")):
        add(f"{tag}/merge_deduplicate", pid, "mirsym", Q,
            "merge_deduplicate on strictly increasing group keys: strictly increasing union, each key once; MergeOps replay reproduces it (MergeRight iff equal keys)",
            ["engine::operators::merge_deduplicate::merge_deduplicate"],
            bounds="|l|+|r| <= 4 (quick) / <= 7 (thorough); key types i64 asc/desc, u8 (+u16,u32,u64 thorough)", spec=sm.MergeDedupSpec())
        add(f"{tag}/merge_aggregate", pid, "mirsym", Q,
            "merge_aggregate(ops, accL, accR, agg) == per-group combine of the partials the ops assign to the group; Err iff a partial SUM overflows",
            ["engine::operators::merge_aggregate::merge_aggregate", "merge_aggregate::<impl Combinable<i64> for i64>::combine"],
            bounds="every ops string merge_deduplicate can emit up to length 3 (quick) / 5 (thorough) x {SUM, COUNT, MAX, MIN}; partials symbolic i64 (counts 0..2^40)",
            spec=sm.MergeAggregateSpec(), assumptions=["COUNT partials are row counts in [0, 2^40)"])
        add(f"{tag}/merge_drop", pid, "mirsym", Q, "merge_drop: secondary key columns keep one value per output group",
            ["engine::operators::merge_drop::merge_drop"], bounds="every valid ops string up to length 3 (quick) / 5 (thorough)", spec=sm.MergeDropSpec())
    add("C06.c/merge_aggregate", "C06", "mirsym", Q, "cross-partition SUM merge is exact or fails with Overflow (same obligation as C04.d/merge_aggregate)",
        ["engine::operators::merge_aggregate::merge_aggregate"], bounds="see C04.d/merge_aggregate", spec=sm.MergeAggregateSpec())

    from .specs import colbuf as sc
    cbfns = ["mem_store::column_buffer::ColumnBuffer::{default,null,push_ints,push_floats,push_nulls,push_present,init_present}",
             "mem_store::column_buffer::{IntColBuffer,FloatColBuffer}::push", "bitvec::{BitVec::is_set,BitVecMut::set}"]
    add("C01.b/colbuf_nullmap", "C01", "mirsym", Q,
        "ColumnBuffer append sequences (ints / floats / nulls, with and without incoming null maps, starting empty or as null(k)): length, one slot per row, value per row, NULL exactly where no value was supplied, int+float degrades to float",
        cbfns, bounds="quick: start in {default, null(1), null(8)}, <= 2 appends from {ints(1), ints(2,map), nulls(1), nulls(7), floats(1), floats(2,map)} + 4 three-step sequences; thorough: + null(7|9|17), <= 3 appends incl. 9-row maps; all values and null-map bytes symbolic",
        spec=sc.ColBufSpec())
    add("C01.g/colbuf_mixed", "C01", "mirsym", Q,
        "ColumnBuffer::push_val sequences over {int, float, string, NULL} followed by finalize: the column handed to the column builders has one slot per row, is of the documented common type (int+float -> float, anything+string -> string), string rows keep their bytes at their own row and rows without a value are NULL",
        cbfns + ["mem_store::column_buffer::{StringColBuffer,MixedColBuffer}::{push,finalize}", "stringpack::IndexedPackedStrings::{push,iter}"],
        bounds="every sequence of 1-2 pushes and every 3-push sequence containing a string (quick) / all sequences up to 4 pushes (thorough); float bits and the string byte symbolic, ints concrete; the column builders (fast_build_string_column, IntegerColumn::new_boxed, FloatColumn::new_boxed, Column::null) are stubbed as recorders; number-to-string rendering not modelled",
        spec=sc.MixedFinalizeSpec(), stubs=["fast_build_string_column / IntegerColumn::new_boxed / FloatColumn::new_boxed / Column::null -> recorders", "ToString for numbers -> opaque"])
    add("C07.a/colbuf_compaction", "C07", "mirsym", Q,
        "the append sequences InnerLocustDB::compact performs on a fresh ColumnBuffer (one push per partition: non-nullable, nullable with its null map, all-NULL): NULL rows of every part stay NULL, values stay values",
        cbfns, bounds="quick: 1-2 parts of 1-2 rows from {ints, ints+map, nulls, floats+map, floats}; thorough: the same 1-2 part sequences plus single 3/7/9-row parts (three-part sequences did not finish within 15 minutes: outside the claim); values and null maps symbolic",
        spec=sc.ColBufC07())
    add("C13.a/colbuf_padding", "C13", "mirsym", Q,
        "a column first seen after k rows is NULL for the first k rows; a column not mentioned by a batch is NULL for that batch (push_nulls padding)",
        cbfns, bounds="k in {1,8,9} (quick) / {1,7,8,9,16,17} (thorough); 6 continuation sequences each", spec=sc.ColBufC13())

    from .specs import limits as sl
    for pid, tag in (("C05", "C05.d"), ("C12", "C12.b")):
        add(f"{tag}/combined_limit", pid, "mirsym", Q, "QueryTask::combined_limit: limit + offset never panics/wraps for any LIMIT/OFFSET (arithmetic slice, API replay mandatory)",
            ["engine::execution::query_task::QueryTask::combined_limit"], bounds="all u64 limit x all u64 offset; QueryTask otherwise havoc'd; API replay on a 3-row table",
            spec=sl.CombinedLimitSpec(), assumptions=["final_pass = None (the same LimitClause arithmetic is used for both phases)"])
        add(f"{tag}/run_limit", pid, "mirsym", Q, "NormalFormQuery::run: limit + offset before planning never panics (arithmetic slice up to the first planner call)",
            ["engine::planning::query::NormalFormQuery::run (prefix up to QueryPlanner::default)"], bounds="all u64 limit x offset", spec=sl.RunLimitSpec())
        add(f"{tag}/output_slice", pid, "mirsym", Q, "QueryTask::convert_to_output_format: count == min(limit, max(len - offset, 0)), no underflow for OFFSET beyond the result (slice up to BatchResult::validate)",
            ["engine::execution::query_task::QueryTask::convert_to_output_format (prefix)"], bounds="all u64 limit x offset, all usize result lengths; BatchResult::len stubbed as a symbolic usize",
            spec=sl.OutputFormatSpec(), stubs=["BatchResult::len -> symbolic usize", "BatchResult::validate -> end of slice"])
    for w in ("get_limit", "get_offset"):
        add(f"C12.a/{w}", "C12", "mirsym", Q, f"syntax::parser::{w}: converting the LIMIT/OFFSET number token yields Ok or an error value, never a panic",
            [f"syntax::parser::{w} (from the str::parse::<u64> call to return)"], bounds="str::parse::<u64> modelled by its contract: Ok(any u64) or Err; API replay with a 20-digit literal",
            spec=sl.ParseNumberSpec(w), stubs=["str::parse::<u64> -> Ok(symbolic) | Err"])

    from .specs import datatypes as sdt
    for pid, tag in (("C12", "C12.c"), ("C05", "C05.e")):
        add(f"{tag}/slice_box", pid, "mirsym", Q, "Data::slice_box(from, to) (the final OFFSET/LIMIT cut of every result column): min(to, len) - from cells, cell i = row from+i, NULL flags carried over; impls: usize (all-NULL column), Vec<i64>, &[i64], NullableVec<i64>",
            ["<usize as Data>::slice_box", "<Vec<T> as Data>::slice_box", "<&[T] as Data>::slice_box", "<NullableVec<T> as Data>::slice_box"],
            bounds="from/to symbolic with from <= to, from <= len; all-NULL column: len symbolic; data columns: len in {0,1,3} (quick) / {0,1,2,3,5,9} (thorough), T = i64", spec=sdt.SliceBoxSpec(),
            assumptions=["from <= to and from <= len (convert_to_output_format passes offset' = min(offset, len) and offset' + min(limit, len - offset'); that arithmetic is decided by C12.b)"])
    from .specs import wal as sw
    add("C08.a/wal_cursor", "C08", "mirsym", Q,
        "WAL cursor state machine on the real MetaStore methods, from an arbitrary state with earliest <= next: ids are handed out in order, a flush persists the end of the range it captured, after a clean restart exactly the segments written after that capture are replayed, none is deleted, and ids are never reused",
        ["disk_store::meta_store::MetaStore::{add_wal_segment,unflushed_wal_ids,advance_earliest_unflushed_wal_id,earliest_uncommited_wal_id,register_wal_segment}"],
        bounds="0..2 (quick) / 0..3 (thorough) ingests before the flush, during it and after the restart; next < 2^63; recovery rule of Storage::recover (id < cursor -> delete, else register+replay) applied in the obligation",
        spec=sw.WalCursorSpec(), assumptions=["restart initialises both cursors from the persisted value (decided separately by C08.b/deserialize)", "WAL files of the flushed range are deleted before the restart (clean shutdown)"])
    add("C08.b/serialize_cursor", "C08", "mirsym", Q, "MetaStore::serialize writes earliest_unflushed_wal_id as the persisted cursor (arithmetic slice to the set_next_wal_id call; capnp callees havoc'd)",
        ["disk_store::meta_store::MetaStore::serialize (prefix)"], bounds="all u64 cursor pairs with earliest <= next; API replay: on-disk ingest/flush/ingest/restart scenario",
        spec=sw.SerializeCursorSpec(), stubs=["capnp builder calls -> havoc", "set_next_wal_id -> end of slice, argument recorded"])
    add("C08.b/deserialize_cursor", "C08", "mirsym", Q, "MetaStore::deserialize initialises next_wal_id and earliest_unflushed_wal_id from the persisted cursor (two-point dataflow slice)",
        ["disk_store::meta_store::MetaStore::deserialize (get_next_wal_id block + MetaStore construction block)"], bounds="all u64 persisted values",
        spec=sw.DeserializeCursorSpec(), stubs=["capnp reader calls -> havoc", "the cursor local is written exactly once (checked syntactically on the MIR)"])
    add("C08.c/recover_segment_decision", "C08", "mirsym", Q, "Storage::recover: a WAL segment found at start-up is replayed (registered, kept) iff id >= persisted cursor; only earlier segments are deleted/skipped; a read-only open never deletes; a replayed id is never handed out again",
        ["disk_store::storage::Storage::recover (slice: comparison block to keep/delete/skip)", "disk_store::meta_store::MetaStore::register_wal_segment"], bounds="one segment, all (id, cursor) pairs below 2^63, readonly symbolic",
        spec=sw.RecoverSliceSpec(), stubs=["prefix of recover (listing, thread pool, channel) skipped, its state havoc'd", "Vec::push / BlobWriter::delete / log::* -> end of slice"],
        assumptions=["segment ids and the cursor stay below 2^63 (ids are handed out one by one from 0)"])

    from .specs import envelope as se
    add("C14.a/envelope_load", "C14", "mirsym", Q,
        "VersionedChecksummedBlobWriter::load accepts a file iff len >= 48, version == 0, length field == len - 48 and bytes[16..48] == SHA256(bytes[48..]), and returns exactly bytes[48..]; so truncations, suffixes and header flips are rejected and payload/checksum flips are rejected unless they are SHA-256 collisions",
        ["disk_store::file_writer::<impl BlobWriter for VersionedChecksummedBlobWriter>::load"],
        bounds="file lengths {0,1,47,48,49,50} (quick) / 0..56 (thorough), every byte symbolic; SHA-256 is an uninterpreted function (32 symbols for H(payload)); inner writer stubbed",
        spec=se.EnvelopeLoadSpec(), stubs=["Sha256::{new,update,finalize} -> uninterpreted hash of the bytes fed", "inner BlobWriter::load -> the symbolic file"],
        assumptions=["SHA-256 collision resistance (not a solver question)"])
    add("C14.a/envelope_store", "C14", "mirsym", Q, "VersionedChecksummedBlobWriter::store writes [0u64 BE][len BE][SHA256(data)][data]; store then load is the identity",
        ["disk_store::file_writer::<impl BlobWriter for VersionedChecksummedBlobWriter>::store"],
        bounds="payload lengths {0,1,3} (quick) / 0..8 (thorough), bytes symbolic", spec=se.EnvelopeStoreSpec(),
        stubs=["Sha256 -> uninterpreted hash", "inner BlobWriter::store -> records the bytes"])

    from .specs import apicodec as sa
    add("C16.a/delta_stats", "C16", "mirsym", Q, "determine_delta_compressability: exact min/max first and second differences for every i64 sequence, no panic (the statistics choose the wire encoding of integer columns)",
        ["locustdb_serialization::api::determine_delta_compressability"], bounds="sequences of 0..3 (quick) / 0..5 (thorough) arbitrary i64; counterexamples replayed on QueryResponse::serialize -> deserialize",
        spec=sa.DeltaStatsSpec())
    add("C16.a/serialize_int_column", "C16", "mirsym", Q,
        "Column::Int(xs).serialize_builder: the representation chosen by the branch chain (range / delta i8,i16,i32 / double-delta i8,i16,i32 / plain i64) decodes back to xs under the wire format's semantics; none of the encoders it calls panics (capnp builders are recording stubs)",
        ["locustdb_serialization::api::Column::serialize_builder (Int arm)", "api::{determine_delta_compressability,delta_encode,double_delta_encode}"],
        bounds="0-3 (quick) / 0-4 (thorough) arbitrary i64 values; counterexamples replayed on the public QueryResponse::serialize -> deserialize round trip",
        spec=sa.SerializeIntColumnSpec(), stubs=["api_capnp column/data/range/delta/double-delta Builders -> recorders of the chosen union member and its fields"])
    add("C16.a/delta_encode", "C16", "mirsym", Q, "delta_encode::<i8|i16|i32> emits the exact differences whenever the caller's guard (all differences fit T) holds; no panic",
        ["locustdb_serialization::api::delta_encode"], bounds="sequences of 1..3 (quick) / 1..5 (thorough) i64 with differences in T's range", spec=sa.DeltaEncodeSpec())
    add("C16.a/double_delta_encode", "C16", "mirsym", Q, "double_delta_encode::<i8|i16|i32> emits the exact second differences whenever they fit T; no panic",
        ["locustdb_serialization::api::double_delta_encode"], bounds="sequences of 2..3 (quick) / 2..5 (thorough) i64 with second differences in T's range", spec=sa.DoubleDeltaEncodeSpec())

    from .specs import routing as sr
    add("C15.a/subpartition_key", "C15", "mirsym", Q,
        "PartitionMetadata::subpartition_key routes every column name to the first sub-partition whose last column is >= the name (the file that holds it when sub-partitions are contiguous runs of the sorted names) and to None beyond the last one",
        ["disk_store::meta_store::PartitionMetadata::subpartition_key"],
        bounds="1-3 sub-partitions from 4 (quick) / 8 (thorough) fixed sets of last-column names; looked-up names of 1-2 (quick) / 0-3 (thorough) symbolic bytes; BTreeMap modelled as a sorted association list",
        spec=sr.SubpartitionKeySpec(), stubs=["BTreeMap::{lower_bound,Cursor::peek_next} -> sorted association list"])

    from .specs import decode as sd
    for pid, tag in (("C07", "C07.b"), ("C01", "C01.d")):
        add(f"{tag}/decode_int", pid, "mirsym", Q,
            "mem_store::column::decode (used by compaction) on every integer codec shape the builder emits ({u8,u16,u32} x {offset 0, offset != 0} x {plain, delta} and i64 x {plain, delta}, each with and without a null map): values decode exactly, a nullable column stays nullable with the same NULL rows",
            ["mem_store::column::decode"], bounds="2 rows (quick) / 0,1,3 rows + two 9-row nullable shapes (thorough); encoded values, offset and null-map bytes symbolic; Codec::ops stubbed to return the shape's op list; dyn Data modelled as tagged sequences",
            spec=sd.DecodeIntSpec(), stubs=["Codec::ops -> the codec table of IntegerColumn::create_col for the shape", "dyn Data -> tagged sequences (Vec<T> / NullableVec<T>)"])

    from .specs import intcol as si
    add("C01.c/intcol_encode", "C01", "mirsym", Q,
        "integer column builder: IntColBuffer::push x n -> finalize -> IntegerColumn::new_boxed -> create_col -> encode chooses width/offset/delta so that the emitted codec program decodes the stored section back to every pushed value (and NULL row); no overflow panic in max-min, the delta loop or encode's unreachable!",
        ["mem_store::column_buffer::IntColBuffer::{default,push,finalize}", "mem_store::integers::IntegerColumn::{new_boxed,create_col,encode}"],
        bounds="1-3 values (quick) / 0-4 (thorough), all i64 except the NULL marker, optional symbolic null map; Column::new stubbed as a recorder, lz4/pco skipped; codec ops interpreted by the reference semantics shared with C01.d",
        spec=si.IntColEncodeSpec(), stubs=["Column::new -> records (len, range, codec, data sections)", "Column::lz4_or_pco_encode -> no-op (pco / lz4_flex assumed lossless)"])

    from .specs import stringpack as ssp
    add("C01.e/packed_strings", "C01", "mirsym", Q, "PackedStrings::push x k then StringPackerIterator::next x (k+1): every string comes back byte-exact with its length, then None",
        ["stringpack::PackedStrings::push", "stringpack::<impl Iterator for StringPackerIterator>::next"],
        bounds="1-3 strings with lengths from {0,1,2,254,255,256,510} (quick) + {253,509,511,765} (thorough); first and last byte of each string symbolic ASCII, the rest concrete",
        spec=ssp.PackedStringsSpec())
    add("C01.e/packed_bytes", "C01", "mirsym", Q, "PackedBytes::from_iterator then PackedBytesIterator::next x (k+1) (hex-packed string columns): every byte string comes back exact, then None",
        ["stringpack::PackedBytes::from_iterator", "stringpack::<impl Iterator for PackedBytesIterator>::next"],
        bounds="same length sets as C01.e/packed_strings", spec=ssp.PackedBytesSpec())

    for pid, tag in (("C07", "C07.b"), ("C01", "C01.d")):
        add(f"{tag}/decode_str", pid, "mirsym", Q,
            "mem_store::column::decode on the string codec shapes the builder emits (dictionary coded with u8/u16/u32 indices, packed strings, lz4-compressed packed strings, hex-packed strings; each with and without a null map): every row's string and NULL flag survive, no panic",
            ["mem_store::column::decode"], bounds="dictionary of 4 fixed strings, 2 (quick) / 3 or 9 (thorough) rows with symbolic indices and null map; packed strings of lengths (1,0,2), (2,1) (+ (254,255), () thorough) with symbolic first/last bytes; lz4 decode stubbed as 'section 0 decompresses to the packed bytes'",
            spec=sd.DecodeStrSpec(), stubs=["Codec::ops -> shape's op list", "lz4::decoder / lz4::decode -> yields the plain packed bytes", "dyn Data -> tagged sequences"])

    from .specs import operators as so
    stubs = ["Scratchpad::{get,get_mut,get_scalar,get_nullable,get_mut_nullable,get_null_map,set,set_const} -> obligation-owned buffers"]
    add("C03.e/filter", "C03", "mirsym", Q, "Filter<i64>::execute: output == the input rows whose filter byte is non-zero, in order",
        ["engine::operators::filter::<impl VecOperator for Filter<T>>::execute"], bounds="0,1,3 rows (quick) / 0-4,9 (thorough); data and filter bytes symbolic", spec=so.FilterSpec(), stubs=stubs)
    add("C03.e/filter_nullable", "C03", "mirsym", Q, "FilterNullable<i64>::execute: selected rows in order, each with its NULL bit",
        ["engine::operators::filter_nullable::<impl VecOperator for FilterNullable<T>>::execute"], bounds="0,1,3 rows (quick) / 0-4,9 (thorough); data, filter bytes and null map symbolic",
        spec=so.FilterNullableSpec(), stubs=stubs)
    add("C03.c/inverse_dict_lookup", "C03", "mirsym", Q,
        "InverseDictLookup::execute translates a string constant into the dictionary-index domain such that, for every dictionary entry and OP in {=,<,<=,>,>=}: entry OP constant <=> index OP translated constant",
        ["engine::operators::dict_lookup::<impl VecOperator for InverseDictLookup>::execute"],
        bounds="sorted dictionaries {b}, {b,d}, {a,c,e} (+{ab,b} thorough); constants of 1 (quick) / 0-2 (thorough) symbolic bytes: present, absent below / between / above",
        spec=so.InverseDictLookupSpec(), stubs=stubs)
    add("C03.b/encode_int", "C03", "mirsym", Q,
        "Codec::encode_int translates a WHERE constant into the encoding domain of an offset-/narrow-encoded integer column such that all six comparisons on encoded values agree with the comparisons on decoded values, without panicking for constants far outside the column's range",
        ["mem_store::codec::Codec::encode_int"], bounds="codecs [Add(T, y)] and [ToI64(T)] for T in {u8,u32} (quick) + u16 (thorough); all encoded values e: T, all offsets y with e + y representable, all i64 constants",
        spec=so.EncodeIntSpec())
    for pid, tag in (("C04", "C04.c"), ("C06", "C06.c")):
        add(f"{tag}/aggregate_loops", pid, "mirsym", Q,
            "Aggregate / AggregateNullable / CheckedAggregate / CheckedAggregateNullable ::execute (MAX, MIN, COUNT, checked SUM over i64 with u8 group ids): accumulator[k] == aggregate over exactly the (non-NULL) rows of group k from the aggregator's unit; nullable variants mark exactly the groups that received a value; checked SUM is exact or Err(Overflow)",
            ["engine::operators::aggregate::<impl VecOperator for Aggregate|AggregateNullable|CheckedAggregate|CheckedAggregateNullable>::execute", "aggregate::{MaxI64,MinI64,Count,SumI64}"],
            bounds="0 and 2 rows (quick) / 0-3 rows (thorough), 3 group ids; values, group ids and null-map bytes symbolic", spec=so.AggregateSpec(), stubs=stubs)
    add("C06.b/nullable_checked", "C06", "mirsym", Q,
        "NullableCheckedBinary{,VS,SV}Operator<i64,i64,i64,Op>::execute for Op in {+,-} (quick) + {*} (thorough): Err(Overflow) iff a present row overflows, a NULL row never raises, present rows carry the exact result",
        ["engine::operators::binary_operator::<impl VecOperator for NullableCheckedBinary*Operator>::execute", "numeric_operators::*::perform_checked"],
        bounds="1-2 rows (quick) / 0-3, 9 rows (thorough); operands and null-map bytes symbolic", spec=so.NullableCheckedSpec(), stubs=stubs)

    from .specs import operators2 as so2
    add("C03.d/binary_loops", "C03", "mirsym", Q, "Binary{,VS,SV}Operator::execute with the comparison kernels (<, <=, =, <> on mixed integer widths) and BoolOr/BoolAnd: one output per row, out[i] = (l OP r) on the integer values",
        ["<BinaryOperator<L,R,u8,Op> as VecOperator>::execute", "<BinaryVSOperator<..>>::execute", "<BinarySVOperator<..>>::execute", "comparison_operators::{LessThan,LessThanEquals,Equals,NotEquals,BoolOr,BoolAnd}::perform", "Widen::widen"],
        bounds="n in {0,2} (quick) / {0,1,2,3,5} (thorough) rows, all values symbolic; 7 (quick) / 12 (thorough) (form, kernel, widths) instantiations", spec=so2.BinaryLoopSpec(), stubs=["Scratchpad accessors -> obligation-owned buffers"])
    add("C03.d/is_null", "C03", "mirsym", Q, "IsNull / IsNotNull::execute: out[i] = 1 exactly when row i is NULL / present; one byte per row",
        ["<IsNull as VecOperator>::execute", "<IsNotNull as VecOperator>::execute", "<[u8] as BitVec>::is_set"], bounds="n in {0,3,9} (quick) / {0,1,3,8,9,17} rows, bitmap symbolic", spec=so2.IsNullSpec(), stubs=["Scratchpad accessors -> obligation-owned buffers"])
    add("C03.d/combine_null_maps", "C03", "mirsym", Q, "CombineNullMaps::execute: row present iff present on both sides",
        ["<CombineNullMaps as VecOperator>::execute"], bounds="n in {0,3,9} (quick) / {0,1,8,9,16,17} rows, both bitmaps symbolic; output pre-sized as init() does", spec=so2.CombineNullMapsSpec(), stubs=["Scratchpad accessors -> obligation-owned buffers"])
    add("C06.d/checked_loops", "C06", "mirsym", Q, "CheckedBinary{,VS,SV}Operator<i64,i64,i64,Op>::execute (non-nullable): Err(Overflow) iff some row overflows, otherwise exact per-row results",
        ["<CheckedBinaryOperator<..> as VecOperator>::execute", "<CheckedBinaryVSOperator<..>>::execute", "<CheckedBinarySVOperator<..>>::execute", "numeric_operators::{Addition,Subtraction,Multiplication}::perform_checked"],
        bounds="n in {0,2} (quick) / {0..3} (thorough) rows, all values symbolic; add, sub (quick) + mul (thorough)", spec=so2.CheckedLoopSpec(), stubs=["Scratchpad accessors -> obligation-owned buffers"])
    add("C06.d/type_conversion", "C06", "mirsym", Q, "TypeConversionOperator<T,U>::execute for the widening conversions inserted before arithmetic: value preserved, one output per row",
        ["<TypeConversionOperator<T,U> as VecOperator>::execute", "type_conversion::Cast::cast"], bounds="n in {0,2} (quick) / {0,1,3}; (u8|u16|u32)->i64 quick, + u8->u32, u16->u32, u8->u16 thorough", spec=so2.TypeConversionSpec(), stubs=["Scratchpad accessors -> obligation-owned buffers"])
    add("C04.f/exists", "C04", "mirsym", Q, "Exists<T>::execute: exists[g] set exactly for the group keys that occur; array sized max_index + 1",
        ["<Exists<T> as VecOperator>::execute"], bounds="<= 3 (quick) / 4 keys, max_index <= 3, keys symbolic within 0..=max_index", spec=so2.ExistsSpec(), stubs=["Scratchpad accessors -> obligation-owned buffers"])
    add("C04.f/compact", "C04", "mirsym", Q, "Compact<i64,u8>, NonzeroCompact<u32>, NonzeroCompactNullable<i64>::execute: accumulator slots of non-existing groups are removed in place, survivors keep order and values",
        ["<Compact<T,U> as VecOperator>::execute", "<NonzeroCompact<T>>::execute", "<NonzeroCompactNullable<T>>::execute"], bounds="n in {0,1,3} (quick) / {0..4,9} slots, values/selectors/bitmap symbolic", spec=so2.CompactSpec(), stubs=["Scratchpad accessors -> obligation-owned buffers"])
    add("C04.f/nonzero_indices", "C04", "mirsym", Q, "NonzeroIndices<u8,i64>, NonzeroNonnullIndices<u32,i64>::execute: ascending offset-shifted positions of existing groups; running offset advances by the input length",
        ["<NonzeroIndices<T,U> as VecOperator>::execute", "<NonzeroNonnullIndices<T,U>>::execute"], bounds="(n, offset) in {(0,0),(3,0),(2,5)} quick + {(1,0),(4,1),(9,0)} thorough", spec=so2.NonzeroIndicesSpec(), stubs=["Scratchpad accessors -> obligation-owned buffers"])
    from .specs import operators3 as so3
    add("C05.b/top_n", "C05", "mirsym", Q, "TopN<T,C>::execute called batch by batch (streaming) then finalize: the row indices returned are min(n, rows) distinct rows in sort order and no unselected row sorts strictly before a selected one (ties in any order)",
        ["<TopN<T,C> as VecOperator>::{execute,finalize}", "top_n::heap_replace", "comparator::<impl Comparator<T> for C>::{cmp,ordering}"],
        bounds="n in 1..3 with 2-3 rows in 1-2 batches (quick) / n <= 4, <= 5 rows, <= 3 batches (thorough), all key values symbolic; T,C in {i64 asc, u8 desc} (+ i64 desc, u32 asc thorough); slice::sort_unstable_by modelled as an insertion sort driven by the real comparison closure",
        spec=so3.TopNSpec(), stubs=["Scratchpad accessors -> obligation-owned buffers", "TopN::init -> Vec::with_capacity(n) buffers", "slice::sort_unstable_by -> insertion sort driven by the real closure"],
        assumptions=["n >= 1 (LIMIT 0 never reaches TopN: outside the claim)"])
    ostub = ["Scratchpad accessors -> obligation-owned buffers"]
    add("C05.f/select", "C05", "mirsym", Q, "Select<i64> / SelectNullable<i64>::execute (payload columns following the ORDER BY / top-n permutation): output row j == input row indices[j], with its NULL flag",
        ["<Select<T> as VecOperator>::execute", "<SelectNullable<T> as VecOperator>::execute"], bounds="(rows, indices) in {(3,2),(2,0),(3,3)} quick + {(1,1),(4,2)} thorough; data, indices (< rows) and null map symbolic",
        spec=so3.SelectSpec(), stubs=ostub)
    add("C05.f/select_nullable", "C05", "mirsym", Q, "SelectNullable<i64>::execute: values and NULL flags follow the index permutation",
        ["<SelectNullable<T> as VecOperator>::execute", "bitvec::{BitVec::is_set,BitVecMut::set}"], bounds="same shapes as C05.f/select; null map bytes symbolic", spec=so3.SelectNullableSpec(), stubs=ostub)
    add("C05.g/sort_by", "C05", "mirsym", Q, "SortBy<T,C>::execute: the output is a permutation of the row indices in sort order; the stable variant keeps tied rows in input order",
        ["<SortBy<T,C> as VecOperator>::execute", "comparator::<impl Comparator<T> for C>::ordering"], bounds="0,1,3 rows (quick) / 0-4 (thorough), keys symbolic; (i64 asc stable), (u8 desc unstable) + (i64 desc stable), (u32 asc unstable) thorough; std sort modelled as an insertion sort driven by the real closure",
        spec=so3.SortBySpec(), stubs=ostub + ["slice::sort_by / sort_unstable_by -> insertion sort driven by the real comparison closure"])
    add("C05.g/sort_by_nullable", "C05", "mirsym", Q, "SortByNullable<T,C>::execute: NULL rows sort after every value ascending and before every value descending; otherwise as C05.g/sort_by",
        ["<SortByNullable<T,C> as VecOperator>::execute", "Comparator::{ordering,is_less_than}"], bounds="as C05.g/sort_by, null map symbolic", spec=so3.SortByNullableSpec(), stubs=ostub + ["slice::sort_by / sort_unstable_by -> insertion sort driven by the real comparison closure"])
    add("C01.i/delta_decode", "C01", "mirsym", Q, "DeltaDecode<T>::execute called batch by batch (query-side decoding of delta-coded integer columns): decoded value == running sum of the stored deltas, carried across batch boundaries",
        ["<DeltaDecode<T> as VecOperator>::execute"], bounds="batches (2), (1,2) quick + (0), (1), (3), (2,0,1) thorough; T in {u8, i64} (+u16,u32); deltas and the initial value symbolic, under the precondition that every running sum is an i64 (the values the encoder stored)",
        spec=so3.DeltaDecodeSpec(), stubs=ostub, assumptions=["every prefix sum of the stored deltas is representable as i64 (they are the original column values)"])
    add("C04.g/bitpack_roundtrip", "C04", "mirsym", Q, "composite group keys: ParameterizedVecVecIntegerOperator<BitShiftLeftAdd> (lo + (hi << w)) followed by BitUnpackOperator (shift 0 / width w, shift w / width w2) recovers both components, for every width split",
        ["<ParameterizedVecVecIntegerOperator<BitShiftLeftAdd> as VecOperator>::execute", "BitShiftLeftAdd::perform", "<BitUnpackOperator as VecOperator>::execute"],
        bounds="0,2 rows (quick) / 0-3 (thorough); widths w, w2 >= 1 symbolic with w + w2 <= 63, 0 <= lo < 2^w, 0 <= hi < 2^w2 symbolic", spec=so3.BitPackRoundTripSpec(), stubs=ostub,
        assumptions=["components are non-negative and below 2^width; total width <= 63 (what try_bitpacking guarantees; its width arithmetic uses f64 log2 and is not encoded)"])
    for pid, tag in (("C05", "C05.h"), ("C04", "C04.h")):
        add(f"{tag}/fuse_nulls_i64", pid, "mirsym", Q, "FuseNullsI64::execute: value if present, the in-band NULL marker otherwise (so that NULL sorts last / groups together)",
            ["<FuseNullsI64 as VecOperator>::execute"], bounds="0,3,9 rows (quick) / 0,1,3,8,9 (thorough); values and null map symbolic", spec=so3.FuseNullsI64Spec(), stubs=ostub)
        add(f"{tag}/unfuse_nulls_i64", pid, "mirsym", Q, "UnfuseNullsI64::execute: a row is present exactly when its fused value is not the NULL marker",
            ["<UnfuseNullsI64 as VecOperator>::execute"], bounds="0,3,8 rows (quick) / 0,1,3,7,8,9 (thorough); fused values symbolic", spec=so3.UnfuseNullsI64Spec(), stubs=ostub)
    add("C04.i/compact_nullable", "C04", "mirsym", Q, "CompactNullable / CompactWithNullable / CompactNullableNullable<i64,u8>::execute: exactly the aggregate slots of existing groups survive, in order, each with its own NULL flag",
        ["<CompactNullable<T,U> as VecOperator>::execute", "<CompactWithNullable<T,U>>::execute", "<CompactNullableNullable<T,U>>::execute", "bitvec::{is_set,set,unset}"],
        bounds="0,3,9 slots (quick) / 0-4,9 (thorough); values, selectors and both null maps symbolic", spec=so3.CompactNullableFamilySpec(), stubs=ostub)
    add("C04.j/fuse_int_nulls", "C04", "mirsym", Q, "nullable integer group keys: FuseIntNulls<T>{offset = -min + 1} then UnfuseIntNulls<T>{offset}: NULL <-> key 0, values keep their identity, distinct values get distinct keys, no overflow for any value in the column's encoding range",
        ["<FuseIntNulls<T> as VecOperator>::execute", "<UnfuseIntNulls<T> as VecOperator>::execute"],
        bounds="0,2 rows (quick) / 0-3,9 (thorough); T in {u8, i64} (+u16,u32); encoding range (min <= 0 <= .. max) symbolic, values within it, offset as the planner computes it",
        spec=so3.FuseIntNullsSpec(), stubs=ostub, assumptions=["the planner passes offset = -min + 1 for the column's encoding range (min, max), min <= 0 (query_plan.rs, read not executed)"])
    from .specs import planner as spl
    add("C04.j/group_key_width", "C04", "mirsym", Q, "compile_grouping_key (single nullable integer GROUP BY column): the key handed to FuseIntNulls has an integer type wide enough for max + offset (the planner widens to i64 otherwise) and the offset is -min + 1 (min <= 0) or 0",
        ["engine::planning::query_plan::compile_grouping_key (slice: after encoding_range(..) up to the fuse_int_nulls call)", "TypedBufferRef::is_nullable", "EncodingType::{is_nullable,non_nullable}"],
        bounds="key types NullableU8/U16/U32/I64; all encoding ranges (min <= max, within the type; |min|,|max| < 2^62 for i64); planner state otherwise havoc'd; QueryPlanner::cast stubbed by its type rule (base=provided;null=input); API replay mandatory for counterexamples",
        spec=spl.GroupKeyWidthSpec(), stubs=["QueryPlanner::cast -> TypedBufferRef of the provided base type, nullable iff the input is", "QueryPlanner::fuse_int_nulls -> end of slice (arguments recorded)", "logging and other planner calls -> havoc"],
        assumptions=["i64 encoding ranges stay within (-2^62, 2^62) (the planner's range arithmetic is unchecked beyond that: outside the claim)"])
    from .specs import xorfloat as sx
    add("C16.b/xor_float", "C16", "mirsym", Q,
        "xor_float::double::encode then decode: every f64 comes back bit-exact (mantissa None) or with sign, exponent and the requested leading mantissa bits (mantissa Some(m)); covers the first-window and the window-reuse branch",
        ["locustdb_compression_utils::xor_float::double::encode", "locustdb_compression_utils::xor_float::double::decode"],
        bounds="quick: 0-2 symbolic floats, and 3 floats with the first two fixed (reuse branch), mantissa in {None,0,23,52}, max_regret in {0,100}; thorough: 3 fully symbolic floats, more mantissa settings, 4 floats with 3 fixed; bitbuffer streams modelled as one LSB-first bit FIFO",
        spec=sx.XorFloatSpec(), stubs=["bitbuffer::{BitWriteStream::write_int, BitReadStream::read_int} -> bit FIFO (LSB first)"],
        assumptions=["bitbuffer write_int/read_int are bit-FIFO consistent"])

    add("C15.a/subpartition_writer", "C15", "mirsym", Q,
        "inner_locustdb::subpartition splits the name-sorted columns into contiguous runs, records each run's greatest column name as last_column and uses it (if file-system safe, else a digest, 'all' for a single run) as the file key, with sizes bounded by max_partition_size_bytes: together with C15.a/subpartition_key every stored column is routed to the file it was written to",
        ["scheduler::inner_locustdb::subpartition", "inner_locustdb::{create_subpartition,is_filesystem_safe}"],
        bounds="column name sets {b,a,c}, {col_b,col_a}, {a} (quick) + {b,A,c}, {z,m,a,q} (thorough), given unsorted; per-column sizes (multiples of 8 below 2^20) and max_partition_size_bytes symbolic; Column::heap_size_of_children stubbed, Sha256 uninterpreted",
        spec=sr.SubpartitionWriterSpec(), stubs=["Column::heap_size_of_children -> symbolic size per column", "Sha256 -> uninterpreted", "slice::sort_by -> insertion sort driven by the real comparison closure"])

    from .specs import server as ssv
    add("C16.d/encode_column", "C16", "mirsym", Q,
        "server::encode_column (the column handed to the response encoder): the api::Column variant chosen by the type-signature dispatch represents every row of the engine's column - integers, float bits and strings preserved, NULL as Null / the reserved NaN, no unreachable!() arm reachable, XOR compression exactly when requested",
        ["server::encode_column (+ its five closures)"],
        bounds="Int/Float/String columns of 2 rows, Null(n) with n symbolic, every Mixed column of 0-2 (quick) / 0-3 (thorough) rows over {Int, Str, NULL, Float} with symbolic values (strings of one symbolic byte); xor_float::double::encode stubbed as a recorder (the codec is C16.b)",
        spec=ssv.EncodeColumnSpec(), stubs=["xor_float::double::encode -> recorder of the float slice it is given"],
        assumptions=["a genuine float equal to the reserved NULL NaN bit pattern is outside the value domain"])

    from .specs import ingestbuf as sib
    for pid, tag in (("C13", "C13.b"), ("C01", "C01.h")):
        add(f"{tag}/buffer_batches", pid, "mirsym", Q,
            "ingest::buffer::Buffer::push_typed_cols called batch after batch (the table's open buffer): a column a batch does not mention is NULL for that batch, a column first seen late is NULL for all earlier rows, the sparse (NullableInt/NullableFloat) and mixed representations put every value in its own row, every column has Buffer.length rows",
            ["ingest::buffer::Buffer::{push_typed_cols,extend_to_largest,len}", "ColumnBuffer::{null,push_ints,push_floats,push_nulls,push_val,len}", "IntColBuffer::push", "bitvec::BitVecMut::set"],
            bounds="10 (quick) / 18 (thorough) fixed batch sequences of 1-3 batches over columns a,b,c with 1-9 rows per batch (dense Int/Float, Null(n), sparse Int/Float with fixed index sets, Mixed), values symbolic; HashMap<String,_> modelled as an association list iterated in insertion order (the real iteration order is unspecified)",
            spec=sib.BufferBatchesSpec(), stubs=["HashMap<String,V> -> association list (entry/or_insert_with/values_mut/into_iter)"],
            assumptions=["sparse index lists are strictly increasing and below the batch's row count (what event_buffer::ColumnBuffer::push produces)"])

    from .specs import eventbuf as seb
    add("C16.c/event_buffer_column", "C16", "mirsym", Q,
        "client row API -> wire column -> server column: event_buffer::ColumnBuffer::push called row by row (as TableBuffer::push_row_and_timestamp does) followed by the server's InputColumn::from_column_data: every row's value (ints coerced to float once the column has seen a float) or NULL arrives in its own row, for dense, sparse, trailing-NULL, all-NULL and string columns",
        ["locustdb_serialization::event_buffer::ColumnBuffer::push (+ closures)", "ingest::input_column::InputColumn::from_column_data (+ closures)"],
        bounds="every row-kind sequence over {Int, Float, NULL} of length 0-3 (quick) / 0-4 (thorough) plus longer fixed ones and all-string columns of 1-3 rows; values symbolic (strings: one symbolic byte)",
        spec=seb.EventBufferSpec(), assumptions=["string columns with NULLs / mixed string-number columns panic by documented assert (\"Sparse columns not currently supported for string\"): outside the shapes explored"])

    from .specs import operators as sop_
    add("C03.b/encode_float", "C03", "mirsym", Q,
        "Codec::encode_float translates a float WHERE constant into the encoding domain of an offset-/narrow-encoded integer column such that all six comparisons `e as f64 OP encode_float(c)` agree with the mathematically exact comparison of the decoded value e + y with c",
        ["mem_store::codec::Codec::encode_float"],
        bounds="codecs [Add(T, y)] and [ToI64(T)] for T = u8 (quick) + u16, u32 (thorough); all encoded values e: T; mode grid: constants k/2 with |k| < 2^12 and offsets |y| < 2^8 (quick) / k/4, |k| < 2^16, |y| < 2^10 (thorough) - every f64 operation exact there, f64 unsat proofs cost 15-45 s each whatever the domain; mode full (T = u8): every non-NaN f64 constant, every offset with e + y representable",
        spec=sop_.EncodeFloatSpec(), assumptions=["the comparison kernels compare `e as f64` with the translated constant (C03.a of64 instantiations)"])

    add("C15.a/subpartition_loaded", "C15", "mirsym", Q,
        "PartitionMetadata::subpartition_has_been_loaded / mark_subpartition_as_loaded route a column name exactly like subpartition_key: the flag read or set is that of the first sub-partition whose last column is >= the name; a name beyond the last stored column reads as already loaded (so the reader hands out an empty column instead of scheduling a disk read that can never be satisfied) and marks nothing",
        ["disk_store::meta_store::PartitionMetadata::{subpartition_has_been_loaded,mark_subpartition_as_loaded}"],
        bounds="same sub-partition sets and symbolic names as C15.a/subpartition_key; loaded flags initially alternate false/true; BTreeMap modelled as a sorted association list, AtomicBool as a cell",
        spec=sr.SubpartitionLoadedSpec(), stubs=["BTreeMap<String,usize> -> sorted association list with cursors", "AtomicBool -> cell"])

    from .specs import strflags as ssf
    add("C01.j/hex_flags", "C01", "mirsym", Q,
        "is_lowercase_hex / is_uppercase_hex (the per-string test behind StringColBuffer's lhex/uhex flags, which decide whether a string column is hex-packed and in which case it is re-created): true exactly for even-length strings over [0-9a-f] / [0-9A-F]",
        ["mem_store::column_buffer::is_lowercase_hex", "mem_store::column_buffer::is_uppercase_hex"],
        bounds="ASCII strings of length 0-4 (quick) / 0-6 (thorough) with 1-3 symbolic bytes (the rest fixed digits of the alphabet); non-ASCII bytes outside the claim (str::chars UTF-8 decoding is not modelled)",
        spec=ssf.HexFlagSpec(), assumptions=["bytes < 0x80"])

    from .specs import partseg as sps
    add("C14.b/partition_segment_roundtrip", "C14", "mirsym", Q,
        "PartitionSegment::serialize then PartitionSegment::deserialize (the partition file codec) reproduce every column: name, length, range, every CodecOp variant with its payload (types, offsets, lengths, flags) and every DataSection variant with its payload - the hand-written enum <-> capnp union mapping is one-to-one",
        ["disk_store::partition_segment::PartitionSegment::{serialize,deserialize} (+ closures)", "partition_segment::{encoding_type_to_capnp,deserialize_type}", "mem_store::column::Column::{name,len,range,codec,data}", "Codec::ops"],
        bounds="11 column shapes covering every CodecOp variant (Add, Delta, ToI64, PushDataSection, DictLookup, LZ4, Pco, UnpackStrings, UnhexpackStrings, Nullable) and every DataSection variant (U8..I64, F64, Null, Bitvec, LZ4, Pco) with symbolic payloads (1-2 elements per section), plus 1 (quick) / 2 (thorough) multi-column files; capnp runtime + generated accessors modelled from the tree's .capnp schema, Column::new a recorder",
        spec=sps.PartitionSegmentSpec(),
        stubs=["capnp generated accessors (set_/get_/init_/which, list builders/readers) -> record model driven by locustdb-serialization/schemas/partition_segment.capnp", "capnp::serialize_packed::{write_message,read_message} -> identity on the record tree", "Column::new -> recorder"],
        assumptions=["capnpc-generated accessors and the capnp runtime implement the record semantics of vlib/mirsym/capnp_model.py (init_x allocates a fresh zeroed value and selects the union member, set_x stores and selects, get_x reads what was stored or the schema default, which() reports the member selected last); serialize_packed is lossless"])

    from .specs import walcodec as swc
    for pid, tag in (("C14", "C14.c"), ("C16", "C16.e")):
        add(f"{tag}/event_buffer_roundtrip", pid, "mirsym", Q,
            "EventBuffer::serialize then EventBuffer::deserialize (the binary ingestion message, also the payload of every write-ahead log segment) reproduce every table (name, row count) and every column in each representation: dense f64, sparse f64, dense i64, sparse i64, strings, empty, mixed (Int / Float / Str / Null values)",
            ["locustdb_serialization::event_buffer::EventBuffer::{serialize,serialize_builder,deserialize,deserialize_reader} (+ closures)"],
            bounds="6 (quick) / 7 (thorough) buffer shapes: 1-2 tables, 0-2 columns per table, 1-4 entries per column, every ColumnData variant and every AnyVal variant; values, sparse row indices and string bytes symbolic; capnp runtime + generated accessors modelled from schemas/wal_segment.capnp; HashMap<String,_> as an association list in insertion order",
            spec=swc.EventBufferCodecSpec(),
            stubs=["capnp generated accessors -> record model driven by locustdb-serialization/schemas/wal_segment.capnp", "capnp::serialize_packed::{write_message,read_message} -> identity on the record tree", "HashMap<String,V> -> association list"],
            assumptions=["capnpc-generated accessors and the capnp runtime implement the record semantics of vlib/mirsym/capnp_model.py; serialize_packed is lossless"])

    from .specs import metacodec as smc
    for pid, tag in (("C14", "C14.d"), ("C08", "C08.d")):
        add(f"{tag}/metastore_roundtrip", pid, "mirsym", Q,
            "MetaStore::serialize then MetaStore::deserialize (the catalogue file): the replay cursor read back is earliest_unflushed_wal_id (and next_wal_id restarts there), every partition entry comes back under its table and id with offset, len and its sub-partition files (key, last column, size, not loaded), and the last-column routing map is rebuilt consistently",
            ["disk_store::meta_store::MetaStore::{serialize,deserialize} (+ closures)"],
            bounds="5 (quick) / 6 (thorough) catalogue shapes: 0-2 tables, 1-2 partitions per table, 0-3 sub-partition files per partition; cursor values, partition ids (distinct within a table), offsets, lengths and sizes symbolic, names fixed; capnp modelled from schemas/dbmeta.capnp (legacy v0-v2 column lists stay at their empty defaults), HashMap as association list, BTreeMap as sorted association list, SimpleTracer stubbed",
            spec=smc.MetaStoreCodecSpec(),
            stubs=["capnp generated accessors -> record model driven by locustdb-serialization/schemas/dbmeta.capnp", "capnp::serialize_packed::{write_message,read_message} -> identity on the record tree", "SimpleTracer::{start_span,end_span,annotate} -> no-op", "HashMap / BTreeMap -> association lists"],
            assumptions=["capnpc-generated accessors and the capnp runtime implement the record semantics of vlib/mirsym/capnp_model.py; serialize_packed is lossless"])

    for _pid, _tag in (("C15", "C15.b"), ("C07", "C07.d")):
      add(f"{_tag}/sanitize_table_name", _pid, "mirsym", Q,
        "storage::sanitize_table_name: a table name is used verbatim as its directory name exactly when it consists of [a-z0-9_.-] and does not start with '-' or '.'; every other name gets a directory name carrying the SHA-256 of the ORIGINAL name, so that names with the same sanitised form (case pairs, stripped characters) never share a directory",
        ["disk_store::storage::sanitize_table_name (+ retain closure)"],
        bounds="ASCII names of 0-2 (quick) / 0-3 (thorough) symbolic bytes; SHA-256 uninterpreted (collision-free by assumption); the text rendered by format! is not modelled (decided: which bytes are hashed, and when the name is modified); names over 189 bytes and non-ASCII names outside the claim",
        spec=sr.SanitizeTableNameSpec(), stubs=["Sha256 -> uninterpreted function recording its input", "format! -> opaque string", "str::to_lowercase / String::retain / trim_start_matches -> ASCII models"],
        assumptions=["bytes < 0x80", "SHA-256 is collision-free"])

    from .specs import respcodec as src_
    add("C16.f/query_response_roundtrip", "C16", "mirsym", Q,
        "QueryResponse::serialize then QueryResponse::deserialize, end to end on the real code (Column::serialize_builder's branch chain with the range / delta / double-delta encoders AND the decoding loops of Column::deserialize_reader): every column comes back with the same values - integers exact whatever compression was chosen, float bits, strings, mixed cells, all-NULL row counts, opaque XOR bytes",
        ["locustdb_serialization::api::QueryResponse::{serialize,serialize_builder,deserialize,deserialize_reader}", "api::Column::{serialize_builder,deserialize_reader}", "api::{determine_delta_compressability,delta_encode,double_delta_encode}"],
        bounds="integer columns of 0-3 arbitrary i64 (4 values time out in z3 on the double-delta paths), float columns of 0-2, string columns of 1-2, a mixed column over {Int, Float, Str, Null}, Null(n) with n symbolic, 2 XOR bytes, one two-column response; capnp runtime + generated accessors modelled from schemas/api.capnp; HashMap as association list",
        spec=src_.QueryResponseCodecSpec(),
        stubs=["capnp generated accessors -> record model driven by locustdb-serialization/schemas/api.capnp", "capnp::serialize_packed::{write_message,read_message} -> identity on the record tree", "HashMap<String,V> -> association list"],
        assumptions=["capnpc-generated accessors and the capnp runtime implement the record semantics of vlib/mirsym/capnp_model.py; serialize_packed is lossless"])

    from .specs import datatypes as sdt_
    add("C12.d/row_column_view", "C12", "mirsym", Q,
        "the two views of a result describe the same cells: BasicTypeColumn::from_boxed_data(column) (column view) against Data::get_raw(i) for every row (row view), for every result column representation: plain integers of each width, floats, nullable integers / floats (NULL exactly where the null map says), the all-NULL column",
        ["engine::execution::query_task::BasicTypeColumn::from_boxed_data", "<Vec<T> as Data>::get_raw", "<NullableVec<T> as Data>::get_raw", "<usize as Data>::get_raw", "VecData::wrap_one"],
        bounds="columns of 0 and 2 rows (quick) / 0,1,3,9 (thorough); Vec<i64>, Vec<u8>, Vec<OrderedFloat<f64>>, NullableVec<i64>, usize (quick) + Vec<u16|u32>, NullableVec<u8|f64> (thorough); values and null-map bytes symbolic; dyn Data get_type / cast_ref_* / len through the tagged-sequence model, get_raw through the real impls",
        spec=sdt_.RowColumnViewSpec(), stubs=["dyn Data dispatch -> tagged sequences (get_type, cast_ref_*, len); get_raw -> real impl of the receiver's concrete type"])

    add("C13.c/new_column_wiring", "C13", "mirsym", Q,
        "catalogue wiring in InnerLocustDB::ingest_efficient: every column name of a batch's table buffer - including columns without values in this batch - reaches Table::new_column_names, whose result becomes the rows written to _meta_columns_<table> (data-flow slice from the table_buffer.columns() call to the new_column_names call; counterexamples confirmed through the public API)",
        ["scheduler::inner_locustdb::InnerLocustDB::ingest_efficient (slice)", "locustdb_serialization::event_buffer::TableBuffer::columns", "the map closure of the call site"],
        bounds="table buffers of 0-3 columns over {I64, Dense, Sparse, String, Mixed, Empty}; everything else in ingest_efficient (locks, table creation, WAL, Table state) havoc'd; API replay mandatory for counterexamples",
        spec=sib.NewColumnWiringSpec(), stubs=["Table::new_column_names -> end of slice (the iterator it receives is drained and recorded)", "HashMap<String,V> -> association list", "all other callees of the slice -> havoc"])

    for pid, tag in (("C14", "C14.e"), ("C08", "C08.e")):
        add(f"{tag}/wal_segment_roundtrip", pid, "mirsym", Q,
            "disk_store::wal_segment::WalSegment::serialize then WalSegment::deserialize (one write-ahead log segment per acknowledged ingestion request): the segment id and every table / column / value of the request come back",
            ["disk_store::wal_segment::WalSegment::{serialize,deserialize}", "locustdb_serialization::event_buffer::EventBuffer::{serialize_builder,deserialize_reader}"],
            bounds="segment id symbolic; 4 (quick) / 7 (thorough) of the buffer shapes of C14.c/event_buffer_roundtrip; capnp modelled from schemas/wal_segment.capnp",
            spec=swc.WalSegmentCodecSpec(),
            stubs=["capnp generated accessors -> record model driven by locustdb-serialization/schemas/wal_segment.capnp", "capnp::serialize_packed::{write_message,read_message} -> identity on the record tree", "HashMap<String,V> -> association list"],
            assumptions=["capnpc-generated accessors and the capnp runtime implement the record semantics of vlib/mirsym/capnp_model.py; serialize_packed is lossless"])

    add("C16.g/table_buffer_rows", "C16", "mirsym", Q,
        "the client's row API: TableBuffer::push_row_and_timestamp called row after row with different key sets: TableBuffer.len counts the rows; every column holds, under the wire format's meaning (dense entry i = row i, sparse pair (r, v) = row r), exactly the value logged for each row (ints coerced to float once the column has seen a float) and nothing for rows that did not mention it or logged NULL; rows without a timestamp get one",
        ["locustdb_serialization::event_buffer::TableBuffer::push_row_and_timestamp", "event_buffer::ColumnBuffer::push (+ closures)", "<ColumnBuffer as Default>::default"],
        bounds="6 (quick) / 9 (thorough) row sequences of 2-4 rows over columns a, b, timestamp with kinds Int / Float / NULL / Str, values symbolic; the wall clock stubbed to a fixed instant; HashMap<String, ColumnBuffer> as association list",
        spec=seb.TableBufferRowsSpec(), stubs=["SystemTime::now / duration_since / Duration::as_millis -> fixed instant", "HashMap<String,V> -> association list (entry / or_default)"])

    from .specs import compaction as scp
    add("C07.c/plan_compaction", "C07", "mirsym", Q,
        "Table::plan_compaction: the partitions a compaction merges are a suffix of the table in row-offset order (whatever order the partition map yields them in), starting at the first partition whose size * combine_factor is below the total size from there on; their ids are listed in row order and the row range returned is exactly their rows - so the merged partition replaces one contiguous block of rows",
        ["mem_store::table::Table::plan_compaction (+ 3 closures)", "Partition::{range,total_size_bytes}"],
        bounds="0-3 (quick) / 0-4 (thorough) partitions tiling the table, inserted in a scrambled order; ids (distinct), row counts (1..2^32), sizes (< 2^40) and combine_factor (<= 1024) symbolic; RwLock as a box (sequential), HashMap as association list, itertools::sorted_by as insertion sort driven by the real closure",
        spec=scp.PlanCompactionSpec(), stubs=["RwLock::read -> box (no contention)", "HashMap<u64, Arc<Partition>> -> association list", "itertools::sorted_by -> insertion sort driven by the real comparison closure", "Iterator::scan -> eager scan with the real closure"],
        assumptions=["partition sizes below 2^40 bytes and combine_factor <= 1024 (the u64 product is unchecked beyond that)"])

    add("C01.k/dict_lookup", "C01", "mirsym", Q,
        "DictLookup<T>::execute (query-side decoding of dictionary-coded string columns, the decode step of a plain SELECT): output row j is the dictionary entry number indices[j], byte for byte (offset << 24 | length unpacking of the dictionary index)",
        ["<DictLookup<T> as VecOperator>::execute"],
        bounds="sorted dictionaries {b}, {b,d}, {a,c,e} (+{ab,b} thorough) in the IndexedPackedStrings layout, 0 and 2 rows (quick) / 0,1,3 (thorough) with symbolic in-range indices; T = u8 (+u16 thorough); strings of 2^24 bytes or more are outside the claim (TODO(34) in the code)",
        spec=sop_.DictLookupSpec(), stubs=["Scratchpad accessors -> obligation-owned buffers"])

    add("C07.e/table_batch", "C07", "mirsym", Q,
        "Table::batch (frozen buffer -> partition) called for successive flushes: an empty buffer creates nothing; otherwise the partition gets the next id, starts at the row where the previous one ended, covers exactly the buffer's rows and is registered under its id; next_partition_offset advances by the row count - partition row ranges tile the table",
        ["mem_store::table::Table::{batch,next_partition_id,name}"],
        bounds="1-2 (quick) / 1-3 (thorough) successive buffers with symbolic row counts (< 2^32), symbolic starting id and offset (< 2^40); Partition::from_buffer stubbed as a recorder of (id, offset, rows) - column finalisation is C01's subject; Mutex / RwLock as boxes (sequential), atomics as cells",
        spec=scp.TableBatchSpec(), stubs=["Partition::from_buffer -> recorder (range = offset .. offset + buffer rows)", "mem::take::<Buffer> -> empty buffer", "Mutex/RwLock -> boxes", "AtomicU64/AtomicUsize::fetch_add -> cells"],
        assumptions=["flushes are serialised (wal_flush holds the table's frozen buffer): Table::batch itself runs sequentially"])

    add("C01.l/unpack_strings", "C01", "mirsym", Q,
        "UnpackStrings::init then ::execute(streaming) batch after batch (query-side decoding of packed string columns): the batches, concatenated, are exactly the packed strings in order and byte for byte; no batch exceeds batch_size; has_more turns false after the last string",
        ["<UnpackStrings as VecOperator>::{init,execute}", "stringpack::StringPackerIterator::{from_slice,next}"],
        bounds="5 (quick) / 9 (thorough) (string lengths, batch_size) pairs incl. lengths 254/255/256 and string counts that are multiples of batch_size; first and last byte of each string symbolic",
        spec=so3.UnpackStringsSpec(), stubs=ostub)

    for pid, tag in (("C02", "C02.e"), ("C04", "C04.k")):
        add(f"{tag}/cast_int_float_null", pid, "mirsym", Q,
            "TypeConversionOperator<i64, of64> (the cast batch_merging inserts when two partitions' partial results disagree on a column's type): the in-band integer NULL becomes the float NULL, so a NULL partial aggregate stays NULL whatever the partition layout; every other value is converted as `v as f64`",
            ["<TypeConversionOperator<i64, of64> as VecOperator>::execute", "<i64 as Cast<of64>>::cast"],
            bounds="0 and 2 rows (quick) / 0,1,3 (thorough), all i64 values", spec=so2.CastIntFloatNullSpec(), stubs=["Scratchpad accessors -> obligation-owned buffers"])


_mirsym()


def obligations_for(prop, tier):
    return [o for o in ALL if o.prop == prop and tier in o.tiers]
