"""./check <PROPERTY> [--tier quick|thorough]   — decide one property on /repo's current working tree.

exit 0  every obligation of the tier was discharged by the solver (or matched a listed known finding)
exit 1  a solver counterexample reproduced against the real build and is not a listed known finding
        (stdout: VIOLATION property=<id> replay=<path>)
exit 2  inconclusive: build failure, timeout, unsupported construct, vacuous harness, non-reproducing model
"""
import argparse
import json
import os
import sys
import time
import traceback

from . import stage, kani, replay, findings
from .stage import log
from .obligations import obligations_for


def main(argv=None):
    ap = argparse.ArgumentParser()
    ap.add_argument("prop")
    ap.add_argument("--tier", default=os.environ.get("VERIF_TIER", "quick"), choices=["quick", "thorough"])
    ap.add_argument("--only", default=None, help="substring filter on obligation ids (debugging)")
    ap.add_argument("--no-evidence", action="store_true")
    args = ap.parse_args(argv)
    seed = int(os.environ.get("VERIF_SEED", "0") or 0)
    prop = args.prop
    t0 = time.time()
    obs = obligations_for(prop, args.tier)
    if args.only:
        obs = [o for o in obs if args.only in o.id]
    if not obs:
        print(f"no obligations registered for {prop}")
        return 2
    log(f"property {prop} tier={args.tier}: {len(obs)} obligations")

    records = []       # per obligation outcome
    inconclusive = []
    violations = []
    known_hits = []
    try:
        # ---------------- Engine A: Kani ----------------
        kobs = [o for o in obs if o.engine == "kani"]
        if kobs:
            cap = max(o.timeout for o in kobs)
            res, info = kani.run([o.harness for o in kobs], per_harness_timeout=cap)
            if info.get("build_error"):
                print("BUILD ERROR (kani):\n" + info["build_error"])
                inconclusive.append(("kani-build", info["build_error"][:300]))
            for n in info.get("notes", []):
                log("note: " + n)
            for o in kobs:
                r = res[o.harness]
                rec = o.describe()
                rec.update(r.to_json())
                records.append(rec)
                if r.status == "SUCCESS":
                    if r.covers_total and r.covers_sat != r.covers_total:
                        rec["verdict"] = "inconclusive"
                        inconclusive.append((o.id, f"vacuity witness unsatisfied ({r.covers_sat}/{r.covers_total} covers)"))
                    else:
                        rec["verdict"] = "discharged"
                elif r.status == "FAILED":
                    rec["verdict"] = "counterexample"
                    handle_kani_failure(prop, o, r, rec, args.tier, violations, known_hits, inconclusive)
                else:
                    rec["verdict"] = "inconclusive"
                    inconclusive.append((o.id, f"kani status {r.status}"))
        # ---------------- Engine B / SMT: python-side obligations ----------------
        pobs = [o for o in obs if o.engine != "kani"]
        if pobs:
            from . import pyengine
            pyengine.run(prop, pobs, args.tier, seed, records, violations, known_hits, inconclusive)
    except stage.BuildError as e:
        print("BUILD ERROR:\n" + str(e))
        inconclusive.append(("build", str(e)[:300]))
    except Exception:
        traceback.print_exc()
        inconclusive.append(("driver", "internal error"))

    wall = time.time() - t0
    for k in sorted(set(known_hits)):
        print(f"KNOWN-FINDING: property={prop} {k}")
    for v in violations:
        print(f"VIOLATION property={prop} replay={v['path']}")
        print("  " + v["what"])
    for oid, why in inconclusive:
        print(f"INCONCLUSIVE obligation={oid}: {why}")
    if not args.no_evidence:
        write_evidence(prop, args.tier, seed, obs, records, violations, known_hits, inconclusive, wall)
    n_dis = sum(1 for r in records if r.get("verdict") == "discharged")
    log(f"{prop}: {n_dis}/{len(obs)} discharged, {len(known_hits)} known findings, {len(violations)} violations, "
        f"{len(inconclusive)} inconclusive, {wall:.0f}s")
    if violations:
        return 1
    if inconclusive:
        return 2
    return 0


def handle_kani_failure(prop, o, r, rec, tier, violations, known_hits, inconclusive):
    keys = [findings.key_kani(o, fc) for fc in r.failed_checks] or [f"{o.id}|<unknown failed check>"]
    rec["finding_keys"] = keys
    unknown = [k for k in keys if not findings.is_known(prop, k)]
    for k in keys:
        if findings.is_known(prop, k):
            known_hits.append(f"{k} :: {findings.describe(prop, k)}")
    if not unknown:
        rec["verdict"] = "known-finding"
        return
    # new counterexample: obtain concrete values and replay natively before reporting
    log(f"counterexample for {o.id}: {unknown}; replaying against the real build")
    try:
        sets, out = kani.playback_values(o.harness, timeout=max(o.timeout, 300))
    except Exception as e:
        inconclusive.append((o.id, f"concrete playback failed: {e}"))
        return
    if not sets:
        inconclusive.append((o.id, "counterexample found but Kani printed no concrete playback values"))
        return
    reproduced = None
    last = None
    for vals in sets:
        last = replay.replay_kani_model(prop, o.harness, vals, release=False)
        if last["reproduced"]:
            reproduced = last
            break
    if reproduced is None and last is not None and last["reproduced"] is False and tier == "thorough":
        # dev profile did not reproduce: try release (wrap-around is a release-profile behaviour)
        for vals in sets:
            last = replay.replay_kani_model(prop, o.harness, vals, release=True)
            if last["reproduced"]:
                reproduced = last
                break
    if reproduced:
        rec["replay"] = reproduced["path"]
        violations.append({"path": reproduced["path"], "what": f"{o.id}: " + "; ".join(unknown) + " :: " + reproduced["detail"][:300]})
    else:
        inconclusive.append((o.id, "solver model did not reproduce natively: " + (last or {}).get("detail", "")[:200]))


def write_evidence(prop, tier, seed, obs, records, violations, known_hits, inconclusive, wall):
    os.makedirs(os.path.join(stage.VERIF, "evidence"), exist_ok=True)
    discharged = [r for r in records if r.get("verdict") == "discharged"]
    queries = 0
    solver_s = 0.0
    for r in records:
        queries += r.get("queries", 0) or (r.get("checks") or 0)
        solver_s += r.get("solver_s") or 0.0
    # distinct non-trivial cases: (obligation, instantiation, input shape) kernels whose symbolic execution reached at least one
    # returning path (mirsym), or Kani harnesses whose cover witnesses were all satisfied
    nontrivial = 0
    states = transitions = traces = 0
    for r in records:
        if r.get("engine") == "kani":
            if r.get("verdict") == "discharged":
                nontrivial += 1
            states += 1 if r.get("checks") else 0
            transitions += r.get("checks") or 0
        else:
            if r.get("verdict") in ("discharged", "known-finding") and r.get("nonvacuous", True):
                nontrivial += r.get("cases", 0) or (1 if r.get("paths") else 0)
            states += r.get("paths", 0) or 0
            transitions += r.get("blocks", 0) or 0
            traces += r.get("diff_validated", 0) or 0
        if r.get("replay"):
            traces += 1
    functions = sorted({f for r in records for f in r.get("functions", [])})
    stubs = sorted({s for r in records for s in r.get("stubs", [])})
    samples = []
    for r in records[:6] + [r for r in records if r.get("verdict") not in ("discharged",)][:6]:
        s = {k: r.get(k) for k in ("id", "engine", "desc", "bounds", "verdict", "harness", "status", "solver_s", "paths", "queries", "sample_path", "failed_checks", "finding_keys") if r.get(k) is not None}
        if s not in samples:
            samples.append(s)
    ev = {
        "property_id": prop,
        "tier": tier,
        "seed": seed,
        "level": "model_checking",
        "coverage": {
            "evaluations": max(queries, len(records)),
            "distinct_nontrivial": nontrivial,
            "rule": "one case = one kernel: a Kani/CBMC harness over one concrete instantiation of a real function, or one mirsym "
                    "symbolic execution of a real function's MIR for one (generic instantiation, input shape). evaluations = "
                    "solver-checked properties/queries summed over obligations; distinct_nontrivial = distinct kernels that were "
                    "decided and are non-vacuous (Kani: all kani::cover witnesses satisfied; mirsym: at least one returning path "
                    "under a satisfiable precondition). states = symbolic end states (complete mirsym paths, each a path-condition "
                    "class of inputs) + one symbolic state space per Kani harness; transitions = MIR basic blocks executed "
                    "symbolically + CBMC properties checked; traces_validated_against_impl = concrete runs in which the real "
                    "compiled function (native driver) and the symbolic executor in concrete mode agreed, plus solver "
                    "counterexamples that were replayed against the real build.",
            "states": states,
            "transitions": transitions,
            "traces_validated_against_impl": traces,
            "obligations": len(obs),
            "discharged": len(discharged),
            "known_findings": len(known_hits),
            "inconclusive": [f"{a}: {b}" for a, b in inconclusive],
            "functions_encoded": functions,
            "stubs": stubs,
            "solver_seconds": round(solver_s, 2),
            "paths_explored": sum(r.get("paths", 0) or 0 for r in records),
            "bounds": sorted({r["id"] + ": " + r["bounds"] for r in records if r.get("bounds")}),
            "samples": samples,
            "exhaustive": False,
            "per_obligation": [{k: r.get(k) for k in ("id", "engine", "verdict", "solver_s", "queries", "paths", "checks", "covers") if r.get(k) is not None} for r in records],
        },
        "assumptions": sorted({a for r in records for a in r.get("assumptions", [])}),
        "wall_s": round(wall, 1),
        "violations": len(violations),
    }
    p = os.path.join(stage.VERIF, "evidence", f"{prop}.json")
    with open(p + ".tmp", "w") as f:
        json.dump(ev, f, indent=1, default=str)
    os.replace(p + ".tmp", p)


if __name__ == "__main__":
    sys.exit(main())
