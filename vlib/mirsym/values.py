"""Value model of the MIR symbolic executor.

Scalars are Python ints when concrete and z3 terms when symbolic (bit-vectors; Bool for `bool`).
Everything whose *shape* matters for control flow (lengths, discriminants, indices) is concrete on a path.
"""
import z3

INT_W = {"u8": 8, "u16": 16, "u32": 32, "u64": 64, "usize": 64, "u128": 128,
         "i8": 8, "i16": 16, "i32": 32, "i64": 64, "isize": 64, "i128": 128,
         "bool": 1, "char": 32, "f64": 64, "f32": 32}
SIGNED = {"i8", "i16", "i32", "i64", "isize", "i128"}
FLOATS = {"f64", "f32"}


def is_int_ty(t):
    return t in INT_W and t not in FLOATS and t != "bool"


def norm(ty, v):
    """normalise a concrete python int into the range of ty"""
    w = INT_W[ty]
    v &= (1 << w) - 1
    if ty in SIGNED and v >> (w - 1):
        v -= 1 << w
    return v


class V:
    pass


class I(V):
    """integer / bool / char / float-as-bits scalar"""
    __slots__ = ("ty", "v")

    def __init__(self, ty, v):
        self.ty = ty
        if isinstance(v, bool):
            v = int(v)
        if isinstance(v, int):
            v = norm(ty, v) if ty != "bool" else (1 if v else 0)
        else:
            # simplify eagerly: keeps terms small and often turns them concrete
            v = z3.simplify(v)
            if ty == "bool":
                if z3.is_true(v):
                    v = 1
                elif z3.is_false(v):
                    v = 0
            elif z3.is_bv_value(v):
                v = norm(ty, v.as_long())
        self.v = v

    def __deepcopy__(self, memo):
        return self

    @property
    def concrete(self):
        return isinstance(self.v, int)

    @property
    def w(self):
        return INT_W[self.ty]

    def z(self):
        """z3 term (BitVec, or Bool for bool)"""
        if isinstance(self.v, int):
            if self.ty == "bool":
                return z3.BoolVal(bool(self.v))
            return z3.BitVecVal(self.v, self.w)
        return self.v

    def __repr__(self):
        if self.concrete:
            return f"{self.v}_{self.ty}"
        s = str(self.v).replace("\n", " ")
        return f"<{s[:60]}>:{self.ty}"


class Unit(V):
    def __deepcopy__(self, memo):
        return self

    def __repr__(self):
        return "()"


UNIT = Unit()


class Agg(V):
    """tuple / struct / enum variant / array.  `variant` is the variant *name* for enums (None otherwise)."""
    __slots__ = ("kind", "name", "variant", "fields")

    def __init__(self, kind, fields, name=None, variant=None):
        self.kind = kind
        self.name = name
        self.variant = variant
        self.fields = list(fields)

    def __repr__(self):
        n = (self.name or "") + ("::" + self.variant if self.variant else "")
        return f"{n}{self.kind[0]}{self.fields}"


class VecObj(V):
    """heap buffer of a Vec<T> / String / VecDeque; owned, passed by identity on move"""
    __slots__ = ("elems", "ty", "cap", "is_str")

    def __init__(self, elems, ty=None, cap=None, is_str=False):
        self.elems = list(elems)
        self.ty = ty
        self.cap = cap if cap is not None else len(self.elems)
        self.is_str = is_str

    def __repr__(self):
        return f"Vec{self.elems}"


class Cell:
    __slots__ = ("v",)

    def __init__(self, v=None):
        self.v = v

    def __repr__(self):
        return f"Cell({self.v!r})"


class Ref(V):
    """reference / raw pointer / Box: (cell, path) plus an optional slice window (lo, hi) into the sequence the path
    designates.  path steps: ('f', i) field, ('i', k) element, ('d', variant) downcast (no-op for navigation)."""
    __slots__ = ("cell", "path", "window", "is_str", "mut")

    def __init__(self, cell, path=(), window=None, is_str=False, mut=False):
        self.cell = cell
        self.path = tuple(path)
        self.window = window
        self.is_str = is_str
        self.mut = mut

    def __repr__(self):
        w = f"[{self.window[0]}..{self.window[1]}]" if self.window else ""
        return f"&{id(self.cell) % 10000}{list(self.path)}{w}"


class FnItem(V):
    __slots__ = ("path",)

    def __init__(self, path):
        self.path = path

    def __deepcopy__(self, memo):
        return self

    def __repr__(self):
        return f"fn {self.path}"


class Opaque(V):
    """environment object the obligation's stubs understand (scratchpad, capnp reader, ...)"""
    __slots__ = ("tag", "data")

    def __init__(self, tag, data=None):
        self.tag = tag
        self.data = data

    def __repr__(self):
        return f"Opaque({self.tag})"


class Havoc(V):
    """under-constrained object of an arithmetic slice: fields materialise on first access (scalars as fresh symbols).
    Counterexamples that depend on havoc'd state are only *candidates* until replayed through the public API."""
    counter = [0]

    def __init__(self, ty, name="h"):
        self.ty = ty
        self.name = name
        self.fields = {}

    def field(self, idx, fty):
        if idx not in self.fields:
            fty = fty.strip()
            nm = f"{self.name}.{idx}"
            if fty in INT_W:
                Havoc.counter[0] += 1
                if fty == "bool":
                    self.fields[idx] = I("bool", z3.Bool(f"{nm}#{Havoc.counter[0]}"))
                else:
                    self.fields[idx] = I(fty, z3.BitVec(f"{nm}#{Havoc.counter[0]}", INT_W[fty]))
            else:
                self.fields[idx] = Havoc(fty, nm)
        return self.fields[idx]

    def __repr__(self):
        return f"Havoc<{self.ty[:40]}>"


class Uninit(V):
    def __deepcopy__(self, memo):
        return self

    def __repr__(self):
        return "<uninit>"


UNINIT = Uninit()


def clone_shallow(v):
    """value copy for MIR copy/move: aggregates are copied structurally, heap objects keep identity"""
    if isinstance(v, Agg):
        return Agg(v.kind, [clone_shallow(f) for f in v.fields], v.name, v.variant)
    return v


def deep_clone(v, memo=None):
    """Clone::clone for owned data (Vec<T>, String, nested aggregates)"""
    if isinstance(v, Agg):
        return Agg(v.kind, [deep_clone(f) for f in v.fields], v.name, v.variant)
    if isinstance(v, VecObj):
        return VecObj([deep_clone(e) for e in v.elems], v.ty, len(v.elems), v.is_str)
    return v


# ------------------------------------------------------------------------------------------------
# scalar operations
# ------------------------------------------------------------------------------------------------
def _ext(x, to_w):
    """extend I to width to_w as z3 term respecting signedness"""
    z = x.z()
    if x.ty == "bool":
        z = z3.If(z, z3.BitVecVal(1, to_w), z3.BitVecVal(0, to_w))
        return z
    d = to_w - x.w
    if d == 0:
        return z
    if d < 0:
        return z3.Extract(to_w - 1, 0, z)
    return z3.SignExt(d, z) if x.ty in SIGNED else z3.ZeroExt(d, z)


def fp_sort(ty):
    return z3.Float64() if ty == "f64" else z3.Float32()


def to_fp(x):
    return z3.fpBVToFP(x.z(), fp_sort(x.ty))


def float_concrete(x):
    import struct
    if x.ty == "f64":
        return struct.unpack("<d", struct.pack("<Q", x.v & (2**64 - 1)))[0]
    return struct.unpack("<f", struct.pack("<I", x.v & (2**32 - 1)))[0]


def float_bits(ty, f):
    import struct
    if ty == "f64":
        return struct.unpack("<Q", struct.pack("<d", f))[0]
    return struct.unpack("<I", struct.pack("<f", f))[0]


def binop(op, a, b):
    """returns I or Agg tuple (for *WithOverflow).  Semantics of rustc MIR BinOp."""
    if op in ("AddWithOverflow", "SubWithOverflow", "MulWithOverflow"):
        base = op[:3]
        ty = a.ty
        w = a.w
        if a.concrete and b.concrete:
            r = {"Add": a.v + b.v, "Sub": a.v - b.v, "Mul": a.v * b.v}[base]
            return Agg("tuple", [I(ty, r), I("bool", norm(ty, r) != r)])
        ew = 2 * w if base == "Mul" else w + 1
        A, B = _ext(a, ew), _ext(b, ew)
        R = {"Add": A + B, "Sub": A - B, "Mul": A * B}[base]
        lo = z3.Extract(w - 1, 0, R)
        back = z3.SignExt(ew - w, lo) if ty in SIGNED else z3.ZeroExt(ew - w, lo)
        return Agg("tuple", [I(ty, lo), I("bool", back != R)])
    if a.ty in FLOATS:
        return _float_binop(op, a, b)
    ty = a.ty
    signed = ty in SIGNED
    if op in ("Shl", "Shr", "ShlUnchecked", "ShrUnchecked"):
        w = a.w
        if a.concrete and b.concrete:
            sh = b.v % w
            if op.startswith("Shl"):
                return I(ty, a.v << sh)
            return I(ty, a.v >> sh)       # python >> is arithmetic for negative ints = signed semantics
        sh = _ext(I(b.ty, b.v), w) if b.w != w else b.z()
        sh = sh & z3.BitVecVal(w - 1, w)
        if op.startswith("Shl"):
            return I(ty, a.z() << sh)
        return I(ty, (a.z() >> sh) if signed else z3.LShR(a.z(), sh))
    if op in ("Eq", "Ne", "Lt", "Le", "Gt", "Ge"):
        if a.concrete and b.concrete:
            r = {"Eq": a.v == b.v, "Ne": a.v != b.v, "Lt": a.v < b.v, "Le": a.v <= b.v, "Gt": a.v > b.v, "Ge": a.v >= b.v}[op]
            return I("bool", r)
        A, B = a.z(), b.z()
        if ty == "bool":
            A = z3.If(A, z3.BitVecVal(1, 1), z3.BitVecVal(0, 1))
            B = z3.If(B, z3.BitVecVal(1, 1), z3.BitVecVal(0, 1))
        if op == "Eq":
            return I("bool", A == B)
        if op == "Ne":
            return I("bool", A != B)
        if signed:
            r = {"Lt": A < B, "Le": A <= B, "Gt": A > B, "Ge": A >= B}[op]
        else:
            r = {"Lt": z3.ULT(A, B), "Le": z3.ULE(A, B), "Gt": z3.UGT(A, B), "Ge": z3.UGE(A, B)}[op]
        return I("bool", r)
    if op == "Cmp":
        lt = binop("Lt", a, b)
        eq = binop("Eq", a, b)
        if lt.concrete and eq.concrete:
            return ordering(-1 if lt.v else (0 if eq.v else 1))
        return ("symbolic-ordering", lt, eq)
    if ty == "bool":
        if a.concrete and b.concrete:
            r = {"BitAnd": a.v & b.v, "BitOr": a.v | b.v, "BitXor": a.v ^ b.v}[op]
            return I("bool", r)
        A, B = a.z(), b.z()
        return I("bool", {"BitAnd": z3.And(A, B), "BitOr": z3.Or(A, B), "BitXor": z3.Xor(A, B)}[op])
    base = op.replace("Unchecked", "")
    if a.concrete and b.concrete:
        x, y = a.v, b.v
        if base == "Add":
            return I(ty, x + y)
        if base == "Sub":
            return I(ty, x - y)
        if base == "Mul":
            return I(ty, x * y)
        if base == "Div":
            q = abs(x) // abs(y)
            return I(ty, q if (x < 0) == (y < 0) else -q)
        if base == "Rem":
            r = abs(x) % abs(y)
            return I(ty, -r if x < 0 else r)
        if base == "BitAnd":
            return I(ty, x & y)
        if base == "BitOr":
            return I(ty, x | y)
        if base == "BitXor":
            return I(ty, x ^ y)
    A, B = a.z(), b.z()
    if base == "Add":
        return I(ty, A + B)
    if base == "Sub":
        return I(ty, A - B)
    if base == "Mul":
        return I(ty, A * B)
    if base == "Div":
        return I(ty, (A / B) if signed else z3.UDiv(A, B))
    if base == "Rem":
        return I(ty, z3.SRem(A, B) if signed else z3.URem(A, B))
    if base == "BitAnd":
        return I(ty, A & B)
    if base == "BitOr":
        return I(ty, A | B)
    if base == "BitXor":
        return I(ty, A ^ B)
    raise NotImplementedError("binop " + op)


def _float_binop(op, a, b):
    ty = a.ty
    if a.concrete and b.concrete:
        x, y = float_concrete(a), float_concrete(b)
        if op in ("Eq", "Ne", "Lt", "Le", "Gt", "Ge"):
            r = {"Eq": x == y, "Ne": x != y, "Lt": x < y, "Le": x <= y, "Gt": x > y, "Ge": x >= y}[op]
            return I("bool", r)
        try:
            if op == "Add":
                return I(ty, float_bits(ty, x + y))
            if op == "Sub":
                return I(ty, float_bits(ty, x - y))
            if op == "Mul":
                return I(ty, float_bits(ty, x * y))
            if op == "Div" and y != 0:
                return I(ty, float_bits(ty, x / y))
        except OverflowError:
            pass
    A, B = to_fp(a), to_fp(b)
    if op in ("Eq", "Ne", "Lt", "Le", "Gt", "Ge"):
        r = {"Eq": z3.fpEQ(A, B), "Ne": z3.Not(z3.fpEQ(A, B)), "Lt": z3.fpLT(A, B), "Le": z3.fpLEQ(A, B),
             "Gt": z3.fpGT(A, B), "Ge": z3.fpGEQ(A, B)}[op]
        return I("bool", r)
    rm = z3.RNE()
    r = {"Add": z3.fpAdd(rm, A, B), "Sub": z3.fpSub(rm, A, B), "Mul": z3.fpMul(rm, A, B), "Div": z3.fpDiv(rm, A, B)}[op]
    return I(ty, z3.fpToIEEEBV(r))


def ordering(k):
    return Agg("enum", [], name="Ordering", variant={-1: "Less", 0: "Equal", 1: "Greater"}[k])


def unop(op, a):
    if op == "Not":
        if a.ty == "bool":
            return I("bool", (1 - a.v) if a.concrete else z3.Not(a.z()))
        return I(a.ty, ~a.v if a.concrete else ~a.z())
    if op == "Neg":
        if a.ty in FLOATS:
            w = a.w
            if a.concrete:
                return I(a.ty, a.v ^ (1 << (w - 1)))
            return I(a.ty, a.z() ^ z3.BitVecVal(1 << (w - 1), w))
        return I(a.ty, -a.v if a.concrete else -a.z())
    raise NotImplementedError("unop " + op)


def cast_int(a, to_ty):
    """IntToInt (also bool/char -> int)"""
    if a.concrete:
        return I(to_ty, a.v)
    return I(to_ty, _ext(a, INT_W[to_ty]))


def cast_int_to_float(a, to_ty):
    if a.concrete:
        return I(to_ty, float_bits(to_ty, float(a.v)))      # python int->float rounds to nearest even like Rust
    z = a.z()
    fp = z3.fpSignedToFP(z3.RNE(), z, fp_sort(to_ty)) if a.ty in SIGNED else z3.fpUnsignedToFP(z3.RNE(), z, fp_sort(to_ty))
    return I(to_ty, z3.fpToIEEEBV(fp))


def cast_float_to_int(a, to_ty):
    """Rust `as`: saturating, NaN -> 0"""
    import math
    w = INT_W[to_ty]
    signed = to_ty in SIGNED
    lo = -(1 << (w - 1)) if signed else 0
    hi = (1 << (w - 1)) - 1 if signed else (1 << w) - 1
    if a.concrete:
        f = float_concrete(a)
        if math.isnan(f):
            return I(to_ty, 0)
        if f >= hi:
            return I(to_ty, hi)
        if f <= lo:
            return I(to_ty, lo)
        return I(to_ty, int(f))
    F = to_fp(a)
    srt = fp_sort(a.ty)
    conv = z3.fpToSBV(z3.RTZ(), F, z3.BitVecSort(w)) if signed else z3.fpToUBV(z3.RTZ(), F, z3.BitVecSort(w))
    hi_f = z3.FPVal(float(hi), srt)
    lo_f = z3.FPVal(float(lo), srt)
    r = z3.If(z3.fpIsNaN(F), z3.BitVecVal(0, w),
              z3.If(z3.fpGEQ(F, hi_f), z3.BitVecVal(hi, w),
                    z3.If(z3.fpLEQ(F, lo_f), z3.BitVecVal(lo, w), conv)))
    return I(to_ty, r)


def ite(c, a, b):
    """c: I(bool); a, b: I of same type"""
    if c.concrete:
        return a if c.v else b
    if a.ty == "bool":
        return I("bool", z3.If(c.z(), a.z(), b.z()))
    return I(a.ty, z3.If(c.z(), a.z(), b.z()))


def band(*cs):
    out = 1
    zs = []
    for c in cs:
        if c.concrete:
            if not c.v:
                return I("bool", 0)
        else:
            zs.append(c.z())
    if not zs:
        return I("bool", 1)
    return I("bool", z3.And(*zs) if len(zs) > 1 else zs[0])


def bnot(c):
    return unop("Not", c)
