"""Path-forking symbolic executor over rustc MIR text (see DESIGN.md §2.B).

Shapes (lengths, discriminants, indices) are concrete on every path; scalar contents are z3 terms.
A construct the executor does not understand raises Unsupported: the obligation is then *inconclusive*,
never discharged.
"""
import copy
import re
import time

import z3

from . import mir as M
from .values import (I, Agg, VecObj, Cell, Ref, FnItem, Opaque, UNIT, UNINIT, Unit, V, INT_W, SIGNED, FLOATS, Havoc,
                     binop, unop, cast_int, cast_int_to_float, cast_float_to_int, clone_shallow, deep_clone,
                     ordering, is_int_ty, float_bits, band, bnot)
from .srcinfo import parse_impl_header, norm_type, unify


class Unsupported(Exception):
    pass


class Fork(Exception):
    def __init__(self, cond):
        self.cond = cond


class ForkValues(Exception):
    """concretise a symbolic scalar by case split: value in `choices` (list of python ints)"""

    def __init__(self, term, choices):
        self.term = term
        self.choices = choices


class Infeasible(Exception):
    """path left the set of valid states (only in slices: a havoc'd discriminant reached MIR `unreachable`)"""


class StopSlice(Exception):
    """raised by a stub to end an arithmetic slice at a named call (the path is reported as outcome 'stop')"""

    def __init__(self, info=None):
        self.info = info


class PanicExc(Exception):
    def __init__(self, msg):
        self.msg = msg


class Outcome:
    def __init__(self, kind, value, st, msg=""):
        self.kind = kind          # 'return' | 'panic'
        self.value = value
        self.st = st
        self.pc = list(st.pc)
        self.msg = msg
        self.trace = list(st.trace)

    def __repr__(self):
        return f"Outcome({self.kind}, {self.value!r}, {self.msg})"


class Frame:
    __slots__ = ("fn", "locals", "block", "idx", "dest", "target", "tymap", "name")

    def __init__(self, fn, tymap):
        self.fn = fn
        self.locals = {}
        self.block = "bb0"
        self.idx = 0
        self.dest = None
        self.target = None
        self.tymap = tymap
        self.name = fn.name

    def __deepcopy__(self, memo):
        f = Frame(self.fn, self.tymap)
        f.locals = copy.deepcopy(self.locals, memo)
        f.block = self.block
        f.idx = self.idx
        f.dest = copy.deepcopy(self.dest, memo)
        f.target = self.target
        return f


class State:
    def __init__(self):
        self.frames = []
        self.pc = []
        self.decided = {}
        self.trace = []
        self.fuel = 0
        self.env = {}          # obligation-owned data (deep-copied on fork)
        self.fresh = []        # symbols created on this path (name, term, origin)

    def clone(self):
        memo = {}
        s = State()
        s.frames = copy.deepcopy(self.frames, memo)
        s.env = copy.deepcopy(self.env, memo)
        s.pc = list(self.pc)
        s.decided = dict(self.decided)
        s.trace = list(self.trace)
        s.fuel = self.fuel
        s.fresh = list(self.fresh)
        return s


class Loc:
    __slots__ = ("cell", "path", "window", "is_str")

    def __init__(self, cell, path=(), window=None, is_str=False):
        self.cell = cell
        self.path = tuple(path)
        self.window = window
        self.is_str = is_str


def seq_elems(v):
    if isinstance(v, VecObj):
        return v.elems
    if isinstance(v, Agg) and v.kind == "array":
        return v.fields
    raise Unsupported(f"not a sequence: {v!r}")


def navigate(v, path):
    for step in path:
        k = step[0]
        if k == "f":
            if isinstance(v, Agg):
                if step[1] >= len(v.fields):
                    raise Unsupported(f"field {step[1]} of {v!r}")
                v = v.fields[step[1]]
            elif isinstance(v, Havoc):
                if len(step) < 3:
                    raise Unsupported("untyped field access into a havoc'd object")
                v = v.field(step[1], step[2])
            elif isinstance(v, Ref) and step[1] == 0 and len(step) >= 3 and re.search(r"Unique<|NonNull<|\*const |\*mut ", step[2]):
                pass      # Box<T>.0 (Unique).0 (NonNull).pointer : the pointer a Box wraps is the Ref itself
            else:
                raise Unsupported(f"field access into {v!r}")
        elif k == "i":
            v = seq_elems(v)[step[1]]
        elif k == "d":
            pass
        else:
            raise Unsupported("path step " + repr(step))
    return v


class Executor:
    def __init__(self, dumps, srcinfo, roots, stubs=None, max_paths=20000, fuel=200000, solver_timeout_ms=60000):
        """dumps: {crate_key: MirDump}; roots: {crate_key: crate root dir}"""
        self.dumps = dumps
        self.src = srcinfo
        self.roots = roots
        self.stubs = list(stubs or [])      # [(regex, callable)]
        self.max_paths = max_paths
        self.fuel = fuel
        self.solver = z3.Solver()
        self.solver.set("timeout", solver_timeout_ms)
        self.solver_timeout_ms = solver_timeout_ms
        self.dump_unknown = None
        self.queries = 0
        self.solver_s = 0.0
        self.blocks_executed = 0
        self.sym_counter = 0
        self.havoc_log = set()
        self.havoc_unknown_calls = False   # slices: unmodelled callees return under-constrained values
        self.havoc_calls = 0
        self.inline_in_slices = lambda fn: False
        self.prune_unreachable = False     # slices over havoc'd state set this: `unreachable` = invalid state, not a panic
        self.pruned = 0
        self._impl_index = None
        self._closure_index = None
        self._const_cache = {}
        self._suffix_index = None
        from . import models
        self.models = models.MODELS

    # ------------------------------------------------------------------ solver
    def check(self, conds):
        self.queries += 1
        t0 = time.time()
        m = None
        if any(self._has_fp(c) for c in conds if not isinstance(c, bool)):
            # floating-point terms: z3's incremental core was seen to answer such queries wrongly after push/pop
            # (bogus models); they go to a fresh, non-incremental solver every time
            self.fp_queries = getattr(self, "fp_queries", 0) + 1
            s1 = z3.Solver()
            s1.set("timeout", self.solver_timeout_ms)
            for c in conds:
                s1.add(c)
            r = s1.check()
            if r == z3.sat:
                m = s1.model()
        else:
            self.solver.push()
            for c in conds:
                self.solver.add(c)
            r = self.solver.check()
            if r == z3.sat:
                m = self.solver.model()
            self.solver.pop()
        if r == z3.unknown:
            # second opinion: a fresh QF_BV solver (bit-blasting + SAT) often answers what the incremental default gives up on
            s2 = z3.SolverFor("QF_BV")
            s2.set("timeout", self.solver_timeout_ms * 2)
            for c in conds:
                s2.add(c)
            r = s2.check()
            if r == z3.sat:
                m = s2.model()
            if r == z3.unknown and self.dump_unknown:
                with open(self.dump_unknown, "w") as f:
                    f.write(s2.to_smt2())
        if r == z3.sat and m is not None and not self._model_ok(m, conds):
            # z3's incremental core can return a model that does not satisfy a query with floating-point terms
            # (seen with 5.1.0 after push/pop): never believe such a model - re-ask a fresh, non-incremental solver
            self.bogus_models = getattr(self, "bogus_models", 0) + 1
            s3 = z3.Solver()
            s3.set("timeout", self.solver_timeout_ms * 2)
            for c in conds:
                s3.add(c)
            r = s3.check()
            m = s3.model() if r == z3.sat else None
            if r == z3.sat and not self._model_ok(m, conds):
                self.solver_s += time.time() - t0
                raise Unsupported("solver returned a model that does not satisfy the path query (twice)")
        self.solver_s += time.time() - t0
        if r == z3.unknown:
            raise Unsupported("solver returned unknown (timeout) on a path query")
        return r == z3.sat, m

    _fp_memo = {}

    @classmethod
    def _has_fp(cls, e):
        """does the term contain a floating-point sub-term?  (memoised on the AST id; iterative DAG walk)"""
        memo = cls._fp_memo
        if len(memo) > 2000000:
            memo.clear()
        root = e.get_id()
        if root in memo:
            return memo[root]
        stack = [e]
        seen = []
        found = False
        while stack:
            x = stack.pop()
            i = x.get_id()
            if i in memo:
                if memo[i]:
                    found = True
                    break
                continue
            k = x.sort_kind()
            if k in (z3.Z3_FLOATING_POINT_SORT, z3.Z3_ROUNDING_MODE_SORT):
                found = True
                memo[i] = True
                break
            seen.append(i)
            memo[i] = False
            stack.extend(x.children())
        if found:
            # conservative: only the root is recorded as containing FP (sub-terms visited so far stay "unknown -> False" only
            # if fully explored; reset the ones we marked on this walk)
            for i in seen:
                memo.pop(i, None)
        memo[root] = found
        return found

    @staticmethod
    def _model_ok(m, conds):
        for c in conds:
            if isinstance(c, bool):
                if not c:
                    return False
                continue
            v = m.eval(c, model_completion=True)
            if z3.is_false(v):
                return False
        return True

    def feasible(self, st, extra):
        ok, _ = self.check(st.pc + list(extra))
        return ok

    def fresh(self, st, ty, hint):
        self.sym_counter += 1
        name = f"{hint}#{self.sym_counter}"
        if ty == "bool":
            t = z3.Bool(name)
        else:
            t = z3.BitVec(name, INT_W[ty])
        st.fresh.append((name, ty))
        return I(ty, t)

    def decide(self, st, cond):
        """cond: I(bool).  Returns a python bool valid on this path, forking if both outcomes are feasible."""
        if cond.concrete:
            return bool(cond.v)
        key = cond.v.get_id()
        if key in st.decided:
            return st.decided[key]
        t = self.feasible(st, [cond.v])
        f = self.feasible(st, [z3.Not(cond.v)])
        if t and f:
            raise Fork(cond)
        if not t and not f:
            raise Unsupported("path condition became unsatisfiable")
        st.decided[key] = t
        st.pc.append(cond.v if t else z3.Not(cond.v))
        return t

    def concretize(self, st, x, bound=None, what="index"):
        """x: I (integer).  Returns python int, forking over feasible values (at most `bound`)."""
        if x.concrete:
            return x.v
        key = ("val", x.v.get_id())
        if key in st.decided:
            return st.decided[key]
        choices = []
        excl = []
        limit = bound if bound is not None else 64
        while len(choices) <= limit:
            ok, m = self.check(st.pc + excl)
            if not ok:
                break
            val = m.eval(x.v, model_completion=True).as_long()
            val = I(x.ty, val).v
            choices.append(val)
            excl.append(x.v != z3.BitVecVal(val, x.w))
        else:
            raise Unsupported(f"symbolic {what} with more than {limit} feasible values")
        if len(choices) == 1:
            st.decided[key] = choices[0]
            st.pc.append(x.v == z3.BitVecVal(choices[0], x.w))
            return choices[0]
        raise ForkValues(x, choices)

    # ------------------------------------------------------------------ lookup
    def _build_suffix_index(self):
        idx = {}
        for key, d in self.dumps.items():
            for name, fs in d.functions.items():
                segs = name.split("::")
                # index by last segment for cheap candidate retrieval
                idx.setdefault(segs[-1], []).append((key, name, fs))
        self._suffix_index = idx

    def lookup_fn(self, path):
        """free functions / consts by (suffix of) printed path, generic args already stripped"""
        if self._suffix_index is None:
            self._build_suffix_index()
        last = path.split("::")[-1]
        out = []
        for key, name, fs in self._suffix_index.get(last, []):
            if name == path or path.endswith("::" + name) or name.endswith("::" + path):
                out.extend((key, f) for f in fs)
        return out

    def impl_index(self):
        if self._impl_index is not None:
            return self._impl_index
        idx = {}     # method name -> list of dict(key, fn, hdr)
        rx = re.compile(r"<impl at ([^>]*?):(\d+):(\d+): (\d+):(\d+)>::([A-Za-z_0-9]+)$")
        hdr_cache = {}
        for key, d in self.dumps.items():
            for name, fs in d.functions.items():
                m = rx.search(name)
                if not m:
                    continue
                span = (key, m.group(1), int(m.group(2)), int(m.group(3)))
                if span not in hdr_cache:
                    h = self.src.impl_header(self.roots[key], m.group(1), int(m.group(2)), int(m.group(3)))
                    hdr_cache[span] = parse_impl_header(h) if h else None
                hdr = hdr_cache[span]
                if hdr is None:
                    continue
                for f in fs:
                    idx.setdefault(m.group(6), []).append({"key": key, "fn": f, "hdr": hdr, "name": name})
        self._impl_index = idx
        return idx

    def resolve_method(self, self_ty, trait, method, nargs=None):
        """returns (fn, bindings) or None.  trait may be None (inherent)."""
        cands = []
        for e in self.impl_index().get(method, []):
            hdr = e["hdr"]
            if trait is None:
                if hdr["trait"] is not None:
                    continue
            else:
                if hdr["trait"] is None:
                    continue
            b = {}
            if not unify(hdr["self"], self_ty, hdr["generics"], b):
                continue
            if trait is not None:
                th, targs = _split_generic(norm_type(hdr["trait"]))
                ch, cargs = _split_generic(norm_type(trait))
                if th.split("::")[-1] != ch.split("::")[-1]:
                    continue
                if len(targs) == len(cargs):
                    if not all(unify(x, y, hdr["generics"], b) for x, y in zip(targs, cargs)):
                        continue
                elif targs and cargs:
                    continue
            cands.append((e, b))
        if not cands:
            return None
        if len(cands) > 1:
            # prefer the most specific impl (fewest generic bindings) — mirrors `specialization`
            cands.sort(key=lambda eb: len(eb[1]))
            if len(cands[0][1]) == len(cands[1][1]):
                # identical specificity: ambiguous unless same function
                if cands[0][0]["fn"] is not cands[1][0]["fn"]:
                    raise Unsupported(f"ambiguous impl for <{self_ty} as {trait}>::{method}: "
                                      + ", ".join(c[0]["name"][:90] for c in cands[:3]))
        e, b = cands[0]
        return e["fn"], b

    # ------------------------------------------------------------------ types / constants
    def subst(self, frame, ty):
        if not frame.tymap:
            return ty
        for k, v in frame.tymap.items():
            ty = re.sub(r"(?<![A-Za-z0-9_:])" + re.escape(k) + r"(?![A-Za-z0-9_])", v, ty)
        return ty

    def const_value(self, st, frame, text):
        text = text.strip()
        if text.startswith("fnitem "):
            return FnItem(self.subst(frame, text[7:]))
        m = re.fullmatch(r"(-?\d+)_([a-z0-9]+)", text)
        if m:
            return I(m.group(2), int(m.group(1)))
        if text in ("true", "false"):
            return I("bool", text == "true")
        if text == "()":
            return UNIT
        m = re.fullmatch(r"(-?[0-9.eE+\-]+|-?inf|NaN|-?NaN)(f64|f32)", text)
        if m:
            s = m.group(1)
            f = float(s.replace("NaN", "nan"))
            return I(m.group(2), float_bits(m.group(2), f))
        if text.startswith('"') or text.startswith('b"'):
            lit = text[1:] if text.startswith("b") else text
            bs = _unescape(lit[1:-1])
            cell = Cell(Agg("array", [I("u8", b) for b in bs]))
            return Ref(cell, (), (0, len(bs)), is_str=not text.startswith("b"))
        m = re.fullmatch(r"'(.*)'", text)
        if m:
            bs = _unescape(m.group(1)).decode("utf-8", "replace")
            return I("char", ord(bs[0]))
        text_s = self.subst(frame, text)
        cm = re.match(r"^ZeroSized: (\{closure@[^}]*\})$", text_s)
        if cm:
            return Agg("struct", [], name=cm.group(1))
        # zero-sized values
        if re.match(r"^(std::marker::)?PhantomData", text_s) or text_s.startswith("ZeroSized") or ": PhantomData" in text_s:
            return Agg("struct", [], name="PhantomData")
        # well-known associated constants
        m = re.fullmatch(r"(?:core::num::<impl )?([iu](?:8|16|32|64|128|size))>?::(MAX|MIN|BITS)", text_s)
        if m:
            ty = m.group(1)
            w = INT_W[ty]
            if m.group(2) == "BITS":
                return I("u32", w)
            if ty in SIGNED:
                return I(ty, (1 << (w - 1)) - 1 if m.group(2) == "MAX" else -(1 << (w - 1)))
            return I(ty, (1 << w) - 1 if m.group(2) == "MAX" else 0)
        m = re.fullmatch(r"(?:core::)?f64::(MAX|MIN|NAN|INFINITY|NEG_INFINITY|EPSILON)", text_s)
        if m:
            import sys
            v = {"MAX": sys.float_info.max, "MIN": -sys.float_info.max, "NAN": float("nan"), "INFINITY": float("inf"),
                 "NEG_INFINITY": -float("inf"), "EPSILON": sys.float_info.epsilon}[m.group(1)]
            return I("f64", float_bits("f64", v))
        # promoted / named constants: evaluate their MIR body
        path = _strip_generics(text_s)
        if path in self._const_cache:
            return copy.deepcopy(self._const_cache[path])
        if "::promoted[" in path:
            cands = []
            pm = re.search(r"::promoted\[(\d+)\]$", path)
            own = frame.fn.name + f"::promoted[{pm.group(1)}]" if pm else None
            if own:
                for key, d in self.dumps.items():
                    for f in d.functions.get(own, []):
                        cands.append((key, f))
                if cands:
                    path = own
            base = frame.fn.name
            # promoted constants are named after the *printed* function name
            if not cands:
                for key, d in self.dumps.items():
                    for f in d.functions.get(path, []):
                        cands.append((key, f))
            if not cands:
                cands = self.lookup_fn(path)
        else:
            cands = [(k, f) for k, f in self.lookup_fn(path) if f.kind in ("const", "static")]
        if len(cands) >= 1:
            # several bodies with identical text are the same constant
            key, f = cands[0]
            if len(cands) > 1 and any(c[1]._lines != f._lines for c in cands[1:]):
                raise Unsupported(f"ambiguous constant {text_s}")
            val = self.eval_const_body(f, frame.tymap)
            self._const_cache[path] = val
            return copy.deepcopy(val)
        if re.fullmatch(r"[A-Za-z_0-9:<>, ]+ \{\{.*\}\}", text_s):
            return Opaque("const " + text_s.split(" {{")[0].split("::")[-1])
        # unit variant of an enum (`const Option::<T>::None`, `const MergeOp::TakeLeft`)
        segs = _strip_generics(text_s).split("::")
        if len(segs) >= 3 and segs[-3].endswith("_capnp") and self.src.enum_variants("capnp:" + segs[-2], segs[-1]) is not None:
            # enums generated from a .capnp schema share names with hand-written enums (EncodingType): keep them apart
            return Agg("enum", [], name="capnp:" + segs[-2], variant=segs[-1])
        if len(segs) >= 2 and (segs[-2] in self.BUILTIN_ENUMS or self.src.enum_variants(segs[-2], segs[-1]) is not None):
            return Agg("enum", [], name=segs[-2], variant=segs[-1])
        # unit-like struct constant (e.g. `const CmpLessThan`)
        if re.fullmatch(r"[A-Za-z_0-9:<>, ]+", text_s) and text_s.split("::")[-1][:1].isupper():
            return Agg("struct", [], name=_strip_generics(text_s).split("::")[-1])
        raise Unsupported("constant: " + text)

    def eval_const_body(self, f, tymap):
        f.parse()
        st = State()
        fr = Frame(f, dict(tymap or {}))
        for name in f.decls:
            fr.locals[name] = Cell(UNINIT)
        fr.locals.setdefault("_0", Cell(UNINIT))
        st.frames.append(fr)
        outs = self.explore(st)
        if len(outs) != 1 or outs[0].kind != "return":
            raise Unsupported(f"constant body {f.name} did not evaluate to a single value")
        return outs[0].value

    # ------------------------------------------------------------------ places
    def resolve(self, st, frame, place):
        if place.local not in frame.locals:
            frame.locals[place.local] = Cell(UNINIT)
        loc = Loc(frame.locals[place.local])
        for p in place.proj:
            k = p[0]
            if k == "deref":
                v = self.read_loc(loc)
                if isinstance(v, Ref):
                    loc = Loc(v.cell, v.path, v.window, v.is_str)
                elif isinstance(v, Havoc):
                    if "*" not in v.fields:
                        v.fields["*"] = Cell(Havoc("*" + v.ty, v.name + ".*"))
                    loc = Loc(v.fields["*"])
                else:
                    raise Unsupported(f"deref of non-reference {v!r} in {place!r} ({frame.name})")
            elif k == "field":
                if loc.window is not None:
                    raise Unsupported("field of slice")
                loc = Loc(loc.cell, loc.path + (("f", p[1], self.subst(frame, p[2])),))
            elif k == "downcast":
                v = self.read_loc(loc)
                if isinstance(v, Agg) and v.kind == "enum" and v.variant != p[1] and not p[1].isdigit():
                    raise Unsupported(f"downcast {p[1]} of {v!r}")
                loc = Loc(loc.cell, loc.path + (("d", p[1]),))
            elif k == "index":
                idx = self.read_loc(Loc(frame.locals[p[1]]))
                loc = self._index(st, loc, idx)
            elif k == "cindex":
                n = self._seq_len(loc)
                i = (n - p[1]) if p[3] else p[1]
                loc = self._index(st, loc, I("usize", i))
            elif k == "subslice":
                n = self._seq_len(loc)
                lo0 = loc.window[0] if loc.window else 0
                lo = lo0 + p[1]
                hi = lo0 + (n - p[2] if p[3] else p[2])
                loc = Loc(loc.cell, loc.path, (lo, hi), loc.is_str)
            else:
                raise Unsupported("projection " + repr(p))
        return loc

    def _seq_len(self, loc):
        if loc.window is not None:
            return loc.window[1] - loc.window[0]
        return len(seq_elems(navigate(loc.cell.v, loc.path)))

    def _index(self, st, loc, idx):
        n = self._seq_len(loc)
        i = self.concretize(st, idx, bound=n + 1)
        if i < 0 or i >= n:
            raise PanicExc(f"index out of bounds: the len is {n} but the index is {i}")
        base = loc.window[0] if loc.window else 0
        return Loc(loc.cell, loc.path + (("i", base + i),))

    def read_loc(self, loc):
        v = navigate(loc.cell.v, loc.path)
        if loc.window is not None:
            raise Unsupported("by-value read of an unsized slice")
        return v

    def write_loc(self, loc, val):
        if loc.window is not None:
            raise Unsupported("write to slice window")
        if not loc.path:
            loc.cell.v = val
            return
        path = [s for s in loc.path]
        # drop trailing downcasts
        while path and path[-1][0] == "d":
            path.pop()
        if not path:
            loc.cell.v = val
            return
        parent = navigate(loc.cell.v, path[:-1])
        last = path[-1]
        if last[0] == "f":
            if isinstance(parent, Havoc):
                parent.fields[last[1]] = val
            elif isinstance(parent, Agg):
                while len(parent.fields) <= last[1]:
                    parent.fields.append(UNINIT)
                parent.fields[last[1]] = val
            elif parent is UNINIT or isinstance(parent, type(UNINIT)):
                # field-wise initialisation of an uninitialised aggregate
                agg = Agg("struct", [])
                while len(agg.fields) <= last[1]:
                    agg.fields.append(UNINIT)
                agg.fields[last[1]] = val
                self.write_loc(Loc(loc.cell, tuple(path[:-1])), agg)
            else:
                raise Unsupported(f"field write into {parent!r}")
        elif last[0] == "i":
            seq_elems(parent)[last[1]] = val
        else:
            raise Unsupported("write path " + repr(last))

    # ------------------------------------------------------------------ operands / rvalues
    def operand(self, st, frame, op):
        if op.kind == "const":
            return self.const_value(st, frame, op.const)
        loc = self.resolve(st, frame, op.place)
        v = self.read_loc(loc)
        if v is UNINIT:
            raise Unsupported(f"read of uninitialised {op.place!r} in {frame.name}")
        return clone_shallow(v)

    def rvalue(self, st, frame, rv, dest_ty=None):
        k = rv.kind
        if k == "use":
            return self.operand(st, frame, rv.args[0])
        if k in ("ref", "rawref"):
            loc = self.resolve(st, frame, rv.args[0])
            return Ref(loc.cell, loc.path, loc.window, loc.is_str, mut=bool(rv.extra))
        if k == "binop":
            a = self.operand(st, frame, rv.args[0])
            b = self.operand(st, frame, rv.args[1])
            if isinstance(a, Ref) or isinstance(b, Ref):
                if rv.extra in ("Eq", "Ne") and isinstance(a, Ref) and isinstance(b, Ref):
                    same = a.cell is b.cell and a.path == b.path and a.window == b.window
                    return I("bool", same if rv.extra == "Eq" else not same)
                raise Unsupported("pointer arithmetic/comparison")
            if not isinstance(a, I) or not isinstance(b, I):
                raise Unsupported(f"binop {rv.extra} on {a!r}, {b!r}")
            if rv.extra in ("Div", "Rem"):
                # MIR guards division with explicit asserts; nothing to add here
                pass
            r = binop(rv.extra, a, b)
            if isinstance(r, tuple) and r[0] == "symbolic-ordering":
                lt = self.decide(st, r[1])
                if lt:
                    return ordering(-1)
                eq = self.decide(st, r[2])
                return ordering(0 if eq else 1)
            return r
        if k == "unop":
            a = self.operand(st, frame, rv.args[0])
            if rv.extra == "PtrMetadata":
                if isinstance(a, Ref) and a.window is not None:
                    return I("usize", a.window[1] - a.window[0])
                if isinstance(a, Ref):
                    v = navigate(a.cell.v, a.path)
                    return I("usize", len(seq_elems(v)))
                raise Unsupported("PtrMetadata of " + repr(a))
            return unop(rv.extra, a)
        if k == "cast":
            a = self.operand(st, frame, rv.args[0])
            to_ty, ckind = rv.extra
            to_ty = self.subst(frame, to_ty)
            if ckind == "IntToInt":
                return cast_int(a, to_ty)
            if ckind == "IntToFloat":
                return cast_int_to_float(a, to_ty)
            if ckind == "FloatToInt":
                return cast_float_to_int(a, to_ty)
            if ckind == "FloatToFloat":
                if a.ty == to_ty:
                    return a
                raise Unsupported("f32<->f64 cast")
            if ckind.startswith("PointerCoercion(Unsize"):
                # &[T; N] -> &[T], &Vec -> no.  Box<T> -> Box<dyn>: keep the pointer
                if isinstance(a, Ref):
                    v = navigate(a.cell.v, a.path)
                    if isinstance(v, Agg) and v.kind == "array" and a.window is None:
                        return Ref(a.cell, a.path, (0, len(v.fields)), a.is_str, a.mut)
                    return a
                raise Unsupported("unsize of " + repr(a))
            if ckind in ("PtrToPtr", "PointerCoercion(MutToConstPointer, Implicit)", "PointerCoercion(MutToConstPointer, AsCast)") or ckind.startswith("PointerCoercion(MutToConstPointer"):
                return a
            if isinstance(a, Havoc) and (ckind in ("Transmute", "PtrToPtr") or ckind.startswith("PointerCoercion")):
                return a
            if ckind == "Transmute" and isinstance(a, VecObj) and re.match(r"^(std::vec::)?Vec<", to_ty):
                # Vec<f64> <-> Vec<OrderedFloat<f64>> (repr(transparent) newtype): same buffer, elements re-wrapped
                inner = to_ty[to_ty.index("<") + 1:-1]
                def rewrap(e):
                    if "OrderedFloat" in inner and isinstance(e, I):
                        return Agg("struct", [e], name="OrderedFloat")
                    if inner in INT_W and isinstance(e, Agg) and len(e.fields) == 1:
                        return e.fields[0]
                    return e
                return VecObj([rewrap(e) for e in a.elems], inner, a.cap, a.is_str)
            if ckind == "Transmute":
                if isinstance(a, I) and to_ty in INT_W and INT_W[to_ty] == a.w:
                    return I(to_ty, a.v)
                if isinstance(a, Ref):
                    return a
                # newtype wrappers (OrderedFloat<f64> <-> f64 etc.)
                if isinstance(a, Agg) and len(a.fields) == 1 and isinstance(a.fields[0], I) and to_ty in INT_W:
                    return I(to_ty, a.fields[0].v)
                raise Unsupported(f"transmute {a!r} -> {to_ty}")
            raise Unsupported("cast kind " + ckind)
        if k == "tuple":
            if not rv.args:
                return UNIT
            return Agg("tuple", [self.operand(st, frame, o) for o in rv.args])
        if k == "array":
            return Agg("array", [self.operand(st, frame, o) for o in rv.args])
        if k == "repeat":
            n = rv.extra
            m = re.fullmatch(r"(?:const )?(\d+)(?:_usize)?", n)
            if not m:
                raise Unsupported("repeat count " + n)
            v = self.operand(st, frame, rv.args[0])
            return Agg("array", [clone_shallow(v) for _ in range(int(m.group(1)))])
        if k == "adt":
            path, names = rv.extra
            path = self.subst(frame, path)
            fields = [self.operand(st, frame, o) for o in rv.args]
            bare = _strip_generics(path)
            segs = bare.split("::")
            if len(segs) >= 2:
                en, var = segs[-2], segs[-1]
                if len(segs) >= 3 and segs[-3].endswith("_capnp") and self.src.enum_variants("capnp:" + en, var) is not None:
                    return Agg("enum", fields, name="capnp:" + en, variant=var)
                if en in self.BUILTIN_ENUMS or self.src.enum_variants(en, var) is not None:
                    return Agg("enum", fields, name=en, variant=var)
            return Agg("struct", fields, name=segs[-1])
        if k == "discriminant":
            loc = self.resolve(st, frame, rv.args[0])
            v = self.read_loc(loc)
            return self.discriminant_of(v)
        if k == "len":
            loc = self.resolve(st, frame, rv.args[0])
            return I("usize", self._seq_len(loc))
        if k == "nullop":
            op, ty = rv.extra
            if op in ("UbChecks", "ContractChecks"):
                return I("bool", 0)
            ty = self.subst(frame, ty)
            if op == "SizeOf" and ty in INT_W:
                return I("usize", max(1, INT_W[ty] // 8))
            if op == "AlignOf" and ty in INT_W:
                return I("usize", max(1, INT_W[ty] // 8))
            # sizes of aggregate types only feed the allocator call of `Box::new` / `vec![..]` lowering
            # (alloc::alloc::exchange_malloc, modelled as "fresh box"): an opaque token that cannot be computed with
            return Opaque("layout:" + op)
        if k == "shallow_init_box":
            return self.operand(st, frame, rv.args[0])
        if k == "closure":
            span, names = rv.extra
            return Agg("struct", [self.operand(st, frame, o) for o in rv.args], name=span)
        raise Unsupported("rvalue kind " + k)

    BUILTIN_ENUMS = {"Option": [("None", 0), ("Some", 1)], "Result": [("Ok", 0), ("Err", 1)],
                     "Ordering": [("Less", -1), ("Equal", 0), ("Greater", 1)],
                     "ControlFlow": [("Continue", 0), ("Break", 1)], "Cow": [("Borrowed", 0), ("Owned", 1)],
                     "Bound": [("Included", 0), ("Excluded", 1), ("Unbounded", 2)]}

    def discriminant_of(self, v):
        if isinstance(v, Havoc):
            return v.field("discriminant", "isize")
        if isinstance(v, Agg) and v.kind == "enum" and (v.name or "").startswith("capnpwhich:"):
            # union discriminator enum built by the capnp accessor model: the variant position is carried in the name
            return I("isize", int(v.name.split(":")[1]))
        if isinstance(v, Agg) and v.kind == "enum":
            vs = self.BUILTIN_ENUMS.get(v.name) or self.src.enum_variants(v.name, v.variant)
            if vs is None:
                raise Unsupported(f"unknown enum {v.name}::{v.variant}")
            for name, d in vs:
                if name == v.variant:
                    return I("i8" if v.name == "Ordering" else "isize", d)
        raise Unsupported("discriminant of " + repr(v))

    # ------------------------------------------------------------------ running
    def start(self, fn, args, tymap=None, pc=None, env=None):
        fn.parse()
        st = State()
        fr = Frame(fn, dict(tymap or {}))
        for name in fn.decls:
            fr.locals[name] = Cell(UNINIT)
        fr.locals.setdefault("_0", Cell(UNINIT))
        if len(args) != len(fn.args):
            raise Unsupported(f"{fn.name}: {len(fn.args)} parameters, {len(args)} arguments supplied")
        for (name, _), v in zip(fn.args, args):
            fr.locals[name] = Cell(v)
        st.frames.append(fr)
        st.pc = list(pc or [])
        st.env = env or {}
        return st

    def start_at(self, fn, block, locals_init, tymap=None, pc=None, env=None):
        """arithmetic slice: begin in the middle of `fn` at `block` with the given locals (others uninitialised)"""
        fn.parse()
        st = State()
        fr = Frame(fn, dict(tymap or {}))
        holder = Havoc("locals", "local")
        for name, ty in fn.decls.items():
            # state produced by the skipped prefix of the function is under-constrained
            fr.locals[name] = Cell(holder.field(name, self.subst(fr, ty)))
        fr.locals.setdefault("_0", Cell(UNINIT))
        for name, v in locals_init.items():
            fr.locals[name] = Cell(v)
        fr.block = block
        st.frames.append(fr)
        st.pc = list(pc or [])
        st.env = env or {}
        return st

    def find_call_block(self, fn, callee_rx):
        """blocks of fn whose terminator calls a function matching callee_rx -> [(block name, Term)]"""
        fn.parse()
        rx = re.compile(callee_rx)
        return [(b.name, b.term) for b in fn.blocks.values() if b.term is not None and b.term.kind == "call" and rx.search(b.term.a["func"])]

    def enter(self, st, fn, args, tymap=None):
        """push an entry frame for `fn` on an existing (returned) state: used to run call sequences"""
        fn.parse()
        fr = Frame(fn, dict(tymap or {}))
        for name in fn.decls:
            fr.locals[name] = Cell(UNINIT)
        fr.locals.setdefault("_0", Cell(UNINIT))
        if len(args) != len(fn.args):
            raise Unsupported(f"{fn.name}: {len(fn.args)} parameters, {len(args)} arguments supplied")
        for (name, _), v in zip(fn.args, args):
            fr.locals[name] = Cell(v)
        st.frames.append(fr)
        st.fuel = 0
        return st

    def explore(self, st0):
        """run to completion over all feasible paths; returns list of Outcome"""
        outcomes = []
        work = [st0]
        base_depth = len(st0.frames)
        while work:
            st = work.pop()
            if len(outcomes) + len(work) > self.max_paths:
                raise Unsupported(f"path cap {self.max_paths} exceeded")
            while True:
                snap = None
                try:
                    try:
                        res = self.step(st, base_depth)
                    except Unsupported as e:
                        if "   [at " not in str(e) and st.frames:
                            fr_ = st.frames[-1]
                            raise Unsupported(f"{e}   [at {_short_fn(fr_.name)}:{fr_.block}, path {''.join(st.trace)[-40:]}]")
                        raise
                except Fork as fk:
                    # wall-clock cap per exploration (an edited tree must never hang a check: exit 2 instead)
                    if time.time() > getattr(self, "deadline", float("inf")):
                        raise Unsupported("time cap of the obligation exceeded while forking (path explosion)")
                    if len(st.trace) > 4000:
                        raise Unsupported("more than 4000 branch decisions on one path (non-terminating exploration)")
                    c = fk.cond
                    s2 = st.clone()
                    key = c.v.get_id()
                    st.pc.append(c.v)
                    st.decided[key] = True
                    st.trace.append("T")
                    s2.pc.append(z3.Not(c.v))
                    s2.decided[key] = False
                    s2.trace.append("F")
                    work.append(s2)
                    continue
                except ForkValues as fv:
                    key = ("val", fv.term.v.get_id())
                    first = True
                    for val in fv.choices[1:]:
                        s2 = st.clone()
                        s2.pc.append(fv.term.v == z3.BitVecVal(val, fv.term.w))
                        s2.decided[key] = val
                        s2.trace.append(f"={val}")
                        work.append(s2)
                    val = fv.choices[0]
                    st.pc.append(fv.term.v == z3.BitVecVal(val, fv.term.w))
                    st.decided[key] = val
                    st.trace.append(f"={val}")
                    continue
                except PanicExc as p:
                    fr = st.frames[-1]
                    outcomes.append(Outcome("panic", None, st, f"{p.msg} @ {_short_fn(fr.name)}:{fr.block}"))
                    break
                except Infeasible:
                    self.pruned += 1
                    break
                except StopSlice as sp:
                    outcomes.append(Outcome("stop", sp.info, st, "slice end"))
                    break
                if res is not None:
                    outcomes.append(res)
                    break
        return outcomes

    def step(self, st, base_depth):
        """execute one basic block of the top frame.  Returns Outcome when the entry frame returns."""
        fr = st.frames[-1]
        st.fuel += 1
        self.blocks_executed += 1
        if st.fuel > self.fuel:
            raise Unsupported(f"fuel {self.fuel} basic blocks exhausted on one path")
        blk = fr.fn.blocks[fr.block]
        # statements are re-executed from fr.idx after a fork: keep idx up to date
        while fr.idx < len(blk.stmts):
            s = blk.stmts[fr.idx]
            if s.kind == "assign":
                try:
                    val = self.rvalue(st, fr, s.rvalue)
                    self.write_loc(self.resolve(st, fr, s.place), val)
                except Unsupported as e:
                    if "   [at " not in str(e):
                        raise Unsupported(f"{e}   [at {_short_fn(fr.name)}:{fr.block}: {s.text.strip()[:160]}]")
                    raise
            elif s.kind == "setdisc":
                raise Unsupported("SetDiscriminant")
            elif s.kind == "assume":
                c = self.operand(st, fr, s.rvalue)
                if not c.concrete:
                    st.pc.append(c.v)
            elif s.kind == "intrinsic":
                raise Unsupported("intrinsic statement " + s.text)
            fr.idx += 1
        t = blk.term
        k = t.kind
        if k == "goto":
            self.jump(fr, t.a["target"])
            return None
        if k == "switch":
            v = self.operand(st, fr, t.a["op"])
            if not isinstance(v, I):
                raise Unsupported("switchInt on " + repr(v))
            if v.ty == "bool":
                b = self.decide(st, v)
                val = 1 if b else 0
            elif v.concrete:
                val = v.v
            else:
                # integer switch on a symbolic value: decide equality per target
                val = None
                for tv, tb in t.a["targets"]:
                    if self.decide(st, binop("Eq", v, I(v.ty, tv))):
                        val = tv
                        break
                if val is None:
                    self.jump(fr, t.a["otherwise"])
                    return None
            for tv, tb in t.a["targets"]:
                if I(v.ty, tv).v == val or (v.ty == "bool" and tv == val):
                    self.jump(fr, tb)
                    return None
            if t.a["otherwise"] is None:
                raise Unsupported("switch fell through")
            self.jump(fr, t.a["otherwise"])
            return None
        if k == "assert":
            c = self.operand(st, fr, t.a["cond"])
            want = t.a["expected"]
            ok = self.decide(st, c if want else bnot(c))
            if not ok:
                raise PanicExc("assert failed: " + t.a["msg"])
            self.jump(fr, t.a["target"])
            return None
        if k == "drop":
            self.jump(fr, t.a["target"])
            return None
        if k == "return":
            rv = fr.locals["_0"].v
            if rv is UNINIT:
                rv = UNIT
            st.frames.pop()
            if len(st.frames) < base_depth:
                return Outcome("return", rv, st)
            caller = st.frames[-1]
            if fr.dest is not None:
                self.write_loc(fr.dest, clone_shallow(rv))
            if fr.target is None:
                raise Unsupported("return into diverging call")
            self.jump(caller, fr.target)
            return None
        if k == "unreachable":
            if self.prune_unreachable:
                raise Infeasible()
            raise PanicExc("entered unreachable code (MIR `unreachable`)")
        if k == "call":
            return self.call(st, fr, t)
        if k in ("resume", "abort", "terminate"):
            raise PanicExc("unwinding")
        raise Unsupported("terminator " + k)

    def jump(self, fr, target):
        fr.block = target
        fr.idx = 0

    # ------------------------------------------------------------------ closures / synchronous sub-calls
    def closure_fn(self, closure):
        """MIR body of a closure value (matched by its source span)"""
        if self._closure_index is None:
            idx = {}
            for key, d in self.dumps.items():
                for name, fs in d.functions.items():
                    if "{closure#" in name:
                        for f in fs:
                            m = re.search(r"\(_1: (?:&(?:mut )?)?(?:'[a-z_0-9]+ )?(\{closure@[^}]*\})", f.header)
                            if m:
                                idx.setdefault(m.group(1), []).append(f)
            self._closure_index = idx
        fs = self._closure_index.get(closure.name, [])
        if len(fs) != 1:
            raise Unsupported(f"closure body for {closure.name}: {len(fs)} candidates")
        return fs[0].parse()

    def call_closure(self, st, fr, closure, args):
        """call closure(args...) -> value (args is a python list of the *unpacked* call arguments); fr: Frame or tymap dict"""
        if isinstance(closure, Ref):
            cval = navigate(closure.cell.v, closure.path)
            cref = closure
        else:
            cval = closure
            cref = None
        if isinstance(cval, FnItem):
            # tuple-struct / enum-variant constructors used as functions (`.map(OrderedFloat)`, `.map(Some)`)
            segs = _strip_generics(cval.path).split("::")
            last = segs[-1]
            if len(segs) >= 2 and (segs[-2] in self.BUILTIN_ENUMS or self.src.enum_variants(segs[-2], last) is not None):
                return Agg("enum", list(args), name=segs[-2], variant=last)
            if last[:1].isupper() and (last == "OrderedFloat" or self.src.struct_fields(last) is not None) and not self.lookup_fn(_strip_generics(cval.path)):
                return Agg("struct", list(args), name=last)
            raise Unsupported("function item used as closure: " + cval.path)
        fn = self.closure_fn(cval)
        first_ty = fn.args[0][1]
        if first_ty.startswith("&"):
            self_arg = cref if cref is not None else Ref(Cell(cval))
        else:
            self_arg = cval
        # closure bodies take their arguments unpacked
        if isinstance(cval, FnItem):
            raise Unsupported("function item used as closure")
        return self.call_sync(st, fn, [self_arg] + list(args), dict(fr if isinstance(fr, dict) else fr.tymap))

    def call_sync(self, st, fn, args, tymap):
        """run fn to completion on this state and return its value.  A fork inside propagates as an exception after the
        state has been restored, so that the calling model is re-executed from scratch on each branch."""
        backup = st.clone()
        depth = len(st.frames)
        try:
            self.enter_frame(st, fn, args, tymap)
            while True:
                res = self.step(st, depth + 1)
                if res is not None:
                    if res.kind == "return":
                        return res.value
                    raise Unsupported("sub-call ended with " + res.kind)
        except BaseException:
            st.frames = backup.frames
            st.env = backup.env
            st.pc = backup.pc
            st.decided = backup.decided
            st.trace = backup.trace
            raise

    def enter_frame(self, st, fn, args, tymap):
        fn.parse()
        nf = Frame(fn, dict(tymap or {}))
        for name in fn.decls:
            nf.locals[name] = Cell(UNINIT)
        nf.locals.setdefault("_0", Cell(UNINIT))
        if len(args) != len(fn.args):
            raise Unsupported(f"arity mismatch calling {fn.name}: {len(fn.args)} vs {len(args)}")
        for (name, _), v in zip(fn.args, args):
            nf.locals[name] = Cell(v)
        st.frames.append(nf)
        return nf

    # ------------------------------------------------------------------ calls
    def call(self, st, fr, t):
        func = t.a["func"]
        if func.startswith(("move ", "copy ")):
            callee = self.operand(st, fr, M.parse_operand(func))
            if isinstance(callee, FnItem):
                func_s = callee.path
            else:
                raise Unsupported("indirect call through " + repr(callee))
        else:
            func_s = self.subst(fr, func)
        func_s = re.sub(r"(?:::)?<'[a-z_][a-z_0-9]*>", "", func_s)
        func_s = re.sub(r"'[a-z_][a-z_0-9]*\s*,\s*", "", func_s)
        func_s = re.sub(r"&'[a-z_][a-z_0-9]* ", "&", func_s)
        args = None

        def get_args():
            nonlocal args
            if args is None:
                args = [self.operand(st, fr, a) for a in t.a["args"]]
            return args

        # 1. obligation stubs, 2. builtin models
        # method-level generic arguments (`ok_or::<E>`) do not select a different model
        func_ng = re.sub(r"::<[^<>]*(?:<[^<>]*(?:<[^<>]*>[^<>]*)*>[^<>]*)*>$", "", func_s) if func_s.endswith(">") and not func_s.startswith("<") or re.search(r"[a-z_0-9]::<.*>$", func_s) else func_s
        if func_ng != func_s:
            try:
                cut = _strip_last_generics(func_s)
                func_ng = cut
            except Exception:
                func_ng = func_s
        for rx, fnc in self.stubs + self.models:
            m = rx.search(func_s)
            path_used = func_s
            if not m and func_ng != func_s:
                m = rx.search(func_ng)
                path_used = func_ng
            if m:
                res = fnc(self, st, fr, path_used, get_args(), m)
                if res is NotImplemented:
                    continue
                self.finish_call(st, fr, t, res)
                return None
        # 3. crate code
        target = self.resolve_callee(fr, func_s, t)
        if target is not None and self.havoc_unknown_calls and not self.inline_in_slices(target[0]):
            target = None
        if target is None:
            if self.havoc_unknown_calls:
                # arithmetic slice: the callee's result is under-constrained
                dty = self.subst(fr, fr.fn.decls.get(t.a["dest"].local, "()")) if not t.a["dest"].proj else "?"
                self.havoc_calls += 1
                self.havoc_log.add(func_s[:160])
                if t.a["target"] is None:
                    raise Infeasible()      # diverging unknown call: path ends
                hv = Havoc("ret", f"ret_{func_s.split('::')[-1][:24]}").field(self.havoc_calls, dty) if dty != "()" else UNIT
                self.finish_call(st, fr, t, hv)
                return None
            raise Unsupported(f"call to unmodelled function {func_s}   (in {fr.name}:{fr.block})")
        fn, tymap = target
        fn.parse()
        nf = Frame(fn, tymap)
        for name in fn.decls:
            nf.locals[name] = Cell(UNINIT)
        nf.locals.setdefault("_0", Cell(UNINIT))
        a = get_args()
        if len(a) != len(fn.args):
            raise Unsupported(f"arity mismatch calling {fn.name}")
        for (name, _), v in zip(fn.args, a):
            nf.locals[name] = Cell(v)
        nf.dest = self.resolve(st, fr, t.a["dest"])
        nf.target = t.a["target"]
        if len(st.frames) > 60:
            raise Unsupported("call depth > 60")
        st.frames.append(nf)
        return None

    def finish_call(self, st, fr, t, res):
        if res is None:
            res = UNIT
        self.write_loc(self.resolve(st, fr, t.a["dest"]), res)
        if t.a["target"] is None:
            raise PanicExc("diverging call returned")
        self.jump(fr, t.a["target"])

    def resolve_callee(self, fr, func_s, t):
        """returns (Function, tymap) for crate code, or None"""
        # <Self as Trait>::method   |   <Self>::method
        m = re.match(r"^<(.*)>::([A-Za-z_0-9]+)(::<.*>)?$", func_s)
        if m and M.match_close(func_s, 0) == m.start(2) - 3:
            inner = m.group(1)
            method = m.group(2)
            parts = _split_as(inner)
            self_ty, trait = parts
            r = self.resolve_method(self_ty, trait, method)
            if r:
                fn, b = r
                return fn, b
            # blanket `impl<T, U: From<T>> Into<U> for T`
            im = re.match(r"^(?:std::convert::)?Into<(.*)>$", trait or "")
            if im and method == "into":
                r = self.resolve_method(im.group(1), f"From<{self_ty}>", "from")
                if r:
                    return r
            return None
        # items nested in an impl method: <Self as Trait>::method::inner
        m = re.match(r"^<(.*)>::([A-Za-z_0-9]+)((?:::[A-Za-z_0-9]+)+)$", func_s)
        if m and M.match_close(func_s, 0) == m.start(2) - 3:
            self_ty, trait = _split_as(m.group(1))
            r = self.resolve_method(self_ty, trait, m.group(2))
            if r:
                outer, b = r
                for key, d in self.dumps.items():
                    fs = d.functions.get(outer.name + m.group(3), [])
                    if len(fs) == 1:
                        return fs[0], b
            return None
        bare = _strip_generics(func_s)
        # Type::method (inherent or trait-qualified by type): try impl index with Self = second-to-last segment
        segs = _split_path(func_s)
        if len(segs) >= 2:
            method = _strip_generics(segs[-1])
            self_ty = segs[-2]
            if self_ty[:1].isupper() or self_ty.startswith(("[", "&", "(")):
                for trait in (None,):
                    r = self.resolve_method(self_ty, None, method)
                    if r:
                        fn_, b_ = r
                        b_ = dict(b_)
                        gm = re.search(r"::<(.*)>$", segs[-1]) if segs[-1].endswith(">") else None
                        if gm:
                            gargs = [g for g in M.split_top(gm.group(1)) if g and not g.startswith("'")]
                            plists = [p for p in self.src.fn_generics.get(method, []) if len(p) == len(gargs)]
                            if plists and all(p == plists[0] for p in plists):
                                b_.update(dict(zip(plists[0], gargs)))
                            elif gargs:
                                raise Unsupported(f"cannot bind generic arguments of {func_s}")
                        return fn_, b_
                # trait impl methods called through the type path
                cands = []
                for e in self.impl_index().get(method, []):
                    b = {}
                    if e["hdr"]["trait"] is not None and unify(e["hdr"]["self"], self_ty, e["hdr"]["generics"], b):
                        cands.append((e["fn"], b))
                if len(cands) == 1:
                    return cands[0]
        cands = [(k, f) for k, f in self.lookup_fn(bare) if f.kind == "fn" and "<impl at" not in f.name]
        if len(cands) == 1:
            fn = cands[0][1]
            tymap = {}
            gm = re.search(r"::<(.*)>$", func_s)
            if gm:
                gargs = [g for g in M.split_top(gm.group(1)) if g and not g.startswith("'")]
                plists = self.src.fn_generics.get(bare.split("::")[-1], [])
                plists = [p for p in plists if len(p) == len(gargs)]
                if len(plists) >= 1 and all(p == plists[0] for p in plists):
                    tymap = dict(zip(plists[0], gargs))
                elif gargs:
                    raise Unsupported(f"cannot bind generic arguments of {func_s}")
            return fn, tymap
        return None


def _short_fn(name):
    """function name without the line/column span of its impl (stable under unrelated edits)"""
    return re.sub(r"<impl at [^>]*>", "<impl>", name)


def _strip_last_generics(p):
    """remove a trailing `::<...>` (generic arguments of the final path segment)"""
    if not p.endswith(">"):
        return p
    op = M.match_open_back(p, len(p) - 1)
    if op >= 2 and p[op - 2:op] == "::":
        return p[:op - 2]
    return p


def _strip_generics(p):
    out = []
    depth = 0
    i = 0
    while i < len(p):
        if p[i:i + 3] == "::<" and depth == 0:
            close = M.match_close(p, i + 2)
            i = close + 1
            continue
        out.append(p[i])
        i += 1
    return "".join(out)


def _split_generic(t):
    lt = t.find("<")
    if lt > 0 and t.endswith(">"):
        return t[:lt], [p for p in M.split_top(t[lt + 1:-1]) if p]
    return t, []


def _split_as(inner):
    """'Self as Trait<..>' -> (Self, Trait) ; 'Self' -> (Self, None)"""
    depth = 0
    i = 0
    while i < len(inner):
        c = inner[i]
        if c in "<([":
            depth += 1
        elif c in ">)]":
            if not (c == ">" and i > 0 and inner[i - 1] == "-"):
                depth -= 1
        elif depth == 0 and inner[i:i + 4] == " as ":
            return inner[:i].strip(), inner[i + 4:].strip()
        i += 1
    return inner.strip(), None


def _split_path(p):
    """split at top-level '::'"""
    out = []
    depth = 0
    cur = []
    i = 0
    while i < len(p):
        c = p[i]
        if c in "<([":
            depth += 1
        elif c in ">)]":
            if not (c == ">" and i > 0 and p[i - 1] == "-"):
                depth -= 1
        if depth == 0 and p[i:i + 2] == "::" and not p[i + 2:i + 3] == "<":
            out.append("".join(cur))
            cur = []
            i += 2
            continue
        cur.append(c)
        i += 1
    out.append("".join(cur))
    return out


def _unescape(s):
    out = bytearray()
    i = 0
    while i < len(s):
        c = s[i]
        if c == "\\":
            n = s[i + 1]
            if n == "n":
                out.append(10)
            elif n == "t":
                out.append(9)
            elif n == "r":
                out.append(13)
            elif n == "0":
                out.append(0)
            elif n == "x":
                out.append(int(s[i + 2:i + 4], 16))
                i += 2
            elif n == "u":
                close = s.index("}", i)
                out.extend(chr(int(s[i + 3:close], 16)).encode())
                i = close - 1
            else:
                out.extend(n.encode())
            i += 2
        else:
            out.extend(c.encode())
            i += 1
    return bytes(out)
