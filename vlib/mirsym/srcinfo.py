"""Facts the MIR text does not carry and that are read from the *source files of the same tree*:
enum variant order, impl headers (for trait dispatch) and generic parameter lists."""
import os
import re

from .mir import split_top, match_close


def strip_comments(src):
    src = re.sub(r"//[^\n]*", "", src)
    src = re.sub(r"/\*.*?\*/", "", src, flags=re.S)
    return src


class SrcInfo:
    def __init__(self, roots):
        """roots: list of crate root dirs (containing src/)"""
        self.roots = roots
        self.enums = {}        # name -> list of [variants]   (several enums may share a name)
        self.enum_files = {}
        self.structs = {}      # name -> [field names] (named-field structs)
        self._files = {}
        self.fn_generics = {}  # fn name -> list of generic-param lists found in source
        for root in roots:
            for d, _, files in os.walk(os.path.join(root, "src")):
                for fn in files:
                    if fn.endswith(".rs"):
                        self._scan(os.path.join(d, fn))

    def file(self, path):
        if path not in self._files:
            try:
                self._files[path] = open(path, errors="replace").read()
            except OSError:
                self._files[path] = None
        return self._files[path]

    def _scan(self, path):
        raw = self.file(path)
        src = strip_comments(raw)
        for m in re.finditer(r"\benum\s+([A-Za-z_0-9]+)\s*(<[^{]*>)?\s*(?:where[^{]*)?\{", src):
            close = match_close(src, m.end() - 1)
            body = src[m.end():close]
            variants = []
            disc = 0
            for part in split_top(body):
                part = re.sub(r"#\[[^\]]*\]", "", part).strip()
                if not part:
                    continue
                vm = re.match(r"([A-Za-z_0-9]+)", part)
                if not vm:
                    continue
                dm = re.search(r"=\s*(-?\d+)\s*$", part)
                if dm:
                    disc = int(dm.group(1))
                variants.append((vm.group(1), disc))
                disc += 1
            self.enums.setdefault(m.group(1), []).append(variants)
            self.enum_files.setdefault(m.group(1), []).append(path)
        for m in re.finditer(r"\bstruct\s+([A-Za-z_0-9]+)\s*(<[^{(;]*>)?\s*(?:where[^{]*)?\{", src):
            try:
                close = match_close(src, m.end() - 1)
            except Exception:
                continue
            names = []
            for part in split_top(src[m.end():close]):
                part = re.sub(r"#\[[^\]]*\]", "", part).strip()
                fm = re.match(r"(?:pub(?:\([a-z]+\))?\s+)?([A-Za-z_0-9]+)\s*:", part)
                if fm:
                    names.append(fm.group(1))
            self.structs.setdefault(m.group(1), []).append(names)
        for m in re.finditer(r"\bfn\s+([A-Za-z_0-9]+)\s*<", src):
            try:
                close = match_close(src, m.end() - 1)
            except Exception:
                continue
            params = []
            for p in split_top(src[m.end():close]):
                p = p.strip()
                if not p or p.startswith("'"):
                    continue
                if p.startswith("const "):
                    p = p[6:]
                params.append(re.match(r"([A-Za-z_0-9]+)", p).group(1))
            self.fn_generics.setdefault(m.group(1), []).append(params)

    def struct_fields(self, name, having=None):
        c = self.structs.get(name, [])
        if having is not None:
            c = [x for x in c if having in x]
        if c and all(x == c[0] for x in c):
            return c[0]
        return None

    def enum_variants(self, name, variant=None):
        if name.startswith("capnp:"):
            base = name[len("capnp:"):]
            cands = [c for c in zip(self.enums.get(base, []), self.enum_files.get(base, [])) if "_capnp" in c[1]]
            if variant is not None:
                cands = [c for c in cands if any(v == variant for v, _ in c[0])]
            if cands and all(c[0] == cands[0][0] for c in cands):
                return cands[0][0]
            return None
        cands = list(zip(self.enums.get(name, []), self.enum_files.get(name, [])))
        if variant is not None:
            cands = [c for c in cands if any(v == variant for v, _ in c[0])]
        if len(cands) >= 1:
            # identical redefinitions (cfg variants) are fine
            first = cands[0][0]
            if all(c[0] == first for c in cands):
                return first
            # same name in hand-written code and in generated capnp code: the hand-written main crate wins
            # (mirsym values carry only the last path segment; the capnp enums are never executed by the obligations)
            hand = [c for c in cands if "_capnp" not in c[1]]
            if hand and all(c[0] == hand[0][0] for c in hand):
                return hand[0][0]
            return None
        return None

    # ---- impl headers ---------------------------------------------------------------------
    def impl_header(self, root, relfile, line, col):
        """text of the impl header starting at file:line:col up to the opening brace"""
        path = relfile if os.path.isabs(relfile) else os.path.join(root, relfile)
        src = self.file(path)
        if src is None:
            return None
        lines = src.split("\n")
        if line - 1 >= len(lines):
            return None
        text = "\n".join(lines[line - 1:line + 12])
        text = text[col - 1:]
        text = strip_comments(text)
        if not re.match(r"(unsafe\s+)?impl\b", text):
            # #[derive(Trait)]: the span covers the trait name; Self is the item that follows the attribute
            tm = re.match(r"([A-Za-z_0-9:]+)", text)
            rest = "\n".join(lines[line - 1:line + 30])
            rest = strip_comments(rest)
            dm = re.search(r"\b(?:struct|enum|union)\s+([A-Za-z_0-9]+)\s*", rest)
            if not tm or not dm:
                return None
            gens = ""
            if rest[dm.end():dm.end() + 1] == "<":
                try:
                    gens = rest[dm.end():match_close(rest, dm.end()) + 1]
                except Exception:
                    return None
            # impl<G..> Trait for Name<G..>
            names = []
            for g in split_top(gens[1:-1]) if gens else []:
                g = g.strip()
                if g:
                    names.append(g.split(":")[0].split("=")[0].strip())
            selfty = dm.group(1) + ("<" + ", ".join(names) + ">" if names else "")
            return f"impl{gens} {tm.group(1).split('::')[-1]} for {selfty}"
        b = text.find("{")
        if b < 0:
            return None
        return re.sub(r"\s+", " ", text[:b]).strip()


def parse_impl_header(h):
    """'impl<T: X> Trait<A> for Self<T> where ...' -> dict(generics=[..], trait=str|None, self=str)"""
    if h.startswith("unsafe "):
        h = h[7:]
    if not h.startswith("impl"):
        return None
    rest = h[4:].lstrip()
    generics = []
    if rest.startswith("<"):
        close = match_close(rest, 0)
        for p in split_top(rest[1:close]):
            p = p.strip()
            if not p or p.startswith("'"):
                continue
            if p.startswith("const "):
                p = p[6:]
            generics.append(re.match(r"([A-Za-z_0-9]+)", p).group(1))
        rest = rest[close + 1:].lstrip()
    # cut where-clause
    depth = 0
    cut = len(rest)
    i = 0
    while i < len(rest):
        c = rest[i]
        if c in "<([":
            depth += 1
        elif c in ">)]":
            if not (c == ">" and i > 0 and rest[i - 1] == "-"):
                depth -= 1
        elif depth == 0 and rest[i:i + 7] == " where ":
            cut = i
            break
        i += 1
    rest = rest[:cut].strip()
    # split at top-level " for "
    depth = 0
    pos = -1
    i = 0
    while i < len(rest):
        c = rest[i]
        if c in "<([":
            depth += 1
        elif c in ">)]":
            if not (c == ">" and i > 0 and rest[i - 1] == "-"):
                depth -= 1
        elif depth == 0 and rest[i:i + 5] == " for " and not rest[:i].rstrip().endswith("for<"):
            pos = i
            break
        i += 1
    if pos >= 0:
        return {"generics": generics, "trait": rest[:pos].strip(), "self": rest[pos + 5:].strip()}
    return {"generics": generics, "trait": None, "self": rest}


def norm_type(t):
    """canonical spelling for comparison: no lifetimes, no module paths, no spaces"""
    t = re.sub(r"'[a-z_][a-z_0-9]*\s*,?\s*", "", t)
    t = re.sub(r"<\s*>", "", t)
    t = re.sub(r"\b(?:[a-z_][a-z_0-9]*::)+", "", t)      # strip lower-case module path segments
    t = t.replace("::<", "<")
    t = re.sub(r"\s+", "", t)
    t = t.replace("&mut", "&mut ")
    return t


def unify(pattern, concrete, generics, binding):
    """very small first-order unifier over type spellings; generics of the impl are the variables"""
    pattern = norm_type(pattern)
    concrete = norm_type(concrete)
    return _unify(pattern, concrete, set(generics), binding)


def _split_type(t):
    """head, [args] for 'Head<A,B>'; refs/slices/tuples are treated structurally"""
    t = t.strip()
    if t.startswith("&mut "):
        return "&mut", [t[5:]]
    if t.startswith("&"):
        return "&", [t[1:]]
    if t.startswith("[") and t.endswith("]"):
        inner = t[1:-1]
        parts = split_top(inner, ";")
        if len(parts) == 2:
            return "[;]", [parts[0], parts[1]]
        return "[]", [inner]
    if t.startswith("(") and t.endswith(")"):
        return "()", [p for p in split_top(t[1:-1]) if p]
    lt = t.find("<")
    if lt > 0 and t.endswith(">"):
        return t[:lt], [p for p in split_top(t[lt + 1:-1]) if p]
    return t, []


def _unify(p, c, gens, b):
    if p in gens:
        if p in b:
            return b[p] == c
        b[p] = c
        return True
    hp, ap = _split_type(p)
    hc, ac = _split_type(c)
    if hp != hc or len(ap) != len(ac):
        return False
    return all(_unify(x, y, gens, b) for x, y in zip(ap, ac))
