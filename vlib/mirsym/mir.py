"""Reader for rustc's `-Zunpretty=mir` text (nightly-2025-03-28 format).

Only syntax is handled here; no semantics.  Bodies are parsed lazily (the dump is ~15 MB).
"""
import re


class MirError(Exception):
    pass


# --------------------------------------------------------------------------------------------
# generic scanning helpers
# --------------------------------------------------------------------------------------------
_OPEN = "([{<"
_CLOSE = ")]}>"


def split_top(s, sep=","):
    """Split at top-level separators (not inside brackets or string/char literals)."""
    out = []
    depth = 0
    cur = []
    i = 0
    n = len(s)
    while i < n:
        c = s[i]
        if c == '"':
            j = i + 1
            while j < n and s[j] != '"':
                if s[j] == "\\":
                    j += 1
                j += 1
            cur.append(s[i:j + 1])
            i = j + 1
            continue
        if c == "'" and i + 2 < n and (s[i + 2] == "'" or (s[i + 1] == "\\" and "'" in s[i + 2:i + 12])):
            # char literal (lifetimes like 'a are not followed by a closing quote at +2)
            j = s.index("'", i + 2 if s[i + 1] != "\\" else i + 3)
            cur.append(s[i:j + 1])
            i = j + 1
            continue
        if c == "-" and i + 1 < n and s[i + 1] == ">":
            cur.append("->")
            i += 2
            continue
        if c in _OPEN:
            depth += 1
        elif c in _CLOSE:
            depth -= 1
        if c == sep and depth == 0:
            out.append("".join(cur).strip())
            cur = []
        else:
            cur.append(c)
        i += 1
    last = "".join(cur).strip()
    if last or out:
        out.append(last)
    return out


def match_close(s, i):
    """s[i] is an opening bracket; return index of its matching closer."""
    depth = 0
    n = len(s)
    j = i
    while j < n:
        c = s[j]
        if c == "'" and j + 2 < n and s[j + 2] == "'":
            j += 2
        elif c == '"':
            j += 1
            while j < n and s[j] != '"':
                if s[j] == "\\":
                    j += 1
                j += 1
        elif c == "-" and j + 1 < n and s[j + 1] == ">":
            j += 1
        elif c in _OPEN:
            depth += 1
        elif c in _CLOSE:
            depth -= 1
            if depth == 0:
                return j
        j += 1
    raise MirError("unbalanced: " + s[i:i + 80])


def match_open_back(s, j):
    """s[j] is a closing bracket; return index of its matching opener (scanning backwards)."""
    depth = 0
    i = j
    while i >= 0:
        c = s[i]
        if c == "'" and i >= 2 and s[i - 2] == "'":
            i -= 2
        elif c == '"':
            i -= 1
            while i >= 0 and not (s[i] == '"' and (i == 0 or s[i - 1] != "\\")):
                i -= 1
        elif c == ">" and i > 0 and s[i - 1] == "-":
            i -= 1
        elif c in _CLOSE:
            depth += 1
        elif c in _OPEN:
            depth -= 1
            if depth == 0:
                return i
        i -= 1
    raise MirError("unbalanced (back): " + s[max(0, j - 80):j + 1])


# --------------------------------------------------------------------------------------------
# AST
# --------------------------------------------------------------------------------------------
class Place:
    __slots__ = ("local", "proj")

    def __init__(self, local, proj):
        self.local = local      # "_5"
        self.proj = proj        # tuple of projections

    def __repr__(self):
        return self.local + "".join(repr(p) for p in self.proj)


# projections: ("deref",) ("field", idx, type) ("downcast", variant) ("index", local) ("cindex", off, minlen, from_end)
# ("subslice", frm, to, from_end)


class Operand:
    __slots__ = ("kind", "place", "const")

    def __init__(self, kind, place=None, const=None):
        self.kind = kind        # copy | move | const
        self.place = place
        self.const = const      # raw constant text (after "const ")

    def __repr__(self):
        return f"{self.kind} {self.place if self.place else self.const}"


class Rvalue:
    __slots__ = ("kind", "args", "extra")

    def __init__(self, kind, args=(), extra=None):
        self.kind = kind
        self.args = args
        self.extra = extra

    def __repr__(self):
        return f"{self.kind}({self.args}, {self.extra})"


class Stmt:
    __slots__ = ("kind", "place", "rvalue", "text")

    def __init__(self, kind, place=None, rvalue=None, text=""):
        self.kind = kind        # assign | setdisc | nop | assume
        self.place = place
        self.rvalue = rvalue
        self.text = text


class Term:
    __slots__ = ("kind", "a", "text")

    def __init__(self, kind, text="", **a):
        self.kind = kind
        self.a = a
        self.text = text


class Block:
    __slots__ = ("name", "stmts", "term", "cleanup")

    def __init__(self, name, cleanup):
        self.name = name
        self.stmts = []
        self.term = None
        self.cleanup = cleanup


class Function:
    def __init__(self, name, header, body_lines, kind):
        self.name = name
        self.header = header
        self._lines = body_lines
        self.kind = kind              # fn | const | static | promoted
        self.args = []                # [(local, type)]
        self.ret = None
        self.decls = {}               # local -> type
        self.debug = {}               # local -> source name
        self.blocks = None

    def parse(self):
        if self.blocks is not None:
            return self
        self.blocks = {}
        if self.kind == "fn":
            m = re.match(r"fn (.*?)\((.*)\) -> (.*) \{$", self.header)
            # argument list: find from the end to be robust against parens in the path
            hdr = self.header
            assert hdr.endswith(" {")
            arrow = _find_ret_arrow(hdr)
            self.ret = hdr[arrow + 4:-2].strip()
            close = arrow - 1
            assert hdr[close] == ")", hdr
            op = match_open_back(hdr, close)
            for a in split_top(hdr[op + 1:close]):
                if not a:
                    continue
                am = re.match(r"(?:mut )?(_\d+): (.*)$", a)
                self.args.append((am.group(1), am.group(2)))
                self.decls[am.group(1)] = am.group(2)
        else:
            m = re.match(r"(?:const|static(?: mut)?) .*\]?: ([^:].*) = \{$", self.header)
            self.ret = m.group(1) if m else None
        cur = None
        for raw in self._lines:
            line = raw.strip()
            if not line or line.startswith("//"):
                continue
            if cur is None or line.startswith("bb") and re.match(r"bb\d+(?: \(cleanup\))?: \{$", line):
                m = re.match(r"(bb\d+)( \(cleanup\))?: \{$", line)
                if m:
                    cur = Block(m.group(1), bool(m.group(2)))
                    self.blocks[cur.name] = cur
                    continue
                m = re.match(r"let (?:mut )?(_\d+): (.*);$", line)
                if m:
                    self.decls[m.group(1)] = m.group(2)
                    continue
                m = re.match(r"debug (\S+) => (.*);$", line)
                if m:
                    self.debug[m.group(2)] = m.group(1)
                continue
            if line == "}":
                cur = None
                continue
            # strip trailing comments
            if " // " in line and not line.rstrip().endswith('";'):
                line = line.split(" // ")[0].rstrip()
            parsed = parse_line(line)
            if isinstance(parsed, Term):
                cur.term = parsed
            elif parsed is not None:
                cur.stmts.append(parsed)
        return self


def _find_ret_arrow(hdr):
    """index of the ') -> ' that separates the argument list from the return type (top level)."""
    depth = 0
    i = 0
    n = len(hdr)
    last = -1
    while i < n:
        c = hdr[i]
        if c == "-" and hdr[i + 1] == ">":
            if depth == 0 and hdr[i - 2] == ")":
                return i - 1
            i += 2
            continue
        if c in _OPEN:
            depth += 1
        elif c in _CLOSE:
            depth -= 1
        i += 1
    raise MirError("no return arrow in " + hdr)


# --------------------------------------------------------------------------------------------
# places / operands / rvalues
# --------------------------------------------------------------------------------------------
def parse_place(s):
    s = s.strip()
    p, rest = _place(s, 0)
    if rest != len(s):
        raise MirError(f"trailing text in place: {s!r} at {rest}")
    return p


def _place(s, i):
    """returns (Place, next index)"""
    if s[i] == "_":
        m = re.compile(r"_\d+").match(s, i)
        local = m.group(0)
        proj = []
        i = m.end()
    elif s[i] == "(":
        close = match_close(s, i)
        inner = s[i + 1:close]
        if inner.startswith("*"):
            base, e = _place(inner, 1)
            if e != len(inner):
                raise MirError("deref inner: " + inner)
            local, proj = base.local, list(base.proj) + [("deref",)]
        else:
            base, e = _place(inner, 0)
            rest = inner[e:]
            if rest.startswith(" as "):
                local, proj = base.local, list(base.proj) + [("downcast", rest[4:].strip())]
            elif rest.startswith("."):
                m = re.match(r"\.(\d+): (.*)$", rest, re.S)
                if not m:
                    raise MirError("field proj: " + inner)
                local, proj = base.local, list(base.proj) + [("field", int(m.group(1)), m.group(2))]
            else:
                raise MirError("place paren: " + inner)
        i = close + 1
    else:
        raise MirError("place: " + s[i:i + 40])
    # suffixes
    while i < len(s) and s[i] == "[":
        close = match_close(s, i)
        inner = s[i + 1:close]
        m = re.fullmatch(r"_\d+", inner)
        if m:
            proj.append(("index", inner))
        else:
            m = re.fullmatch(r"(-?)(\d+) of (\d+)", inner)
            if m:
                proj.append(("cindex", int(m.group(2)), int(m.group(3)), m.group(1) == "-"))
            else:
                m = re.fullmatch(r"(\d+):(-?)(\d*)", inner)
                if not m:
                    raise MirError("index proj: " + inner)
                proj.append(("subslice", int(m.group(1)), int(m.group(3) or 0), m.group(2) == "-"))
        i = close + 1
    return Place(local, tuple(proj)), i


def parse_operand(s):
    s = s.strip()
    if s.startswith("copy "):
        return Operand("copy", parse_place(s[5:]))
    if s.startswith("move "):
        return Operand("move", parse_place(s[5:]))
    if s.startswith("const "):
        return Operand("const", const=s[6:].strip())
    if re.match(r"^[A-Za-z_<{]", s) and not s.startswith(("copy", "move")):
        return Operand("const", const="fnitem " + s)      # function items are printed as bare paths
    raise MirError("operand: " + s)


BINOPS = {"Add", "Sub", "Mul", "Div", "Rem", "BitXor", "BitAnd", "BitOr", "Shl", "Shr", "Eq", "Lt", "Le", "Ne", "Ge", "Gt",
          "Cmp", "Offset", "AddWithOverflow", "SubWithOverflow", "MulWithOverflow", "AddUnchecked", "SubUnchecked",
          "MulUnchecked", "ShlUnchecked", "ShrUnchecked"}
UNOPS = {"Not", "Neg", "PtrMetadata"}


def parse_rvalue(s):
    s = s.strip()
    for pre, kind in (("&raw const (fake) ", "rawref"), ("&raw const ", "rawref"), ("&raw mut ", "rawref"), ("&mut ", "ref"), ("&fake shallow ", "ref"), ("&", "ref")):
        if s.startswith(pre):
            return Rvalue(kind, (parse_place(s[len(pre):]),), extra=("mut" in pre))
    if s.startswith("deref_copy "):
        return Rvalue("use", (Operand("copy", parse_place(s[11:])),))
    if s.startswith(("copy ", "move ", "const ")):
        # operand, or cast "move _x as T (Kind)"
        m = re.match(r"^(.*) \(([A-Za-z]+(?:\(.*\))?)\)$", s, re.S)
        if m and " as " in m.group(1):
            body = m.group(1)
            depth = 0
            cands = []
            k = 0
            while k < len(body):
                ch = body[k]
                if ch == '"':
                    break
                if ch == "-" and body[k:k + 2] == "->":
                    k += 2
                    continue
                if ch in _OPEN:
                    depth += 1
                elif ch in _CLOSE:
                    depth -= 1
                elif depth == 0 and body[k:k + 4] == " as ":
                    cands.append(k)
                k += 1
            for k in cands:
                try:
                    return Rvalue("cast", (parse_operand(body[:k]),), extra=(body[k + 4:], m.group(2)))
                except MirError:
                    pass
        return Rvalue("use", (parse_operand(s),))
    m = re.match(r"^([A-Za-z]+)\((.*)\)$", s, re.S)
    if m:
        op, inner = m.group(1), m.group(2)
        if op in BINOPS:
            a, b = split_top(inner)
            return Rvalue("binop", (parse_operand(a), parse_operand(b)), extra=op)
        if op in UNOPS:
            return Rvalue("unop", (parse_operand(inner),), extra=op)
        if op == "discriminant":
            return Rvalue("discriminant", (parse_place(inner),))
        if op == "Len":
            return Rvalue("len", (parse_place(inner),))
        if op == "CopyForDeref":
            return Rvalue("use", (Operand("copy", parse_place(inner)),))
        if op in ("SizeOf", "AlignOf"):
            return Rvalue("nullop", (), extra=(op, inner))
        if op in ("UbChecks", "ContractChecks"):
            return Rvalue("nullop", (), extra=(op, None))
        if op == "ShallowInitBox":
            a, b = split_top(inner)
            return Rvalue("shallow_init_box", (parse_operand(a),), extra=b)
    if s == "()":
        return Rvalue("tuple", ())
    if s.startswith("("):
        close = match_close(s, 0)
        if close == len(s) - 1:
            parts = split_top(s[1:-1])
            if parts and parts[-1] == "":
                parts = parts[:-1]
            return Rvalue("tuple", tuple(parse_operand(p) for p in parts))
    if s.startswith("["):
        close = match_close(s, 0)
        if close == len(s) - 1:
            inner = s[1:-1]
            semi = split_top(inner, ";")
            if len(semi) == 2:
                return Rvalue("repeat", (parse_operand(semi[0]),), extra=semi[1].strip())
            parts = [p for p in split_top(inner) if p]
            return Rvalue("array", tuple(parse_operand(p) for p in parts))
    # ADT aggregate
    if s.endswith("}") and " { " in s and not s.startswith("{"):
        op = match_open_back(s, len(s) - 1)
        path = s[:op].strip()
        fields = []
        for f in split_top(s[op + 1:-1]):
            if not f:
                continue
            fm = re.match(r"([A-Za-z_0-9]+): (.*)$", f, re.S)
            fields.append((fm.group(1), parse_operand(fm.group(2))))
        return Rvalue("adt", tuple(o for _, o in fields), extra=(path, tuple(n for n, _ in fields)))
    if s.endswith(")") and not s.startswith("{"):
        op = match_open_back(s, len(s) - 1)
        path = s[:op].strip()
        parts = [p for p in split_top(s[op + 1:-1]) if p]
        try:
            return Rvalue("adt", tuple(parse_operand(p) for p in parts), extra=(path, None))
        except MirError:
            pass
    if s.startswith("{closure@") or s.startswith("{coroutine@"):
        # closure aggregate: {closure@file:l:c: l:c} optionally followed by captures " { x: move _1 }"
        close = match_close(s, 0)
        span = s[:close + 1]
        rest = s[close + 1:].strip()
        ops = []
        names = []
        if rest.startswith("{") and rest.endswith("}"):
            for f in split_top(rest[1:-1]):
                if not f:
                    continue
                fm = re.match(r"([A-Za-z_0-9]+): (.*)$", f, re.S)
                names.append(fm.group(1))
                ops.append(parse_operand(fm.group(2)))
        return Rvalue("closure", tuple(ops), extra=(span, tuple(names)))
    if re.match(r"^[A-Za-z_<]", s) and not s.endswith((")", "}")):
        return Rvalue("adt", (), extra=(s, None))      # unit variant / unit struct
    raise MirError("rvalue: " + s)


def parse_line(line):
    if line.endswith(";"):
        body = line[:-1]
    else:
        body = line
    if body.startswith(("StorageLive(", "StorageDead(", "FakeRead(", "PlaceMention(", "Retag(", "AscribeUserType(", "Coverage::", "ConstEvalCounter", "nop", "BackwardIncompatibleDropHint(", "Deinit(")):
        return None
    if body.startswith("assume("):
        return Stmt("assume", rvalue=parse_operand(body[7:-1]), text=line)
    if body.startswith("goto -> "):
        return Term("goto", line, target=body[8:])
    if body in ("return", "unreachable", "resume", "abort", "terminate", "terminate(abi)", "terminate(cleanup)"):
        return Term(body.split("(")[0], line)
    if body.startswith("switchInt("):
        close = match_close(body, 9)
        op = parse_operand(body[10:close])
        m = re.match(r" -> \[(.*)\]$", body[close + 1:])
        targets = []
        otherwise = None
        for t in m.group(1).split(", "):
            k, v = t.split(": ")
            if k == "otherwise":
                otherwise = v
            else:
                targets.append((int(k), v))
        return Term("switch", line, op=op, targets=targets, otherwise=otherwise)
    if body.startswith("drop("):
        close = match_close(body, 4)
        m = re.search(r"return: (bb\d+)", body[close:])
        return Term("drop", line, place=parse_place(body[5:close]), target=m.group(1) if m else None)
    if body.startswith("assert("):
        close = match_close(body, 6)
        parts = split_top(body[7:close])
        cond = parts[0]
        neg = cond.startswith("!")
        if neg:
            cond = cond[1:]
        m = re.search(r"success: (bb\d+)", body[close:])
        return Term("assert", line, cond=parse_operand(cond), expected=not neg, msg=parts[1] if len(parts) > 1 else "",
                    margs=parts[2:], target=m.group(1))
    if body.startswith("falseEdge") or body.startswith("falseUnwind"):
        m = re.search(r"real: (bb\d+)", body)
        return Term("goto", line, target=m.group(1))
    if body.startswith("discriminant("):
        close = match_close(body, 12)
        return Stmt("setdisc", place=parse_place(body[13:close]), rvalue=int(body[close + 1:].strip(" =")), text=line)
    # assignment or call
    eq = _find_assign(body)
    if eq < 0:
        if body.startswith("copy_nonoverlapping("):
            return Stmt("intrinsic", text=line)
        raise MirError("statement: " + line)
    lhs = body[:eq]
    rhs = body[eq + 3:]
    cm = re.search(r" -> (\[return: (bb\d+), unwind[^\]]*\]|unwind [a-z]+|unwind: bb\d+|bb\d+|\[return: (bb\d+)\])$", rhs)
    if cm and rhs[:cm.start()].endswith(")"):
        callexpr = rhs[:cm.start()]
        op = match_open_back(callexpr, len(callexpr) - 1)
        func = callexpr[:op].strip()
        args = [a for a in split_top(callexpr[op + 1:-1]) if a]
        target = cm.group(2) or cm.group(3)
        return Term("call", line, dest=parse_place(lhs), func=func, args=[parse_operand(a) for a in args], target=target)
    return Stmt("assign", place=parse_place(lhs), rvalue=parse_rvalue(rhs), text=line)


def _find_assign(body):
    """index of the top-level ' = ' separating place and rvalue"""
    depth = 0
    i = 0
    n = len(body)
    while i < n - 2:
        c = body[i]
        if c == '"':
            return -1
        if c == "-" and body[i + 1] == ">":
            i += 2
            continue
        if c in _OPEN:
            depth += 1
        elif c in _CLOSE:
            depth -= 1
        elif c == " " and depth == 0 and body[i:i + 3] == " = ":
            return i
        i += 1
    return -1


# --------------------------------------------------------------------------------------------
# the whole dump
# --------------------------------------------------------------------------------------------
class MirDump:
    def __init__(self, path):
        self.path = path
        self.text = open(path, errors="replace").read()
        self.functions = {}      # name -> [Function]  (several generic impls can share a printed name)
        self.order = []
        self._index()

    def _index(self):
        lines = self.text.split("\n")
        i = 0
        n = len(lines)
        hdr_re = re.compile(r"^(fn|const|static(?: mut)?) ")
        while i < n:
            line = lines[i]
            if hdr_re.match(line) and line.endswith("{"):
                j = i + 1
                while j < n and lines[j] != "}":
                    j += 1
                if line.startswith("fn "):
                    arrow = None
                    try:
                        arrow = _find_ret_arrow(line)
                        op = match_open_back(line, arrow - 1)
                        name = line[3:op]
                    except Exception:
                        name = line[3:].split("(")[0]
                    kind = "fn"
                else:
                    body = re.sub(r"^(?:const|static(?: mut)?) ", "", line)
                    name = body
                    depth = 0
                    for k, ch in enumerate(body):
                        if ch in "<([":
                            depth += 1
                        elif ch in ">)]" and not (ch == ">" and body[k - 1] == "-"):
                            depth -= 1
                        elif ch == ":" and depth == 0 and body[k:k + 2] == ": " and body[k - 1] != ":":
                            name = body[:k]
                            break
                    kind = "promoted" if "::promoted[" in name else "const"
                f = Function(name, line, lines[i + 1:j], kind)
                f.lineno = i + 1
                self.functions.setdefault(name, []).append(f)
                self.order.append(f)
                i = j + 1
            else:
                i += 1

    def find(self, pattern, sig=None):
        """All functions whose printed name matches the regex `pattern` (fullmatch) and header contains sig."""
        rx = re.compile(pattern)
        out = []
        for name, fs in self.functions.items():
            if rx.fullmatch(name):
                for f in fs:
                    if sig is None or sig in f.header:
                        out.append(f)
        return out

    def get(self, pattern, sig=None):
        fs = self.find(pattern, sig)
        if len(fs) != 1:
            raise MirError(f"function lookup {pattern!r} sig={sig!r}: {len(fs)} matches: {[f.header[:120] for f in fs[:5]]}")
        return fs[0].parse()
